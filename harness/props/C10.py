"""C10 - service scan and identifier scan: the real ServicesScanner.main() / ScanIdentifiers.main() run in-process on
a real ECU client over an in-process wire-level ECU (table-driven ECUs with optional session drops, refused re-entry,
ResponsePending / busyRepeatRequest frames, reset and boot behaviour; 'wild' ECUs; the real RandomUDSServer), under
virtual time.  The per-transmission answer script (what the ECU put on the wire for every single transmission, final
message classified by the real client) is replayed through the Lean model (Model/Scans.lean: scanner on top of the
client's retry / ResponsePending loop on top of a scripted wire ECU): the model must put the same transmissions on the
wire in the same order, consume exactly the same answers and report the same result.  Independently, the property's own
statement is evaluated on the ECU's ground truth (spec verdict), and metamorphic pairs (reset on/off, check-session
on/off, ResponsePending on/off) are compared."""
import asyncio
import re

from common import setup_repo_import
from vloop import Stall, vrun

ID = "C10"
GENS = ["c10_codes"]
PROOF = "Gallia.Proofs.C10"
DRIVER = "c10"
ASSUMPTIONS = [
    "configuration domain: no database, no power supply, session ids / reset levels 1..0x7F, identifiers within 16 bit, session lists without repetition",
    "the final message of a transmission is represented by its class (positive PDU / NRC / silence / unparsable) as decided by the real UDSClient's matcher (C03); the retry loop, busyRepeatRequest and the ResponsePending loop on top of it are modelled (clientEcu) and tied at the level of single transmissions",
    "max_retry per call site is given to the model as a function of the request bytes (svcRetry / idRetry); hook requests that coincide with a probe PDU are not generated",
    "wait_for_ecu's 10 s limit is modelled in half seconds (sleep 0.5 s, ping timeout 0.5 s; boundary ties go to the cancellation, as asyncio does); a ping that is answered with ResponsePending frames followed by silence is not generated",
    "set_session_pre / set_session_post hooks of OEM subclasses are represented by the list of requests they send (send_raw, reply ignored, client exceptions propagate); the base-class hooks send nothing",
    "connection loss (ConnectionError) during a scan is outside (C08)",
    "free-form positive answers to probes (response id only / a record not repeating the probe) are given to services outside the ISO services whose positive response has mandatory structured parameters; a positive reply that violates such a layout (MalformedResponse in the client) is not generated",
]

NEG_MEANINGFUL = [0x22, 0x33, 0x31, 0x12, 0x7E, 0x10, 0x24, 0x72]
SNS, SNSIAS, IMLOIF = 0x11, 0x7F, 0x13
# ISO 14229 services an ECU typically implements (besides 0x10 / 0x11 / 0x3E, which every table ECU has): table ECUs draw from these on top of
# arbitrary service ids
ISO_SIDS = [0x14, 0x19, 0x22, 0x23, 0x24, 0x27, 0x28, 0x2A, 0x2C, 0x2E, 0x2F, 0x31, 0x34, 0x35, 0x36, 0x37, 0x38, 0x3D, 0x83, 0x84, 0x85, 0x86, 0x87]
# ISO services whose positive response has mandatory, structured parameters (a positive reply to an all-zero probe would have to follow that
# layout): only services outside this set get the free-form positive kinds "pos-bare" (response id only, as ReadDataByPeriodicIdentifier's
# `6A`) and "pos-rec" (a record that does not repeat the probe's bytes, e.g. data of another identifier)
STRUCTURED_POS = {0x10, 0x11, 0x14, 0x19, 0x22, 0x23, 0x27, 0x28, 0x2C, 0x2E, 0x2F, 0x31, 0x34, 0x35, 0x36, 0x37, 0x3D, 0x3E, 0x3F, 0x85}
HOOK_PDUS = [b"\x85\x02", b"\x85\x01", b"\x28\x01\x01", b"\x28\x00\x01", b"\x31\x01\xff\x00\x01"]


class TableEcu:
    """session-determined ECU: answers depend on (current session, pdu) only; ISO default rule for unsupported services.
    Optional behaviour on top (all off by default): silent session drops (after `drop_after` requests in a non-default
    session / after a request of a service id in `drop_sids`), refused re-entry after a drop, ResponsePending frames in
    front of replies, busyRepeatRequest, reset variants and a boot phase after a reset during which pings get no / an
    unparsable answer.  Every request is logged with the session it was received in."""

    def __init__(self, rng, wild=False, n_sessions=None, flat=False):
        self.rng = rng
        self.wild = wild
        k = n_sessions if n_sessions is not None else rng.randint(0, 3)
        self.sessions = [1] + sorted(rng.sample(range(2, 0x7F), k))
        if flat:
            self.trans = {s: set(self.sessions) for s in self.sessions}
        else:
            self.trans = {s: {1} | {t for t in self.sessions if rng.random() < 0.6} for s in self.sessions}
        self.flat = flat
        self.svc = {}
        for s in self.sessions:
            d = {}
            for sid in rng.sample(range(256), rng.randint(0, 24)) + rng.sample(ISO_SIDS, rng.randint(0, 6)):
                if sid in (0x10, 0x11, 0x3E, 0x7F) or sid in d:
                    continue
                minlen = rng.choice([1, 1, 2, 3, 5, 6])
                if 0x80 <= sid <= 0xBE and rng.random() < 0.5:
                    kind = "pos"
                elif not (sid & 0x40) and sid not in STRUCTURED_POS and rng.random() < 0.4:
                    # answers the (malformed, all-zero) probe positively without repeating its bytes
                    kind = rng.choice(["pos-bare", "pos-rec"])
                else:
                    kind = rng.choice(NEG_MEANINGFUL)
                d[sid] = (minlen, kind, rng.random() < 0.15)  # third: silent on the first probe
            self.svc[s] = d
        self.f186 = rng.choice(["ok", "ok", "ok", "nrc31", "nrc11", "nrc7f", "nrc12", "nrc7e", "silent", "stuck1"])
        self.ids = {s: {(rng.randrange(0, 48), sf): rng.choice(["pos", "pos", 0x33, 0x22, 0x31, 0x12, 0x11, None, "illegal"])
                        for sf in (0, 1, 2, 3) for _ in range(rng.randint(0, 14))} for s in self.sessions}
        self.session = 1
        self.consec_silent = 0
        # behaviour switches
        self.drop_after = None
        self.drop_sids = set()
        self.refuse = 0            # how many re-entry attempts into a dropped session are refused (10**9 = always)
        self.dropped = set()
        self.since = 0
        self.pending = 0.0         # probability that a reply is preceded by ResponsePending frames
        self.pending_ks = [1, 1, 2, 5]
        self.busy = 0.0            # probability of busyRepeatRequest instead of the reply
        self.busy_sids = set()     # implemented services that answer every probe with busyRepeatRequest (a busy, but present, service)
        self.reset_mode = "ok"     # ok | neg | silent | garbage | stay
        self.reset_levels = {1}
        self.boot = []             # what the ECU does with the first requests after a positive reset: 't' deaf | 'i' garbage
        self.booting = []
        self.fake_reentry = False  # a refused re-entry is answered positively although the session is not entered
        self.f186_then = None      # (n, mode): after n answered read-backs the read-back behaves like `mode`
        self.f186_nondefault = None  # read-back behaviour outside the default session (None: as in the default session)
        self.f186_unreadable = {}    # session -> NRC: sessions in which the session identifier cannot be read (support differs per session)
        self.readbacks = 0
        self.log = []              # (session at receipt, pdu, final reply)
        self.silent_pings = 0

    def stable(self):
        return self.drop_after is None and not self.drop_sids

    def supports(self, session, sid):
        if sid in (0x10, 0x11, 0x3E):
            return True
        return sid in self.svc.get(session, {})

    # ground truth for one request in the current session -------------------------------------------
    def answer(self, pdu):
        sid = pdu[0]
        s = self.session
        if sid == 0x10 and len(pdu) == 2:
            t = pdu[1] & 0x7F
            if t in self.trans.get(s, ()) and t in self.sessions:
                if t in self.dropped and self.refuse > 0:
                    self.refuse -= 1
                    if self.fake_reentry:
                        return bytes([0x50, t, 0x00, 0x32, 0x01, 0xF4])
                    return bytes([0x7F, 0x10, 0x22])
                self.session = t
                self.since = 0
                self.dropped.discard(t)
                return bytes([0x50, t, 0x00, 0x32, 0x01, 0xF4])
            return bytes([0x7F, 0x10, 0x12])
        if sid == 0x11 and len(pdu) == 2:
            if pdu[1] in self.reset_levels:
                if self.reset_mode == "neg":
                    return bytes([0x7F, 0x11, 0x22])
                if self.reset_mode == "silent":
                    self.session = 1
                    return None
                if self.reset_mode == "garbage":
                    return bytes([0x7F, 0x12, 0x31])
                if self.reset_mode != "stay":
                    self.session = 1
                    self.dropped.clear()
                self.booting = list(self.boot)
                return bytes([0x51, pdu[1]])
            return bytes([0x7F, 0x11, 0x12])
        if sid in (0x10, 0x11):
            return bytes([0x7F, sid, 0x13 if len(pdu) != 2 else 0x12])
        if sid == 0x3E:
            return bytes([0x7E, 0x00]) if pdu == b"\x3e\x00" else bytes([0x7F, 0x3E, 0x13])
        if pdu == b"\x22\xf1\x86":
            self.readbacks += 1
            if self.f186_then is not None and self.readbacks > self.f186_then[0]:
                self.f186 = self.f186_then[1]
            if s in self.f186_unreadable:
                return bytes([0x7F, 0x22, self.f186_unreadable[s]])
            mode = self.f186_nondefault if (s != 1 and self.f186_nondefault) else self.f186
            if mode == "garbage":
                return bytes([0x7F, 0x23, 0x31])
            if mode == "nrc22":
                return bytes([0x7F, 0x22, 0x22])
            if mode == "silent":
                return None
            if mode == "nrc31":
                return bytes([0x7F, 0x22, 0x31])
        if pdu == b"\x22\xf1\x86" and self.supports(s, 0x22) or pdu == b"\x22\xf1\x86" and self.f186 != "nrc11":
            if self.f186 == "ok":
                return bytes([0x62, 0xF1, 0x86, s])
            if self.f186 == "stuck1":
                return bytes([0x62, 0xF1, 0x86, 1])
            if self.f186 in ("nrc31", "nrc7f", "nrc12", "nrc7e"):
                return bytes([0x7F, 0x22, int(self.f186[3:], 16)])
            if self.f186 == "silent":
                return None
        if pdu == b"\x22\xf1\x86" and self.f186 == "nrc11":
            return bytes([0x7F, 0x22, 0x11])
        return self._svc_answer(pdu)

    def _svc_answer(self, pdu):
        sid = pdu[0]
        s = self.session
        ent = self.svc.get(s, {}).get(sid)
        if ent is None:
            other = any(sid in d for d in self.svc.values())
            return bytes([0x7F, sid, SNSIAS if other else SNS])
        minlen, kind, silent_first = ent
        # identifier table takes precedence for the identifier scans
        key = None
        if sid in (0x22, 0x2E) and len(pdu) >= 3:
            key = ((pdu[1] << 8) | pdu[2], 0)
        elif sid == 0x31 and len(pdu) >= 4:
            key = ((pdu[2] << 8) | pdu[3], pdu[1])
        elif sid == 0x27 and len(pdu) >= 2:
            key = (pdu[1], 0)
        if key is not None and any(b != 0 for b in pdu[1:]):
            a = self.ids[s].get(key, 0x31)
            if a == "pos":
                if sid == 0x22:
                    return bytes([0x62, pdu[1], pdu[2], 0xAA])
                if sid == 0x2E:
                    return bytes([0x6E, pdu[1], pdu[2]])
                if sid == 0x31:
                    return bytes([0x71, pdu[1], pdu[2], pdu[3]])
                if sid == 0x27:
                    return bytes([0x67, pdu[1], 0xDE, 0xAD]) if pdu[1] % 2 == 1 else bytes([0x67, pdu[1]])
            if a == "illegal":
                return bytes([0x7F, (sid + 1) & 0xFF, 0x31])
            if a is None:
                return None
            return bytes([0x7F, sid, a])
        n = len(pdu) - 1
        if n < minlen:
            if silent_first and n == 1:
                return None
            return bytes([0x7F, sid, IMLOIF])
        if kind == "pos":
            return bytes([sid + 0x40, 0x00])
        if kind == "pos-bare":
            return bytes([sid + 0x40])
        if kind == "pos-rec":
            return bytes([sid + 0x40, 0xF1, 0x90, 0x01])
        return bytes([0x7F, sid, kind])

    def _respond(self, pdu):
        if self.wild:
            r = self.rng.random()
            if r < 0.06 and self.consec_silent < 3:
                self.consec_silent += 1
                return None
            self.consec_silent = 0
            if r < 0.10:
                return bytes([0x7F, (pdu[0] + 1) & 0xFF, 0x31])  # foreign negative reply -> mismatch
            if r < 0.16:
                return bytes([0x7F, pdu[0], self.rng.choice([0x11, 0x7F, 0x13, 0x22, 0x31, 0x12, 0x33])])
        if self.busy and self.rng.random() < self.busy:
            return bytes([0x7F, pdu[0], 0x21])
        if pdu[0] in self.busy_sids and pdu[0] not in (0x10, 0x11, 0x22, 0x3E) and pdu[0] in self.svc.get(self.session, {}):
            return bytes([0x7F, pdu[0], 0x21])
        return self.answer(pdu)

    def __call__(self, pdu):
        before = self.session
        if self.booting:
            a = self.booting.pop(0)
            r = None if a == "t" else bytes([0x7F, (pdu[0] + 1) & 0xFF, 0x31])
            self.log.append((before, pdu, r))
            return r
        r = self._respond(pdu)
        self.log.append((before, pdu, r))
        if pdu == b"\x3e\x00":
            self.silent_pings = self.silent_pings + 1 if r is None else 0
        # silent session drops (take effect after the reply)
        if self.session != 1 and not (pdu[0] == 0x10 and len(pdu) == 2):
            drop = pdu[0] in self.drop_sids
            if self.drop_after is not None:
                self.since += 1
                drop = drop or self.since >= self.drop_after
            if drop:
                self.dropped.add(self.session)
                self.session = 1
                self.since = 0
        if self.pending and self.rng.random() < self.pending and not (pdu == b"\x3e\x00" and r is None):
            k = self.rng.choice(self.pending_ks)
            return [bytes([0x7F, pdu[0], 0x78])] * k + [r]
        return r


def _r1(txt):
    out = []
    if txt.strip() == "":
        return out   # `S:` - nothing is named
    for part in txt.split(","):
        if "-" in part:
            a, b = part.split("-")
            out += range(int(a, 0), int(b, 0) + 1)
        else:
            out.append(int(part, 0))
    return out


def _oracle_2d(tokens):
    """what a --skip expression denotes (the property's reading, written independently of gallia's parser): per outer key
    the union of the inner numbers / inclusive ranges (`S:` names nothing: an empty list, unless other entries add to it); a bare outer key
    means everything and overrides, wherever it stands"""
    res = {}
    for t in tokens:
        outer, sep, inner = t.partition(":")
        for k in _r1(outer):
            if not sep:
                res[k] = None
            elif k in res and res[k] is None:
                pass
            else:
                res.setdefault(k, set()).update(_r1(inner))
    return {k: (None if v is None else sorted(v)) for k, v in sorted(res.items())}


def _skip_tokens(rng, skip):
    """render a skip map as the CLI tokens a user could write for it: several spellings, split and overlapping entries,
    bare keys before / after specific entries for the same key, ranges of keys; then shuffled"""
    def num(n):
        return rng.choice([str(n), hex(n), "0x%02X" % n])

    def ids(v):
        v = sorted(v)
        parts, i = [], 0
        while i < len(v):
            j = i
            while j + 1 < len(v) and v[j + 1] == v[j] + 1:
                j += 1
            if j > i and rng.random() < 0.8:
                parts.append(f"{num(v[i])}-{num(v[j])}")
            else:
                parts += [num(x) for x in v[i:j + 1]]
            i = j + 1
        return ",".join(parts)

    toks = []
    for k, v in skip.items():
        if v is None:
            toks.append(num(k))
            if rng.random() < 0.5:  # a redundant specific entry for a key that is skipped as a whole
                toks.append(f"{num(k)}:{num(rng.randrange(256))}")
            if rng.random() < 0.2:
                toks.append(f"{num(k)}-{num(k)}:{num(rng.randrange(256))}-{num(255)}")
            if rng.random() < 0.15:
                toks.append(f"{num(k)}:")  # names nothing; the bare key still overrides
        elif v:
            cut = rng.randrange(len(v) + 1)
            for part in (v[:cut], v[cut:]):
                if part:
                    toks.append(f"{num(k)}:{ids(part)}")
            if rng.random() < 0.3:
                toks.append(f"{num(k)}:{ids(rng.sample(v, 1))}")  # repeated
            if rng.random() < 0.15:
                toks.append(f"{num(k)}:")  # an entry that names nothing next to entries that do
        else:
            toks.append(f"{num(k)}:")      # the session is named, with nothing to leave out
            if rng.random() < 0.2:
                toks.append(f"{num(k)}-{num(k)}:")
    rng.shuffle(toks)
    return toks


def _fmt_skip(skip):
    if not skip:
        return "-"
    return ";".join(f"{k}:" + ("*" if v is None else ",".join(map(str, v))) for k, v in skip.items())


def _fmt_sessions(s):
    if s is None:
        return "none"
    return ",".join(map(str, s)) if s else "-"


def _fmt_hooks(hooks):
    if not hooks:
        return "-"
    def hl(v):
        return ",".join(p.hex() for p in v) if v else "-"
    return ";".join(f"{k}/{hl(pre)}/{hl(post)}" for k, (pre, post) in sorted(hooks.items()))


def _mk_ecu_class():
    from gallia.services.uds.ecu import ECU

    class HookedECU(ECU):
        """an OEM subclass whose session hooks send requests (reply ignored, client exceptions propagate)"""
        hook_table = {}

        async def set_session_pre(self, level, config=None):
            for p in self.hook_table.get(level, ((), ()))[0]:
                await self.send_raw(p)
            return True

        async def set_session_post(self, level, config=None):
            for p in self.hook_table.get(level, ((), ()))[1]:
                await self.send_raw(p)
            return True

    return HookedECU


_ABORT_RE = re.compile(r"Aborting scan on session (0x[0-9a-fA-F]+|\d+); current SID was (0x[0-9a-fA-F]+|\d+)")


def _run_scanner(cls, cfg, ecufn, hooks=None, max_retry=3):
    """returns dict(outcome, scanner, exchanges, wire, tokens, problems, aborts)"""
    from lib.wireecu import WireTransport, record_wire, wire_tokens
    import gallia.commands.scan.uds.services as svcmod

    sc = cls(cfg)
    t = WireTransport(ecufn)
    ecu_cls = _mk_ecu_class()
    sc.ecu = ecu_cls(t, timeout=2, max_retry=max_retry)
    sc.ecu.hook_table = hooks or {}
    exchanges = record_wire(sc.ecu, t)
    aborts = []
    old_error = svcmod.logger.error

    def on_error(msg, *a, **k):
        m = _ABORT_RE.search(str(msg))
        if m:
            aborts.append((int(m.group(1), 0), int(m.group(2), 0)))

    svcmod.logger.error = on_error

    async def main():
        try:
            await sc.main()
            return "exit0"
        except SystemExit as e:
            return f"exit{e.code}"
        except (asyncio.TimeoutError, TimeoutError):
            return "raised MissingResponse"
        except Exception as e:
            from gallia.services.uds.core.exception import IllegalResponse, UnexpectedNegativeResponse
            if isinstance(e, IllegalResponse):
                return "raised IllegalResponse"
            if isinstance(e, UnexpectedNegativeResponse):
                return "raised UnexpectedNegativeResponse"
            return "raised " + type(e).__name__

    try:
        outcome, _vt = vrun(main(), horizon=1e7)
    except Stall:
        outcome = "stall"
    finally:
        svcmod.logger.error = old_error
    toks, problems = wire_tokens(exchanges, t)
    return {"outcome": outcome, "scanner": sc, "exchanges": exchanges, "wire": t.wire, "tokens": toks, "problems": problems,
            "aborts": aborts, "trace": [(ex["pdu"], ex["tok"]) for ex in exchanges]}


def _tokens(r):
    return " ".join(r["tokens"])


def _reqs(wire):
    return ",".join(p.hex() for p in wire) if wire else "-"


def _behaviour(rng, ecu, mode):
    """switch on one of the behaviours on top of the table; returns its label"""
    if mode == "plain":
        return "plain"
    if mode == "drop-sid":
        cand = [sid for d in ecu.svc.values() for sid in d] + [rng.randrange(256) for _ in range(3)]
        ecu.drop_sids = set(rng.sample(cand, min(len(cand), rng.randint(1, 3))))
        if rng.random() < 0.2:
            ecu.f186_then = (rng.randint(1, 6), rng.choice(["silent", "nrc31", "nrc22", "garbage"]))
        return "drop-sid"
    if mode == "drop-count":
        ecu.drop_after = rng.choice([1, 2, 3, 7, 20, 60, 150, 400])
        return "drop-count"
    if mode == "refuse":
        if rng.random() < 0.6:
            cand = [sid for d in ecu.svc.values() for sid in d] + [rng.randrange(256) for _ in range(3)]
            ecu.drop_sids = set(rng.sample(cand, min(len(cand), rng.randint(1, 2))))
        else:
            ecu.drop_after = rng.choice([1, 5, 30, 200])
        ecu.refuse = rng.choice([1, 2, 3, 4, 5, 10 ** 9, 10 ** 9])
        ecu.fake_reentry = rng.random() < 0.3
        if rng.random() < 0.3:
            ecu.f186_then = (rng.randint(1, 6), rng.choice(["silent", "nrc31", "nrc22", "garbage", "stuck1"]))
        return "refuse"
    if mode == "pending":
        ecu.pending = rng.choice([0.05, 0.3, 1.0])
        if rng.random() < 0.25:
            ecu.pending_ks = [1, 2, 118, 119, 120, 121]
            ecu.pending = 0.02
        return "pending"
    if mode == "busy":
        ecu.busy = rng.choice([0.02, 0.1, 0.4])
        if rng.random() < 0.5:
            ecu.pending = rng.choice([0.2, 0.6])   # busyRepeatRequest behind ResponsePending frames is returned, not retried
        return "busy"
    raise ValueError(mode)


def _reset_setup(rng, ecu):
    """reset level and the ECU's reset / boot behaviour"""
    level = rng.choice([1, 1, 1, 2, 3, 0x40])
    ecu.reset_levels = {1, level} if rng.random() < 0.85 else {1}
    ecu.reset_mode = rng.choice(["ok", "ok", "ok", "ok", "neg", "silent", "garbage", "stay"])
    short = [[], [], ["t"], ["t"] * 3, ["i"] * 2, ["t", "i"] * 3, ["t"] * 9, ["i"] * 18, ["t"] * 8 + ["i"] * 2, ["i", "t"] * 6]
    long = [["t"] * 10, ["t"] * 12, ["i"] * 19, ["i"] * 25, ["t"] * 8 + ["i"] * 3, ["i", "t"] * 8]
    ecu.boot = rng.choice(short + (long if ecu.wild else []))
    return level


def _hooks_setup(rng, levels):
    hooks = {}
    for lv in levels:
        if rng.random() < 0.6:
            hooks[lv] = (tuple(rng.sample(HOOK_PDUS, rng.randint(0, 2))), tuple(rng.sample(HOOK_PDUS, rng.randint(0, 2))))
    return {k: v for k, v in hooks.items() if v[0] or v[1]}


# ------------------------------------------------------------------------------------------------- self-contained case records
# Every finding's `case` carries, next to the one-line configuration head, a record from which the ECU and the scanner run are rebuilt
# deterministically by `replay`: the seed and constructor arguments of the table ECU generator plus every behaviour switch / table entry that
# differs from the freshly generated ECU (or the seed of the RandomUDSServer), and the scanner configuration incl. the client's max_retry.

class Head(str):
    """the configuration head (a str) with the record of its case attached"""
    rec = None


def _rec(head):
    r = getattr(head, "rec", None)
    return {"replay": r} if r is not None else {}


_SWITCHES = ["f186", "drop_after", "drop_sids", "refuse", "fake_reentry", "pending", "pending_ks", "busy", "busy_sids", "reset_mode", "reset_levels",
             "boot", "f186_then", "f186_nondefault", "f186_unreadable"]


def _mk_table(seed, wild, flat, n_sessions):
    import random as _random
    ecu = TableEcu(_random.Random(seed), wild=wild, flat=flat, n_sessions=n_sessions)
    ecu.gen = {"seed": seed, "wild": wild, "flat": flat, "n_sessions": n_sessions}
    return ecu


def _jsonable(v):
    if isinstance(v, (set, frozenset)):
        return sorted(v)
    if isinstance(v, dict):
        return {str(k): _jsonable(x) for k, x in v.items()}
    if isinstance(v, (tuple, list)):
        return [_jsonable(x) for x in v]
    if isinstance(v, bytes):
        return v.hex()
    return v


def _ecu_desc(ecu):
    """what `_ecu_from_desc` needs to rebuild this ECU as it is now (taken before the run: the run itself changes refuse / f186 / session)"""
    if not isinstance(ecu, TableEcu):
        return {"kind": "RandomUDSServer", "seed": ecu.seed}
    g = ecu.gen
    fresh = _mk_table(g["seed"], g["wild"], g["flat"], g["n_sessions"])
    sw = {a: _jsonable(getattr(ecu, a)) for a in _SWITCHES if getattr(ecu, a) != getattr(fresh, a)}
    svc = {}
    for s_, d in ecu.svc.items():
        diff = {str(sid): list(ent) for sid, ent in d.items() if fresh.svc.get(s_, {}).get(sid) != ent}
        if diff:
            svc[str(s_)] = diff
    return {"kind": "table", **g, "set": sw, "svc_set": svc}


def _ecu_from_desc(d):
    """-> (ecufn for the wire transport, TableEcu | None, RandomUDSServer | None)"""
    if d["kind"] == "RandomUDSServer":
        srv, fn = _random_server_seeded(d["seed"])
        return fn, None, srv
    ecu = _mk_table(d["seed"], d["wild"], d["flat"], d["n_sessions"])
    for a, v in d.get("set", {}).items():
        if a in ("drop_sids", "busy_sids", "reset_levels"):
            v = set(v)
        elif a == "f186_unreadable":
            v = {int(k): x for k, x in v.items()}
        elif a == "f186_then" and v is not None:
            v = tuple(v)
        setattr(ecu, a, v)
    for s_, ents in d.get("svc_set", {}).items():
        for sid, ent in ents.items():
            ecu.svc[int(s_)][int(sid)] = tuple(ent)
    return ecu, ecu, None


def _describe_ecu(d):
    if d["kind"] == "RandomUDSServer":
        return f"the real RandomUDSServer(seed {d['seed']}) behind UDSServerTransport.handle_request"
    sw = ", ".join(f"{k}={v}" for k, v in d.get("set", {}).items()) or "none"
    return (f"table ECU generated from seed {d['seed']} (wild={d['wild']}, flat={d['flat']}, n_sessions={d['n_sessions']}); behaviour switches: {sw}"
            + (f"; service table entries set: {d['svc_set']}" if d.get("svc_set") else ""))


def _skip_from_json(v):
    if isinstance(v, dict):
        return {int(k): x for k, x in v.items()}
    return v


def _hooks_from_json(h):
    return {int(k): (tuple(bytes.fromhex(x) for x in v[0]), tuple(bytes.fromhex(x) for x in v[1])) for k, v in (h or {}).items()}


def _svc_head(P):
    return (f"svc {_fmt_sessions(P['sessions'])} {int(P['check'])} {int(P['rid'])} {_fmt_skip(P['skip'])} "
            f"{P['reset'] if P['reset'] is not None else 'none'} {_fmt_hooks(P['hooks'])}")


def _run_svc(ecu, P):
    """one service scan: P = sessions, skip (what the skip expression denotes), skip_arg (what is handed to the config: None = the map itself, or
    CLI tokens), check, rid, reset, hooks, max_retry, label -> (run, head with the case record attached, impl summary)"""
    from gallia.commands.scan.uds.services import ServicesScanner, ServicesScannerConfig
    rec = {"scanner": "svc", **{k: _jsonable(P[k]) for k in ("sessions", "skip", "skip_arg", "check", "rid", "reset", "hooks", "max_retry", "label")},
           "ecu": _ecu_desc(ecu)}
    cfg = ServicesScannerConfig(target="tcp-lines://127.0.0.1:1", sessions=P["sessions"], skip=P["skip"] if P["skip_arg"] is None else P["skip_arg"],
                                check_session=P["check"], scan_response_ids=P["rid"], reset=P["reset"], db=None)
    r = _run_scanner(ServicesScanner, cfg, ecu, hooks=P["hooks"], max_retry=P["max_retry"])
    head = Head(_svc_head(P))
    head.rec = rec
    return r, head, _svc_summary(r)


def _id_head(P):
    return (f"id {_fmt_sessions(P['sessions'])} {P['start']} {P['end']} {P['payload'].hex() if P['payload'] else '-'} {P['service']} "
            f"{P['check'] if P['check'] is not None else 'none'} {_fmt_skip(P['skip'])} {int(P['sns'])} {P['max_retry']} {_fmt_hooks(P['hooks'])}")


def _run_id(ecu, P):
    """one identifier scan: P = sessions, start, end, payload, service, check, skip, skip_arg, sns, max_retry, hooks, label
    -> (run, head with the case record attached, counts, impl summary)"""
    import gallia.commands.scan.uds.identifiers as idmod
    from gallia.commands.scan.uds.identifiers import ScanIdentifiers, ScanIdentifiersConfig
    from gallia.services.uds.core.constants import UDSIsoServices
    rec = {"scanner": "id", **{k: _jsonable(P[k]) for k in ("sessions", "start", "end", "payload", "service", "check", "skip", "skip_arg", "sns",
                                                            "max_retry", "hooks", "label")}, "ecu": _ecu_desc(ecu)}
    captured = []
    idmod.logger.result = lambda msg, *a, **k: captured.append(str(msg))
    idmod.logger.notice = lambda *a, **k: None
    cfg = ScanIdentifiersConfig(target="tcp-lines://127.0.0.1:1", sessions=P["sessions"], start=P["start"], end=P["end"],
                                payload=P["payload"], service=UDSIsoServices(P["service"]), check_session=P["check"], skip=P["skip_arg"],
                                skip_not_supported=P["sns"], db=None, power_cycle_sleep=0)
    r = _run_scanner(ScanIdentifiers, cfg, ecu, hooks=P["hooks"], max_retry=P["max_retry"])
    head = Head(_id_head(P))
    head.rec = rec
    counts = _parse_counts(captured)
    return r, head, counts, _id_summary(r, counts)


def _compare_model(ctx, cases):
    """cases: (driver line, impl summary, info) -> canonical model outputs; differences recorded as tie-level findings"""
    out = ctx.lean([c[0] for c in cases])
    res = []
    for (line, impl, info), mo in zip(cases, out):
        mo_c = _canon_model(mo)
        res.append(mo_c)
        if mo_c != impl:
            kind = info["kind"]
            what = _first_diff(impl, mo_c)
            ctx.disagree(f"{kind}:model-vs-code:{what}", f"{kind} scan: model and implementation differ ({what}) on ECU kind {info['ecu']}",
                         {"line": line[:4000], "info": info}, impl=impl[:3000], model=mo_c[:3000], spec_violated=False,
                         site="ServicesScanner.main" if kind == "svc" else "ScanIdentifiers.main")
    return res


def run(ctx):
    setup_repo_import()
    import gallia.command  # noqa: F401  (import order)
    import gallia.commands.scan.uds.identifiers as idmod
    from gallia.commands.scan.uds.identifiers import ScanIdentifiers, ScanIdentifiersConfig
    from gallia.commands.scan.uds.services import ServicesScanner, ServicesScannerConfig
    from gallia.services.uds.core.constants import UDSIsoServices
    import random as _random

    rng = ctx.rng
    ctx.rule = ("one case = (scanner kind, configuration, ECU); ECUs: random session-determined table ECUs obeying the ISO "
                "default rule (spec verdict from their ground truth), optionally with silent session drops / refused re-entry / "
                "ResponsePending / busyRepeatRequest / reset and boot variants, 'wild' table ECUs with injected silence / foreign / "
                "not-supported replies (model-vs-code only) and the real RandomUDSServer; distinct = distinct (config, "
                "per-transmission answer script); non-trivial = at least one service/identifier found or one session skipped/aborted")
    cases = []  # (line for lean, impl summary string, info)

    def svc_case(ecu, sessions, skip, check, rid, reset, hooks, label, skip_arg=None):
        P = {"sessions": sessions, "skip": skip, "skip_arg": skip_arg, "check": check, "rid": rid, "reset": reset, "hooks": hooks,
             "max_retry": rng.choice([0, 1, 3]), "label": label}
        r, head, impl = _run_svc(ecu, P)
        ctx.ev()
        for p in r["problems"]:
            ctx.disagree("svc:wire-accounting", "transmissions and exchanges of the real client do not line up: " + p,
                         {**_rec(head), "cfg": head}, impl=p, spec_violated=False, site="UDSClient.request_unsafe")
        cases.append((head + " | " + _tokens(r), impl, {"kind": "svc", "cfg": head, "ecu": label, "trace_len": len(r["wire"]), **_rec(head)}))
        ctx.nontrivial((head, _tokens(r)))
        return r, head, impl

    # ------------------------------------------------------------------ service scan
    n_svc = ctx.pick(260, 1500)
    modes = ["plain", "plain", "plain", "drop-sid", "drop-sid", "drop-count", "refuse", "refuse", "pending", "busy"]
    n_forced = ctx.pick(42, 140)
    for i in range(n_svc):
        # the first cases force the combinations in which the session check / the reset path have work to do
        forced = i % 7 if i < n_forced else None
        wild = rng.random() < 0.25 and forced is None
        ecu_seed = rng.randrange(1 << 60)
        flat = rng.random() < 0.4 or forced is not None
        n_sess = None if forced is None else rng.randint(2, 3)
        ecu = _mk_table(ecu_seed, wild, flat, n_sess)
        use_sessions = rng.random() < 0.8 or forced is not None
        sessions = None
        if use_sessions:
            pool = ecu.sessions + rng.sample(range(2, 0x7F), 2)
            sessions = sorted(set(rng.sample(pool, rng.randint(1, min(4, len(pool))))))
            if forced is not None:
                sessions = sorted(set(sessions) | set(ecu.sessions[1:]))
            if rng.random() < 0.3:
                rng.shuffle(sessions)
        skip = {}
        if use_sessions and rng.random() < 0.6 and forced is None:
            for s in rng.sample(sessions, rng.randint(1, len(sessions))):
                x = rng.random()
                if x < 0.25:
                    skip[s] = None
                elif x < 0.45:
                    skip[s] = []   # the session is named with an empty id list (`S:`): nothing is to be left out
                    ctx.kind("skip:session-with-empty-list")
                else:
                    lo = rng.randrange(0, 250)
                    cand = list(range(lo, min(256, lo + rng.randint(1, 40)))) + list(ecu.svc.get(s, {}).keys())[:2]
                    skip[s] = sorted(set(cand))
        if rng.random() < 0.15:
            skip[rng.randrange(1, 0x7F)] = rng.choice([[1, 2, 3], [1, 2, 3], []])  # entry for a session that is not scanned
        check = use_sessions and rng.random() < 0.55
        rid = rng.random() < 0.3
        reset = None
        if use_sessions and rng.random() < 0.45:
            reset = _reset_setup(rng, ecu)
        hooks = _hooks_setup(rng, sessions) if use_sessions and rng.random() < 0.3 else {}
        mode = rng.choice(modes) if use_sessions else rng.choice(["plain", "pending", "busy"])
        if mode == "busy" and not wild:
            mode = "plain"   # busyRepeatRequest to a probe is not an ISO-default answer: wild ECUs only
        if mode in ("drop-sid", "drop-count", "refuse") and ecu.f186 != "ok" and rng.random() < 0.7:
            ecu.f186 = "ok"   # give the session check something to read
        if forced is not None:
            ecu.f186 = "ok"
            check = forced in (0, 1, 2, 5, 6)
            mode = ["refuse", "drop-sid", "refuse", "plain", "plain", "pending", "drop-sid"][forced]
            if forced in (3, 4):
                reset = rng.choice([1, 2])
                ecu.reset_levels = {1, 2}
                ecu.reset_mode = "ok" if forced == 3 else rng.choice(["silent", "neg"])
                ecu.boot = rng.choice([["t"], ["t"] * 3, ["i"] * 2, ["t", "i"]]) if forced == 3 else []
        label = _behaviour(rng, ecu, mode)
        if check and sessions is not None and mode in ("drop-sid", "drop-count") and ecu.f186 == "ok" and rng.random() < 0.5:
            # the session identifier is readable in some sessions only: a check that cannot read it in one session says nothing about the next
            nd = [x for x in ecu.sessions if x != 1]
            if len(nd) >= 2:
                for x in rng.sample(nd, rng.randint(1, len(nd) - 1)):
                    ecu.f186_unreadable[x] = rng.choice([0x31, 0x11, 0x7F, 0x12])
                ctx.kind("svc:ecu-session-identifier-readable-in-some-sessions-only")
        if rng.random() < 0.3:
            # one to three implemented services are busy for the whole scan: still answers that are neither not-supported nor length errors
            impl = sorted({sid for d in ecu.svc.values() for sid in d})
            if impl:
                ecu.busy_sids = set(rng.sample(impl, min(len(impl), rng.randint(1, 3))))
                ctx.kind("svc:ecu-with-always-busy-services")
        if any(ent[1] in ("pos-bare", "pos-rec") for d in ecu.svc.values() for ent in d.values()):
            ctx.kind("svc:ecu-with-services-answering-probes-positively-without-echo")
        if forced == 6:
            # the read-back works in the default session only: the exception paths inside the re-entry loop
            ecu.f186_nondefault = rng.choice(["silent", "nrc31", "nrc22", "garbage"])
        if forced in (0, 1, 2, 6):
            # the session is lost early, by a probe: low service ids as triggers, no request counter
            ecu.drop_after = None
            ecu.drop_sids = set(rng.sample(range(0x00, 0x20), rng.randint(1, 2)))
            if forced == 0:
                ecu.refuse, ecu.fake_reentry = rng.choice([3, 40, 10 ** 9, 10 ** 9]), True
            if forced == 2:
                ecu.refuse, ecu.fake_reentry = rng.choice([4, 5, 10 ** 9]), False
        skip_arg = None
        if skip and rng.random() < 0.7:
            # as on the command line: text through the real Ranges2D field type; what it denotes is the oracle's map
            skip_arg = _skip_tokens(rng, skip)
            skip = _oracle_2d(skip_arg)
            ctx.kind("skip:as-text")
        r, head, impl = svc_case(ecu, sessions, skip, check, rid, reset, hooks, ("wild" if wild else "table") + ":" + label, skip_arg)
        sc = r["scanner"]
        ctx.kind("svc:" + ("wild" if wild else "conformant") + ":" + label + (":sessions" if use_sessions else ":current")
                 + (":check" if check else "") + (":reset" if reset is not None else "") + (":hooks" if hooks else ""))
        if r["outcome"].startswith("raised"):
            ctx.kind("svc:outcome:" + r["outcome"].split()[1])
        if r["aborts"]:
            ctx.kind("svc:session-check-failed")
        inert_run = _svc_verdicts(ctx, ecu, sessions, skip, check, rid, reset, hooks, wild, label, r, head)
        # --- metamorphic pairs on conformant, stable ECUs ---
        if inert_run and use_sessions and r["outcome"] in ("exit0", "exit1") and i % 3 == 0:
            def twin():
                e2 = _mk_table(ecu_seed, False, flat, n_sess)
                e2.f186 = ecu.f186
                e2.busy_sids = set(ecu.busy_sids)
                e2.f186_unreadable = dict(ecu.f186_unreadable)
                return e2
            base = sorted(sc.result)
            if ecu.flat and label == "plain":
                # reset on/off: same reported set when every session can be entered from every session and reset is answered
                e2 = twin()
                lvl2 = None
                if reset is None:
                    lvl2 = 1
                    e2.reset_mode, e2.reset_levels, e2.boot = rng.choice(["ok", "neg", "silent"]), {1}, rng.choice([[], ["t"] * 2, ["i"]])
                r2, head2, _ = svc_case(e2, sessions, skip, check, rid, lvl2, hooks, "table:twin-reset", skip_arg)
                ctx.kind("svc:pair:reset-on/off")
                _pair_verdict(ctx, "reset", ecu.reset_mode, label, r, r2, head, head2)
            if ecu.f186 in ("ok", "nrc31", "nrc11", "nrc7f", "nrc12", "nrc7e", "silent"):
                # check-session on/off: a session-stable ECU with an honest (or unsupported) read-back gives the same result
                e2 = twin()
                e2.reset_mode, e2.reset_levels, e2.boot = ecu.reset_mode, set(ecu.reset_levels), list(ecu.boot)
                if label == "pending":
                    pass
                r2, head2, _ = svc_case(e2, sessions, skip, not check, rid, reset, hooks, "table:twin-check", skip_arg)
                ctx.kind("svc:pair:check-on/off")
                _pair_verdict(ctx, "check", ecu.reset_mode, label, r, r2, head, head2)
            if label == "plain":
                # ResponsePending in front of every reply changes nothing (fewer than MAX_N_PENDING frames)
                e2 = twin()
                e2.reset_mode, e2.reset_levels, e2.boot = ecu.reset_mode, set(ecu.reset_levels), list(ecu.boot)
                e2.pending, e2.pending_ks = 1.0, [1, 2, 3, 119]
                r2, head2, _ = svc_case(e2, sessions, skip, check, rid, reset, hooks, "table:twin-pending", skip_arg)
                ctx.kind("svc:pair:pending-on/off")
                _pair_verdict(ctx, "pending", ecu.reset_mode, label, r, r2, head, head2)
        if i < 2:
            ctx.sample({"case": head, "ecu_sessions": ecu.sessions, "result": sc.result, "outcome": r["outcome"],
                        "transmissions": len(r["wire"])})

    # real RandomUDSServer as ECU
    for i in range(ctx.pick(24, 140)):
        srv, fn = _random_server(rng)
        sess_avail = sorted(srv.services.keys())
        sessions = sorted(set(rng.sample(sess_avail, rng.randint(1, min(3, len(sess_avail)))))) if rng.random() < 0.8 else None
        rid = rng.random() < 0.3
        check = sessions is not None and rng.random() < 0.5
        reset = rng.choice([None, 1, 1, 2]) if sessions is not None else None
        r, head, impl = svc_case(fn, sessions, {}, check, rid, reset, {}, "RandomUDSServer")
        ctx.kind("svc:RandomUDSServer" + (":check" if check else "") + (":reset" if reset is not None else ""))
        _svc_rs_verdicts(ctx, srv, sessions, rid, reset, r, head)

    # ------------------------------------------------------------------ identifier scan
    n_id = ctx.pick(360, 2000)
    id_modes = ["plain", "plain", "plain", "drop-count", "refuse", "pending", "busy", "drop-sid"]
    n_id_forced = ctx.pick(24, 80)
    for i in range(n_id):
        forced = i % 4 if i < n_id_forced else None   # combinations in which the session check has work to do
        wild = rng.random() < 0.3 and forced is None
        id_seed = rng.randrange(1 << 60)
        id_flat = rng.random() < 0.3 or forced is not None
        ecu = _mk_table(id_seed, wild, id_flat, None if forced is None else rng.randint(1, 3))
        service = rng.choice([0x22, 0x27, 0x2E, 0x31])
        # make the service available in most sessions so that something is counted
        for s in ecu.sessions:
            if rng.random() < 0.8:
                ecu.svc[s][service] = (1, 0x31, False)
        use_sessions = rng.random() < 0.7 or forced is not None
        sessions = None
        if use_sessions:
            pool = ecu.sessions + rng.sample(range(2, 0x7F), 1)
            sessions = sorted(set(rng.sample(pool, rng.randint(1, min(3, len(pool))))))
            if forced is not None:
                sessions = sorted(set(sessions) | set(ecu.sessions[1:]))
        start = rng.choice([0, 0, 1, 5, 0x70, rng.randrange(0, 40)])
        end = start + rng.choice([0, 1, 7, 20, 47]) if rng.random() < 0.9 else max(0, start - 1)
        if service == 0x27 and rng.random() < 0.3:
            start, end = 0x78, rng.choice([0x7F, 0x80, 0x90])
        payload = rng.choice([None, None, b"\x00", b"\xde\xad"])
        skip = {}
        if use_sessions and rng.random() < 0.5:
            for s in rng.sample(sessions, rng.randint(1, len(sessions))):
                x = rng.random()
                if x < 0.2:
                    skip[s] = None
                elif x < 0.4:
                    skip[s] = []   # named with an empty identifier list: nothing is to be left out
                    ctx.kind("skip:session-with-empty-list")
                else:
                    skip[s] = sorted(set(rng.sample(range(start, max(start + 1, end + 2)), min(3, max(1, end - start)))))
        check = rng.choice([None, None, 1, 2, 5]) if use_sessions else rng.choice([None, 1])
        sns = rng.random() < 0.3
        mode = rng.choice(id_modes) if use_sessions else rng.choice(["plain", "pending", "busy"])
        if forced is not None:
            mode = ["drop-sid", "drop-sid", "refuse", "pending"][forced]
            check = [1, 1, rng.choice([1, 2]), rng.choice([None, 1])][forced]
            ecu.f186 = "ok"
            skip = {}
        if mode == "drop-sid":
            ecu.drop_sids = {service}
            ecu.drop_after = None
            label = "drop-sid"
        else:
            label = _behaviour(rng, ecu, mode)
        if use_sessions:
            ecu.reset_mode = rng.choice(["ok", "ok", "ok", "neg", "stay", "silent", "garbage"])
            ecu.boot = rng.choice([[], [], ["t"], ["i"] * 2, ["t"] * 9, ["t", "i"] * 6] + ([["t"] * 11, ["i"] * 20, ["t", "i"] * 7] if wild else []))
        hooks = _hooks_setup(rng, list(sessions) + [1]) if use_sessions and rng.random() < 0.3 else {}
        dflt = rng.choice([0, 1, 3])
        skip_arg = skip
        if skip and rng.random() < 0.7:
            skip_arg = _skip_tokens(rng, skip)
            skip = _oracle_2d(skip_arg)
            ctx.kind("skip:as-text")
        ecu_label = ("wild" if wild else "table") + ":" + label
        P = {"sessions": sessions, "start": start, "end": end, "payload": payload, "service": service, "check": check, "skip": skip, "skip_arg": skip_arg,
             "sns": sns, "max_retry": dflt, "hooks": hooks, "label": ecu_label}
        r, head, counts, impl = _run_id(ecu, P)
        ctx.ev()
        ctx.kind(f"id:{service:#x}:" + ("wild" if wild else "conformant") + ":" + label + (":sessions" if use_sessions else ":current")
                 + (":check" if check else "") + (":hooks" if hooks else ""))
        for p in r["problems"]:
            ctx.disagree("id:wire-accounting", "transmissions and exchanges of the real client do not line up: " + p,
                         {**_rec(head), "cfg": head}, impl=p, spec_violated=False, site="UDSClient.request_unsafe")
        cases.append((head + " | " + _tokens(r), impl, {"kind": "id", "cfg": head, "ecu": ecu_label, **_rec(head)}))
        ctx.nontrivial((head, _tokens(r)))
        if r["outcome"].startswith("raised"):
            ctx.kind("id:outcome:" + r["outcome"].split()[1])
        _id_verdicts(ctx, ecu, P, wild, label, r, counts, head)
        if i < 2:
            ctx.sample({"case": head, "counts": counts, "outcome": r["outcome"], "transmissions": len(r["wire"])})

    # identifier scan against the real RandomUDSServer
    for i in range(ctx.pick(20, 100)):
        srv, fn = _random_server(rng)
        service = rng.choice([0x22, 0x27, 0x2E, 0x31])
        sess_avail = sorted(srv.services.keys())
        sessions = sorted(set(rng.sample(sess_avail, rng.randint(1, min(2, len(sess_avail)))))) if rng.random() < 0.7 else None
        start = rng.choice([0, 1, 0xF180])
        end = start + rng.choice([3, 16, 40])
        check = rng.choice([None, 1, 4]) if sessions is not None else None
        P = {"sessions": sessions, "start": start, "end": end, "payload": None, "service": service, "check": check, "skip": {}, "skip_arg": {},
             "sns": False, "max_retry": 3, "hooks": {}, "label": "RandomUDSServer"}
        r, head, counts, impl = _run_id(fn, P)
        ctx.ev()
        ctx.kind(f"id:{service:#x}:RandomUDSServer")
        cases.append((head + " | " + _tokens(r), impl, {"kind": "id", "cfg": head, "ecu": "RandomUDSServer", **_rec(head)}))
        ctx.nontrivial((head, _tokens(r)))
        if r["outcome"] in ("exit0", "exit1"):
            _id_spec(ctx, service, None, r, counts, head)

    # ------------------------------------------------------------------ model side
    _compare_model(ctx, cases)
    ctx.traces_validated += len(cases)
    ctx.notes["transmissions_compared"] = sum(len(c[0].split("|")[1].split()) for c in cases)


def _wholly_skipped(skip, s):
    """the property's reading of a skip map: a session is left out as a whole only when its entry names everything (bare key -> None);
    an entry with an empty list names nothing"""
    return s in skip and skip[s] is None


def _sessions_attempted(ctx, kind, sessions, skip, r, head):
    """leaves out what the skip option names - nothing more: every requested session whose skip entry is absent, a (possibly empty) list of
    ids, is entered (its session change is on the wire) in a run that came to its end; a session-change hook whose request fails makes
    set_session raise before the session change: those runs are not judged"""
    if sessions is None or r["outcome"] not in ("exit0", "exit1"):
        return
    if any(pdu in HOOK_PDUS and tok in ("t", "i", "s") for pdu, tok in r["trace"]):
        return
    sent = {pdu[1] for pdu in r["wire"] if len(pdu) == 2 and pdu[0] == 0x10}
    for s_ in sessions:
        if _wholly_skipped(skip, s_) or s_ in sent:
            continue
        ent = ("an empty list" if skip[s_] == [] else f"the ids {skip[s_]}"[:80]) if s_ in skip else "no entry"
        ctx.disagree(f"{kind}:skipped-too-much:session-never-entered:" + ("empty-skip-list" if s_ in skip and skip[s_] == [] else "listed-ids" if s_ in skip else "no-entry"),
                     f"session {s_:#x} is requested and the skip option has {ent} for it, i.e. does not name the whole session, yet `10 {s_:02x}` was never sent: "
                     "nothing of that session is probed or reported",
                     {**_rec(head), "cfg": head, "session": s_, "skip": _fmt_skip(skip)}, impl=_reqs(r["wire"])[:400], model=f"10{s_:02x} on the wire",
                     spec_violated=True, site=("ServicesScanner.main" if kind == "svc" else "ScanIdentifiers.main") + " (session selection against the skip map)")
        return


def _svc_verdicts(ctx, ecu, sessions, skip, check, rid, reset, hooks, wild, label, r, head):
    """the property's clauses for one service scan on a table ECU (ground truth: the ECU's tables and its request log) -> inert_run"""
    sc = r["scanner"]
    inert_run = not wild and label in ("plain", "pending")
    # --- spec verdict on the ground truth (conformant ECUs, run completed) ---
    if inert_run and r["outcome"] in ("exit0", "exit1"):
        _svc_spec(ctx, ecu, sessions, skip, check, rid, reset, r, head)
    elif inert_run and not _may_die(ecu, reset, r):
        ctx.disagree("svc:scan-died:" + r["outcome"].split()[-1], f"service scan ended with {r['outcome']} on a conformant ECU (session read mode {ecu.f186}); nothing is reported",
                     {**_rec(head), "cfg": head, "f186": ecu.f186}, impl=r["outcome"], spec_violated=True, site="ServicesScanner.main / ECU.check_and_set_session")
    if not wild and label in ("drop-sid", "refuse", "drop-count") and r["outcome"] in ("exit0", "exit1"):
        _svc_checked_spec(ctx, ecu, sessions, skip, check, rid, r, head)
    if r["outcome"] in ("exit0", "exit1", "raised MissingResponse", "raised IllegalResponse",
                        "raised UnexpectedNegativeResponse", "raised RuntimeError"):
        _svc_wire_spec(ctx, ecu, sessions, skip, rid, reset, hooks, r, head)
    _sessions_attempted(ctx, "svc", sessions, skip, r, head)
    if not rid:
        for (k_, sid_) in sc.result:
            if sid_ & 0x40:
                ctx.disagree("svc:response-id-reported-unasked", f"service id {sid_:#x} carries the response flag (bit 0x40) and --scan-response-ids is off, "
                             f"yet it is reported (session key {k_:#x})", {**_rec(head), "cfg": head, "sid": sid_, "session": k_}, impl=sc.result,
                             spec_violated=True, site="ServicesScanner.perform_scan (response id filter)")
                break
    return inert_run


def _svc_rs_verdicts(ctx, srv, sessions, rid, reset, r, head):
    """service scan against the real RandomUDSServer: what may be on the wire, and soundness against the server's own service table"""
    _svc_wire_spec(ctx, None, sessions, {}, rid, reset, {}, r, head)
    if r["outcome"] in ("exit0", "exit1"):
        for (sess, sid) in r["scanner"].result:
            eff = sess if sessions is not None else 1
            if sid not in srv.services.get(eff, {}):
                ctx.disagree("svc:reported-unsupported:RandomUDSServer", f"service scan reports sid {sid:#x} in session {eff:#x} which the server does not implement there",
                             {**_rec(head), "cfg": head}, impl=r["scanner"].result, spec_violated=True, site="ServicesScanner.perform_scan")


def _pair_verdict(ctx, kind, reset_mode, label, r, r2, head, head2):
    """metamorphic pairs on a conformant, session-stable table ECU: (r, head) the run as generated, (r2, head2) its twin with --reset /
    --check-session / ResponsePending frames toggled; both records travel with the finding"""
    base = sorted(r["scanner"].result)
    case = {**_rec(head), "cfg": head, "cfg2": head2, "pair": kind, "replay2": getattr(head2, "rec", None)}
    if kind == "reset":
        if r2["outcome"] in ("exit0", "exit1") and reset_mode not in ("garbage",) and sorted(r2["scanner"].result) != base:
            ctx.disagree("svc:reset-changes-reported-set", "the same ECU and configuration with and without --reset give different reported sets "
                         "although every session can be entered from every session",
                         case, impl=sorted(r2["scanner"].result), model=base, spec_violated=True,
                         site="ServicesScanner.main (--reset)")
    elif kind == "check":
        if label == "plain" and r2["outcome"] in ("exit0", "exit1") and \
                (sorted(r2["scanner"].result), r2["outcome"]) != (base, r["outcome"]):
            ctx.disagree("svc:check-session-changes-result", "a session-stable ECU with an honest session read-back is reported differently "
                         "with and without --check-session",
                         case, impl=[sorted(r2["scanner"].result), r2["outcome"]], model=[base, r["outcome"]],
                         spec_violated=True, site="ServicesScanner.perform_scan / ECU.check_and_set_session")
    elif kind == "pending":
        if (sorted(r2["scanner"].result), r2["outcome"], r2["wire"]) != (base, r["outcome"], r["wire"]):
            ctx.disagree("svc:response-pending-changes-scan", "ResponsePending frames in front of the same replies change the scan "
                         "(result, exit status or the requests on the wire)",
                         case, impl=[sorted(r2["scanner"].result), r2["outcome"], len(r2["wire"])],
                         model=[base, r["outcome"], len(r["wire"])], spec_violated=True, site="UDSClient.request_unsafe / ServicesScanner")


def _id_verdicts(ctx, ecu, P, wild, label, r, counts, head):
    """the property's clauses for one identifier scan on a table ECU"""
    service, sessions, skip, check, hooks = P["service"], P["sessions"], P["skip"], P["check"], P["hooks"]
    # spec verdict: positives counted == positive replies the ECU really gave to the identifier probes
    if r["outcome"] in ("exit0", "exit1"):
        _id_spec(ctx, service, P["payload"], r, counts, head)
        _id_skip_wire(ctx, service, sessions, skip, r, head, hooks)
        _sessions_attempted(ctx, "id", sessions, skip, r, head)
        if not wild and label == "plain" and not P["sns"]:
            _id_range_probed(ctx, ecu, P, r, head)
    elif not wild and label in ("plain",) and ecu.reset_mode not in ("silent", "garbage") and not hooks:
        ctx.disagree("id:scan-died:" + r["outcome"].split()[-1], f"identifier scan ended with {r['outcome']} on a conformant ECU (session read mode {ecu.f186}); nothing is counted",
                     {**_rec(head), "cfg": head, "f186": ecu.f186}, impl=r["outcome"], spec_violated=True, site="ScanIdentifiers.main / ECU.check_and_set_session")
    if not wild and label == "drop-sid" and check == 1 and service != 0x22 and ecu.f186 == "ok" and r["outcome"] in ("exit0", "exit1") and sessions is not None:
        _id_checked_spec(ctx, ecu, service, r, head)


def _may_die(ecu, reset, r):
    """outcomes of a conformant ECU that legitimately end the scan with an exception: an unparsable reply to the reset"""
    if reset is not None and ecu.reset_mode == "garbage" and r["outcome"] == "raised IllegalResponse":
        return True
    # MAX_N_PENDING ResponsePending frames in a row end the run with RuntimeError by design of the client
    return ecu.pending and max(ecu.pending_ks) >= 120 and r["outcome"] == "raised RuntimeError"


def _svc_summary(r):
    sc = r["scanner"]
    tail = f"reqs={_reqs(r['wire'])} left=0"
    if r["outcome"].startswith("raised"):
        return r["outcome"].split()[0] + " " + r["outcome"].split()[1] + " " + tail
    res = ",".join(f"{a}:{b}" for a, b in sc.result) or "-"
    clean = 1 if r["outcome"] == "exit0" else 0
    ab = ",".join(f"{a}:{b}" for a, b in r["aborts"]) or "-"
    return f"ok result={res} clean={clean} abort={ab} {tail}"


def _id_summary(r, counts):
    tail = f"reqs={_reqs(r['wire'])} left=0"
    if r["outcome"].startswith("raised"):
        return r["outcome"] + " " + tail
    per = ";".join(f"{p}/{a}/{t}" for (p, a, t) in counts) or "-"
    clean = 1 if r["outcome"] == "exit0" else 0
    return f"ok per={per} clean={clean} {tail}"


def _canon_model(mo):
    # the model prints per=<sess>:p/a/t;... ; the implementation side has no session key in its log lines -> drop it
    if mo.startswith("ok per="):
        parts = mo.split(" ")
        per = parts[1][4:]
        if per != "-":
            per = ";".join(x.split(":", 1)[1] for x in per.split(";"))
        parts[1] = "per=" + per
        return " ".join(parts)
    return mo


def _first_diff(a, b):
    fa, fb = a.split(" "), b.split(" ")
    if fa[0] != fb[0]:
        return "outcome"
    for x, y in zip(fa, fb):
        if x != y:
            return x.split("=")[0]
    return "length"


def _parse_counts(captured):
    counts = []
    cur = {}
    for m in captured:
        if m.startswith("Positive replies:"):
            cur["p"] = int(m.split(":")[1])
        elif m.startswith("Abnormal replies:"):
            cur["a"] = int(m.split(":")[1])
        elif m.startswith("Timeouts:"):
            cur["t"] = int(m.split(":")[1])
            counts.append((cur.get("p"), cur.get("a"), cur.get("t")))
            cur = {}
    return counts


def _is_probe(pdu):
    return len(pdu) in (2, 3, 4, 6) and not any(pdu[1:])


def _entered(ecu, sessions, skip, reset):
    """(key, real session) for every requested, non-skipped session a session-stable table ECU lets the scanner enter:
    follows the ECU's own transition table through the session list, with the effect of --reset in between"""
    out = []
    cur = 1
    for s in sessions:
        if s in skip and skip[s] is None:
            continue
        if s in ecu.trans.get(cur, ()) and s in ecu.sessions:
            cur = s
            out.append((s, s))
            if reset is not None and reset in ecu.reset_levels and ecu.reset_mode in ("ok", "silent"):
                cur = 1
    return out


def _svc_spec(ctx, ecu, sessions, skip, check, rid, reset, r, head):
    """the property evaluated on a conformant, session-stable table ECU's ground truth"""
    sc = r["scanner"]
    got = set(sc.result)
    expected = set()
    if sessions is None:
        probed_sessions = [(0, 1)]
    else:
        probed_sessions = _entered(ecu, sessions, skip, reset)
    aborted = bool(r["aborts"])  # a failed session check may cut a session scan short
    for key, real in probed_sessions:
        for sid in range(256):
            if (sid & 0x40) and not rid:
                continue
            if sessions is not None and key in skip and (skip[key] is None or sid in skip[key]):
                if (key, sid) in got:
                    ctx.disagree("svc:skipped-sid-reported", "service scan reports a service id the skip option names",
                                 {**_rec(head), "cfg": head, "sid": sid}, impl=sorted(got), spec_violated=True, site="ServicesScanner.perform_scan")
                continue
            sup = ecu.supports(real, sid)
            ent = ecu.svc.get(real, {}).get(sid)
            meaningful = False
            if sid in (0x10, 0x11):
                meaningful = True  # answers 0x12 to the 1-byte probe
            elif sid == 0x3E:
                meaningful = True
            elif ent is not None:
                minlen = ent[0]
                meaningful = any(l >= minlen for l in (1, 2, 3, 5))
            if (key, sid) in got and not sup:
                ctx.disagree("svc:reported-unsupported", f"service scan reports sid {sid:#x} in session {real:#x}, which the ECU does not implement there",
                             {**_rec(head), "cfg": head, "sid": sid, "session": real}, impl=sorted(got), spec_violated=True, site="ServicesScanner.perform_scan")
            if sup and meaningful:
                expected.add((key, sid))
    for (key, sid) in got:
        if key not in [k for k, _ in probed_sessions]:
            ctx.disagree("svc:reported-under-session-not-entered", f"service scan reports sid {sid:#x} under session {key:#x}, which the ECU never let it enter",
                         {**_rec(head), "cfg": head, "sid": sid, "session": key}, impl=sorted(got), spec_violated=True, site="ServicesScanner.main")
    missing = expected - got
    storm = ecu.pending and max(ecu.pending_ks) >= 120
    # a hook request that is not answered makes set_session raise: the session is skipped by design
    hook_failed = any(pdu in HOOK_PDUS and tok in ("t", "i", "s") for pdu, tok in r["trace"])
    if missing and not aborted and not storm and not hook_failed:
        k, sid = sorted(missing)[0]
        ctx.disagree("svc:implemented-service-not-reported", f"service scan misses sid {sid:#x} (session key {k:#x}) although the ECU answers a probe meaningfully",
                     {**_rec(head), "cfg": head, "missing": sorted(missing)[:10]}, impl=sorted(got), spec_violated=True, site="ServicesScanner.perform_scan")
    if aborted and ecu.f186 != "stuck1":
        ctx.disagree("svc:session-check-failed-on-stable-ecu", "the session check gave up although the ECU never left the session and reads it back correctly",
                     {**_rec(head), "cfg": head, "aborts": r["aborts"]}, impl=r["aborts"], spec_violated=True, site="ECU.check_and_set_session")
    # every probe was received by the ECU in the session it is reported under
    if sessions is not None and not hook_failed:
        key = None
        main_dsc = _main_dsc_positions(ecu, sessions, skip)
        for idx, (before, pdu, reply) in enumerate(ecu.log):
            if idx in main_dsc:
                key = main_dsc[idx]
                continue
            if key is not None and _is_probe(pdu) and pdu[0] != 0x3E and before != key:
                ctx.disagree("svc:probe-outside-claimed-session", f"probe `{pdu.hex()}` of the scan of session {key:#x} reached the ECU in session {before:#x}",
                             {**_rec(head), "cfg": head, "session": key, "request": pdu.hex()}, impl=before, model=key, spec_violated=True,
                             site="ServicesScanner.main / perform_scan")
                break


def _main_dsc_positions(ecu, sessions, skip):
    """index in the ECU log of the positive session change that starts the scan of each entered session -> session"""
    pos = {}
    todo = [s for s in sessions if not (s in skip and skip[s] is None)]
    i = 0
    for s in todo:
        # the main loop's set_session(s) is the first `10 s` at or after position i that is not part of a session check of an
        # earlier session; a negative / unanswered one means the session is skipped
        while i < len(ecu.log):
            before, pdu, reply = ecu.log[i]
            i += 1
            if pdu == bytes([0x10, s]):
                if reply is not None and reply[0] == 0x50:
                    pos[i - 1] = s
                    # swallow re-entries of the same session by check_and_set_session: they keep the key
                break
    return pos


def _svc_wire_spec(ctx, ecu, sessions, skip, rid, reset, hooks, r, head):
    """what may be on the wire at all (every configuration, also runs that die): session changes into non-skipped requested
    sessions, the read-back, probes of selected ids, the reset, pings, hook requests; never a session skipped as a whole,
    never a probe of an id the skip option names for the session being scanned"""
    key = None
    hookset = {p for v in hooks.values() for part in v for p in part}
    skip = skip if sessions is not None else {}
    for pdu, tok in r["trace"]:
        if _is_probe(pdu) and (pdu[0] & 0x40) and not rid and pdu not in hookset:
            ctx.disagree("svc:response-id-probed-unasked", f"service id {pdu[0]:#x} carries the response flag (bit 0x40) and --scan-response-ids is off, "
                         f"yet the probe `{pdu.hex()}` was sent", {**_rec(head), "cfg": head, "request": pdu.hex()}, impl=_reqs(r["wire"])[:400],
                         spec_violated=True, site="ServicesScanner.perform_scan (response id filter)")
            return
        if sessions is not None and len(pdu) == 2 and pdu[0] == 0x10 and pdu[1] != 0:
            if pdu[1] in skip and skip[pdu[1]] is None and pdu[1] != 1:
                ctx.disagree("svc:skipped-session-requested", f"session {pdu[1]:#x} is skipped as a whole but `{pdu.hex()}` was sent",
                             {**_rec(head), "cfg": head, "request": pdu.hex()}, impl=_reqs(r["wire"])[:400], spec_violated=True,
                             site="ServicesScanner.main / Ranges2D (unravel_2d)")
                return
            if pdu[1] not in sessions:
                ctx.disagree("svc:unrequested-session-requested", f"`{pdu.hex()}` was sent although session {pdu[1]:#x} is not in --sessions",
                             {**_rec(head), "cfg": head, "request": pdu.hex()}, impl=_reqs(r["wire"])[:400], spec_violated=True, site="ServicesScanner.main")
                return
            if tok.startswith("p"):
                key = pdu[1]  # positive session change: set_session / check_and_set_session
            continue
        if pdu == b"\x22\xf1\x86" or pdu == b"\x3e\x00" or pdu in hookset:
            continue
        if reset is not None and pdu == bytes([0x11, reset]):
            continue
        if not (_is_probe(pdu) and (rid or not pdu[0] & 0x40)):
            ctx.disagree("svc:unexpected-request", f"`{pdu.hex()}` is neither a probe of a selected service id nor session maintenance",
                         {**_rec(head), "cfg": head, "request": pdu.hex()}, impl=_reqs(r["wire"])[:400], spec_violated=True, site="ServicesScanner")
            return
        if key is None or key not in skip:
            continue
        if skip[key] is None or pdu[0] in skip[key]:
            ctx.disagree("svc:skipped-sid-requested", f"service id {pdu[0]:#x} is skipped in session {key:#x} but the probe `{pdu.hex()}` was sent there",
                         {**_rec(head), "cfg": head, "session": key, "request": pdu.hex()}, impl=_reqs(r["wire"])[:400], spec_violated=True,
                         site="ServicesScanner.perform_scan / Ranges2D (unravel_2d)")
            return


def _svc_checked_spec(ctx, ecu, sessions, skip, check, rid, r, head):
    """ECUs that silently fall back to the default session.  With --check-session on and an honest read-back, whatever is
    reported for a service id whose own probes do not make the ECU drop the session is implemented in the claimed session,
    and the first probe of every service id reached the ECU in the claimed session; a failed check ends the session's scan
    with exit status 1."""
    if not check or ecu.f186 != "ok" or ecu.f186_then is not None or ecu.f186_nondefault is not None or sessions is None:
        return
    sc = r["scanner"]
    got = set(sc.result)
    if r["aborts"] and r["outcome"] != "exit1":
        ctx.disagree("svc:failed-session-check-exit-status", "a session check failed but the scan ended with status 0",
                     {**_rec(head), "cfg": head, "aborts": r["aborts"]}, impl=r["outcome"], spec_violated=True, site="ServicesScanner.main")
    # drops happen only in answer to requests of the listed service ids, and the read-back itself is not one of them
    trigger_free = ecu.drop_after is None and 0x22 not in ecu.drop_sids
    for (key, sid) in sorted(got):
        if key in ecu.f186_unreadable:
            continue   # no honest read-back in that session: nothing is promised for it
        if trigger_free and sid not in ecu.drop_sids and not ecu.supports(key, sid):
            ctx.disagree("svc:checked-scan-reports-unsupported", f"--check-session is on, the read-back is honest, probes of {sid:#x} do not disturb the session, "
                         f"yet it is reported under session {key:#x} where the ECU does not implement it",
                         {**_rec(head), "cfg": head, "sid": sid, "session": key, "drop_sids": sorted(ecu.drop_sids)}, impl=sorted(got), spec_violated=True,
                         site="ServicesScanner.perform_scan / ECU.check_and_set_session")
            return
    # the first probe of every service id follows a read-back that confirmed the session
    if not trigger_free or any(pdu in HOOK_PDUS and tok in ("t", "i", "s") for pdu, tok in r["trace"]):
        return   # (a failed hook request makes set_session raise after the session change: which `10 k` started a scan is then not visible in the ECU's log)
    key = None
    main_dsc = _main_dsc_positions(ecu, sessions, skip)
    prev = None
    for idx, (before, pdu, reply) in enumerate(ecu.log):
        if idx in main_dsc:
            key = main_dsc[idx]
        elif key is not None and _is_probe(pdu) and len(pdu) == 2 and pdu[0] != 0x3E and not (pdu[0] == 0x10):
            if before != key and key not in ecu.f186_unreadable and (prev is None or prev[1] == b"\x22\xf1\x86"):
                ctx.disagree("svc:first-probe-outside-claimed-session", f"--check-session is on, yet the first probe `{pdu.hex()}` of the scan of session {key:#x} "
                             f"reached the ECU in session {before:#x}",
                             {**_rec(head), "cfg": head, "session": key, "request": pdu.hex()}, impl=before, model=key, spec_violated=True,
                             site="ECU.check_and_set_session")
                return
        prev = (before, pdu, reply)


def _id_checked_spec(ctx, ecu, service, r, head):
    """identifier scan, check-session for every identifier, ECU drops the session after every request of the scanned service:
    the first transmission of every identifier probe still reaches the ECU in the session being scanned (or the scan of the
    session is given up); retransmissions of an unanswered probe follow without a new check"""
    key = None
    prev = None
    for before, pdu, reply in ecu.log:
        retransmission = pdu == prev
        prev = pdu
        if len(pdu) == 2 and pdu[0] == 0x10:
            if reply is not None and reply[0] == 0x50:
                key = pdu[1]
            continue
        if retransmission or pdu in HOOK_PDUS:
            continue
        if pdu[0] == service and pdu != b"\x22\xf1\x86" and key not in (None, 1) and before != key:
            ctx.disagree("id:probe-outside-claimed-session", f"--check-session 1 is on, yet `{pdu.hex()}` of the scan of session {key:#x} reached the ECU in session {before:#x}",
                         {**_rec(head), "cfg": head, "session": key, "request": pdu.hex()}, impl=before, model=key, spec_violated=True,
                         site="ScanIdentifiers.perform_scan / ECU.check_and_set_session")
            return


def _id_skip_wire(ctx, service, sessions, skip, r, head, hooks=None):
    """identifiers the --skip expression names for a session are never requested in that session (read off the wire); requests sent by
    the session hooks are not identifier probes"""
    if sessions is None or not skip or service not in (0x22, 0x2E, 0x31):
        return
    key = None
    hookset = {p for v in (hooks or {}).values() for part in v for p in part}
    for pdu, tok in r["trace"]:
        if len(pdu) == 2 and pdu[0] == 0x10 and pdu[1] != 0:
            if pdu[1] in skip and skip[pdu[1]] is None and pdu[1] != 1:
                ctx.disagree("id:skipped-session-requested", f"session {pdu[1]:#x} is skipped as a whole but `{pdu.hex()}` was sent",
                             {**_rec(head), "cfg": head, "request": pdu.hex()}, impl=_reqs(r["wire"])[:400], spec_violated=True,
                             site="ScanIdentifiers.main / Ranges2D (unravel_2d)")
                return
            if tok.startswith("p"):
                key = pdu[1]
            continue
        if key is None or key not in skip or pdu[0] != service or pdu == b"\x22\xf1\x86" or pdu in hookset:
            continue
        ident = None
        if service in (0x22, 0x2E) and len(pdu) >= 3:
            ident = int.from_bytes(pdu[1:3], "big")
        elif service == 0x31 and len(pdu) >= 4:
            ident = int.from_bytes(pdu[2:4], "big")
        if ident is not None and (skip[key] is None or ident in skip[key]):
            ctx.disagree("id:skipped-identifier-requested", f"identifier {ident:#x} is skipped in session {key:#x} but `{pdu.hex()}` was sent there",
                         {**_rec(head), "cfg": head, "session": key, "request": pdu.hex()}, impl=_reqs(r["wire"])[:400], spec_violated=True,
                         site="ScanIdentifiers.perform_scan / Ranges2D (unravel_2d)")
            return


def _id_range_probed(ctx, ecu, P, r, head):
    """conformant, session-stable table ECU, run ended with status 0: in every session the ECU let the scanner enter, every identifier of the
    requested range that the skip option does not name for that session was requested there (read off the ECU's own log: session at
    receipt, request) - an entry with an empty list leaves the whole range in place"""
    service, sessions, skip = P["service"], P["sessions"], P["skip"]
    if sessions is None or r["outcome"] != "exit0" or P["check"] is not None or P["hooks"]:
        return
    end = min(P["end"], 0x7F) if service == 0x27 else P["end"]
    seen = {}
    for before, pdu, reply in ecu.log:
        if pdu[0] != service:
            continue
        if service in (0x22, 0x2E) and len(pdu) >= 3:
            seen.setdefault(before, set()).add(int.from_bytes(pdu[1:3], "big"))
        elif service == 0x31 and len(pdu) >= 4:
            seen.setdefault(before, set()).add(int.from_bytes(pdu[2:4], "big"))
        elif service == 0x27 and len(pdu) >= 2:
            seen.setdefault(before, set()).add(pdu[1])
    entered = [pdu[1] for before, pdu, reply in ecu.log if len(pdu) == 2 and pdu[0] == 0x10 and reply is not None and reply[0] == 0x50 and pdu[1] in sessions]
    for k in sessions:
        if _wholly_skipped(skip, k) or k not in entered or k == 1:
            continue   # (the default session is also where the ECU is between sessions: not told apart in the log)
        want = {d for d in range(P["start"], end + 1) if not (k in skip and d in skip[k])}
        miss = sorted(want - seen.get(k, set()))
        if miss:
            ctx.disagree(f"id:skipped-too-much:identifier-never-requested", f"identifier {miss[0]:#x} of the requested range is not named by the skip option for session {k:#x} "
                         f"(entry: {skip.get(k, 'none')}), the ECU let the scanner enter that session, yet the identifier was never requested there",
                         {**_rec(head), "cfg": head, "session": k, "missing": miss[:10]}, impl=sorted(seen.get(k, set()))[:40], model=sorted(want)[:40],
                         spec_violated=True, site="ScanIdentifiers.perform_scan (skip map)")
            return


def _id_spec(ctx, service, payload, r, counts, head):
    """positives counted == number of identifier probes the ECU answered positively (read off the exchange trace)"""
    total_expected = sum(1 for pdu, tok in r["trace"] if pdu[0] == service and tok.startswith("p")
                         and not (pdu == b"\x22\xf1\x86"))
    total_counted = sum(c[0] or 0 for c in counts)
    # a 0x22 scan whose range contains 0xF186 makes probe and session check indistinguishable on the wire: skip those
    if service == 0x22 and any(pdu == b"\x22\xf1\x86" for pdu, _ in r["trace"]):
        return
    # counters of a session whose scan was given up are not logged
    if r["outcome"] == "exit1":
        if total_counted > total_expected:
            ctx.disagree("id:positive-count-exceeds-positive-replies",
                         f"identifier scan counted {total_counted} positive identifiers but the ECU gave only {total_expected} positive replies",
                         {**_rec(head), "cfg": head}, impl=counts, model=total_expected, spec_violated=True, site="ScanIdentifiers.perform_scan")
        return
    if total_expected != total_counted:
        ctx.disagree("id:positive-count-differs-from-positive-replies",
                     f"identifier scan counted {total_counted} positive identifiers but the ECU gave {total_expected} positive replies to identifier probes",
                     {**_rec(head), "cfg": head}, impl=counts, model=total_expected, spec_violated=True, site="ScanIdentifiers.perform_scan")


def _random_server(rng):
    """a real RandomUDSServer plus an ecufn driving it through UDSServerTransport.handle_request"""
    return _random_server_seeded(rng.randrange(1 << 30))


def _random_server_seeded(seed):
    from gallia.services.uds.server import RandomUDSServer, UDSServerTransport
    from gallia.transports.base import TargetURI

    srv = RandomUDSServer(seed)
    loop = asyncio.new_event_loop()
    try:
        loop.run_until_complete(srv.setup())
    finally:
        loop.close()
    tr = UDSServerTransport(srv, TargetURI("fake://srv"))

    async def fn(pdu):
        resp, _t = await tr.handle_request(pdu)
        return resp

    fn.seed = seed
    fn.srv = srv
    return srv, fn


# ------------------------------------------------------------------------------------------------- replay of one recorded case

_CLAUSES = [
    (("svc:reported-unsupported", "svc:checked-scan-reports-unsupported", "svc:reported-under-session-not-entered", "svc:response-id-reported-unasked"),
     "the service scan reports in each requested session only services the ECU implements in that session (response ids only when asked)"),
    (("svc:implemented-service-not-reported", "svc:scan-died", "svc:session-check-failed-on-stable-ecu", "svc:reset-changes-reported-set",
      "svc:check-session-changes-result", "svc:response-pending-changes-scan", "svc:failed-session-check-exit-status"),
     "the service scan reports every implemented service that answers any of the probe lengths with something other than a not-supported or length error"),
    (("svc:probe-outside-claimed-session", "svc:first-probe-outside-claimed-session", "svc:unexpected-request", "svc:unrequested-session-requested",
      "svc:response-id-probed-unasked", "id:probe-outside-claimed-session"),
     "it probes every service id 0x00-0xFF (response ids only when asked) exactly in the session it claims"),
    (("svc:skipped", "id:skipped"), "it leaves out what the skip option names"),
    (("id:positive-count", "id:scan-died"),
     "the identifier scan counts as positive exactly the identifiers in the requested range for which the ECU returns a positive response"),
]


def _clause(key):
    for prefixes, text in _CLAUSES:
        if key.startswith(prefixes):
            return text
    return ""


def _P_from_rec(rec):
    P = {k: v for k, v in rec.items() if k not in ("ecu", "scanner")}
    P["skip"] = _skip_from_json(P.get("skip") or {})
    P["skip_arg"] = _skip_from_json(P.get("skip_arg"))
    P["hooks"] = _hooks_from_json(P.get("hooks"))
    if rec["scanner"] == "id":
        P["payload"] = bytes.fromhex(P["payload"]) if P.get("payload") else None
    return P


def _rerun(ctx, rec, tag=""):
    """rebuild ECU and configuration from a case record, run the real scanner, replay the per-transmission answer script through the model,
    print both sides, evaluate the property's clauses on the ECU's ground truth -> (run, head, ecu, label)"""
    fn, ecu, srv = _ecu_from_desc(rec["ecu"])
    P = _P_from_rec(rec)
    wild = bool(rec["ecu"].get("wild"))
    label = P["label"].split(":", 1)[1] if ":" in P["label"] else P["label"]
    if rec["scanner"] == "svc":
        r, head, impl = _run_svc(fn, P)
        counts = None
    else:
        r, head, counts, impl = _run_id(fn, P)
    print(f"config{tag} : {head}   (client max_retry {P['max_retry']}" + (f", --skip given as {P['skip_arg']}" if isinstance(P.get("skip_arg"), list) else "") + ")")
    print(f"ecu{tag}    : " + _describe_ecu(rec["ecu"])[:1500])
    if ecu is not None:
        print(f"           sessions {ecu.sessions}, transitions { {k: sorted(v) for k, v in ecu.trans.items()} }, "
              f"implemented services per session { {k: [hex(x) for x in sorted(v)] for k, v in ecu.svc.items()} }"[:1500])
    for p in r["problems"]:
        ctx.disagree(f"{rec['scanner']}:wire-accounting", "transmissions and exchanges of the real client do not line up: " + p,
                     {**_rec(head), "cfg": head}, impl=p, spec_violated=False, site="UDSClient.request_unsafe")
    info = {"kind": rec["scanner"], "cfg": head, "ecu": P["label"], **_rec(head)}
    mo, = _compare_model(ctx, [(head + " | " + _tokens(r), impl, info)])
    print(f"impl{tag} : {impl[:1500]}")
    print(f"           {len(r['wire'])} transmissions; answers per transmission: {_tokens(r)[:600]}")
    print(f"model{tag}: {mo[:1500]}")
    if ecu is not None and rec["scanner"] == "svc" and not P["label"].startswith("table:twin"):
        _svc_verdicts(ctx, ecu, P["sessions"], P["skip"], P["check"], P["rid"], P["reset"], P["hooks"], wild, label, r, head)
    elif ecu is not None and rec["scanner"] == "id":
        _id_verdicts(ctx, ecu, P, wild, label, r, counts, head)
    elif srv is not None and rec["scanner"] == "svc":
        _svc_rs_verdicts(ctx, srv, P["sessions"], P["rid"], P["reset"], r, head)
    elif srv is not None and r["outcome"] in ("exit0", "exit1"):
        _id_spec(ctx, P["service"], None, r, counts, head)
    return r, head, ecu, label


def replay(ctx, payload):
    """re-run one recorded case: the ECU is rebuilt from the record in the case (generator seed + behaviour switches, or the RandomUDSServer
    seed), the real scanner is run with the recorded configuration, its per-transmission answer script goes through the Lean model, the
    property's clauses are evaluated on the ECU's ground truth; metamorphic pairs re-run both members; 1 when something still shows"""
    from lib import replaylib
    import sys
    finding, origin = replaylib.pick(payload)
    replaylib.header(payload, finding, origin)
    if finding is None:
        return int(replaylib.obligations(sys.modules[__name__], payload))
    setup_repo_import()
    import gallia.command  # noqa: F401  (import order)
    case = finding["case"]
    rec = case.get("replay") or (case.get("info") or {}).get("replay")
    if rec is None:
        print("this replay file carries only the configuration head (written before the cases were made self-contained): " + str(case.get("cfg") or case.get("line"))[:400])
        print("re-run ./check C10 to get a replayable case")
        return 1
    r, head, ecu, label = _rerun(ctx, rec)
    if case.get("replay2"):
        r2, head2, _e2, _l2 = _rerun(ctx, case["replay2"], tag="2")
        print(f"pair    : {case.get('pair')}: impl reports {sorted(r['scanner'].result)} ({r['outcome']}, {len(r['wire'])} requests) | "
              f"impl2 reports {sorted(r2['scanner'].result)} ({r2['outcome']}, {len(r2['wire'])} requests)")
        _pair_verdict(ctx, case.get("pair"), rec["ecu"].get("set", {}).get("reset_mode", "ok"), label, r, r2, head, head2)
    return replaylib.verdict(ctx, finding, _clause)


MANIFEST = {
    "level_text": ("Lean 4 theorems over an executable model of ServicesScanner.main / ScanIdentifiers.main for every configuration "
                   "(probe loop, skip map, session loop, --check-session with ECU.check_and_set_session incl. the 22 F1 86 read-back and the "
                   "re-entry loop, --reset with ECUReset + wait_for_ecu, ECU.set_session with its pre/post hooks, leave_session, the client's "
                   "retry / busyRepeatRequest / ResponsePending loop underneath), for every ECU given as a step function. For any ECU with a "
                   "request log: only probes of selected ids and session maintenance are ever sent (also in runs that are given up or die), "
                   "every selected id is probed, skipped ids and wholly skipped sessions are never requested, the number of requests is bounded; "
                   "a skip entry with an empty id list (`S:` / {S: []}) leaves nothing out: the session stays requested, every id stays selected and "
                   "it is reported completely (empty_skip_list_skips_nothing, empty_skip_list_scanned_completely). "
                   "For session-determined ECUs obeying the ISO default rule: reported <=> selected, implemented in the claimed session and "
                   "answering a probe meaningfully (sound for every configuration, exact when the read-back is honest), --reset does not change "
                   "the reported set, identifier counters equal the number of positive identifiers per entered session. For ECUs that lose the "
                   "session silently and read it back honestly: a passed session check establishes the session, first probes (and all probes of "
                   "ids that do not disturb the session) reach the ECU in the claimed session, findings for such ids are implemented there, a "
                   "lost session gets nothing reported, a failed check gives exit status 1. ResponsePending below MAX_N_PENDING is transparent. "
                   "Tied to the code per single transmission: the real scanners run on a real ECU client over wire-level ECUs (table ECUs with "
                   "session drops, refused / faked re-entry, ResponsePending, busyRepeatRequest, reset / boot variants, hooks; wild ECUs; the real "
                   "RandomUDSServer); the model must put the same transmissions on the wire in the same order and report the same result; the "
                   "property is evaluated on the ECUs' ground truth; metamorphic pairs (reset, check-session, ResponsePending on/off). Skip maps are "
                   "given as maps and as CLI text through the real Ranges2D field type (bare sessions, id lists / ranges, entries with an empty id "
                   "list, entries for sessions not requested) against an independent reading of the expression; every requested session not named as "
                   "a whole must be entered and (identifier scan, conformant ECU) have every not-named identifier requested. Table ECUs draw ISO-named "
                   "services and services answering the all-zero probes positively without repeating the probe's bytes (response id only / a record)."),
    "level_note": ("Trusted: Lean kernel, the harness (wire transport, exchange recorder around ECU._request, table ECU generator), the real "
                   "UDSClient's matcher as the classifier of final messages (C03). Literal limits (retries, max_retry per call site, MAX_N_PENDING, "
                   "wait_for_ecu durations, leave_session levels) are regenerated from the AST and tied by limits_agree. Outside: database-assisted "
                   "session changes, power supply, connection loss (C08), ResponsePending followed by silence in answer to a ping of wait_for_ecu; "
                   "max_retry per call site is given to the model as a function of the request bytes."),
    "technique": ("Lean 4 proof (frame lemmas: every state predicate preserved by the allowed requests is preserved by the scanner; structural "
                  "induction over service-id / identifier / session lists; invariants on the ECU session; request-log abstraction shared by the "
                  "exchange and the transmission level) + per-transmission trace-replay correspondence against the real scanners + regenerated limits"),
    "design_ref": "DESIGN.md section 7, C10",
}
