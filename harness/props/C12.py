"""C12 - database-backed virtual ECU: histories are recorded with the real ECU client + DBHandler against the real
RandomUDSServer into a real sqlite file (several runs / ECUs / property sets per file), then replayed through the real
DBUDSServer (UDSServerTransport.handle_request).  The rows read back with sqlite3 and the request sequence go through
the Lean model (Model/Replay.lean): its predicted replies must equal the real replay, and - whenever the model says the
property's presupposition `Agree` holds - the real replay must equal the recorded replies.

Second part (`_scenarios`, harness/lib/c12scen.py): databases with 2-3 recordings of one ECU, replies the client refused,
cancelled calls, an OEM-like ECU subclass, pauses, short scans sent several times and a synthetic table of state objects, replayed
through the real server with its state and cursor read after every request and through the server-level model
(Model/ReplayServe.lean, `serve`); a replay that differs from its recording is shrunk (re-recorded with a scripted ECU) before it
is reported.  Scenario `property-sets`: 2-4 runs of ECUs of one family whose `properties_pre` / `properties_post` are written only by the real
`DBHandler` calls (insert_scan_run, insert_scan_run_properties_pre - or not: the write failed / was skipped -, complete_scan_run - or not), the other
runs holding rows for the same requests with other replies and post-properties that do / do not match the selector; the columns are compared with
`RunCols.after`, the run whose pre-properties match must be replayed byte for byte (`_report_spec_db` shrinks the whole database)."""
import asyncio
import json
import sqlite3
import tempfile
from datetime import UTC, datetime
from pathlib import Path

from common import hx, setup_repo_import
from vloop import patch_aiosqlite, vrun

ID = "C12"
GENS = ["c12_server"]
PROOF = "Gallia.Proofs.C12"
DRIVER = "c12"
ASSUMPTIONS = [
    "sqlite is represented by its contract: `json_extract` = `jget` (SQL NULL for an absent key or JSON null; integers, text, anything else by its minified JSON text; JSON booleans as 0 / 1), "
    "`ORDER BY r.id LIMIT 1` = `minRow` / `minDbRow`, `INTEGER PRIMARY KEY AUTOINCREMENT` under the single writer task = consecutive ids in insertion order (`numberRows`); "
    "float-valued state entries / properties and keys that are not plain identifiers are outside the model",
    "the two codec facts the replay relies on are explicit hypotheses of `serve_is_replay` (`ReqLossless`: the parsed request carries the received bytes - C01; `RespLossless`: an accepted reply "
    "re-serialises to the received bytes - C02) and are discharged in `codec_hypotheses_hold` from C01's / C02's own lemmas; that C01's / C02's decoders are the real `parse_dynamic` is C01's / C02's tie "
    "(here every recorded reply is additionally compared with the real parser: class, typed or raw, re-serialised bytes)",
    "the recording side is C11's recorder model (`Model/DbLog.lean`, imported read-only): `record_is_c11_rows` / `record_is_c11_calls` say its rows are `recordDb`; that the model is the real "
    "`ECU._request` + `DBHandler` is C11's tie (here: the rows read back are the completed calls in completion order, the logged state is the model's client state)",
    "`scan_run.properties_pre` / `properties_post` are modelled as written by `insert_scan_run_properties_pre` / `complete_scan_run` only (`RunCols.after`; tied: the columns read back after the real calls); "
    "a run whose pre-properties were never written has `properties_pre IS NULL` = a property object without keys for the WHERE clause (`RunCols.info`) - `run_without_pre_properties_never_selected` is for selectors "
    "with at least one property value; a selector that only asks for absent properties (`None`) or the empty property set sees such runs too (model = code, no statement of the property); "
    "ECU names are assigned by hand (`address.ecu`; gallia has no call for it)",
    "the default rules of `UDSServer` are parameters of the server-level model (C13 models them); with `DBUDSServer.Behavior` - regenerated from the live class on every run - they are never consulted",
    "several recordings the selector selects occupy id blocks that do not overlap (`RunsSorted`: one recording at a time per database file); `replay_with_earlier_runs` is for recordings of the same request sequence "
    "that end in the default state - for other request sequences the exact statement is the step-level `replay_cursor_spec` plus `replay_earliest_recording`",
    "`serve_is_replay` and the theorems transferred by it are for a server in a plain `ECUState` (what every `DBUDSServer` has) and requests without a pause beyond the inactivity limit; further server-side state keys "
    "and pauses are in the model (`stateMatch`, `serveStep`), tied by the scenario databases and covered by `state_match_keywise` / `idle_reset_keeps_cursor` only; the clock is `time()` patched in the harness",
]


class _Cfg:
    def model_dump_json(self):
        return "{}"


def _gen_history(rng, srv, n):
    """request PDUs for one recording; a callback gets the previous reply to build seed/key pairs"""
    sessions = sorted(srv.services.keys())
    dids = [rng.randrange(0x10000) for _ in range(4)] + [0xF186, 0xF190]
    reqs = []
    for _ in range(n):
        r = rng.random()
        if r < 0.18:
            reqs.append(("pdu", bytes([0x10, rng.choice(sessions + [rng.randrange(1, 0x7F)])])))
        elif r < 0.30:
            lvl = rng.choice([1, 3, 5, 0x11])
            reqs.append(("pdu", bytes([0x27, lvl])))
            reqs.append(("key", lvl + 1, rng.random() < 0.8))
        elif r < 0.36:
            reqs.append(("pdu", bytes([0x11, rng.choice([1, 1, 2, 3, 4])])))
        elif r < 0.42:
            reqs.append(("pdu", b"\x22\x0c\x0c"))
            if rng.random() < 0.6:
                reqs.append(("pdu", b"\x22\x0c\x0c"))
        elif r < 0.55:
            d = rng.choice(dids)
            reqs.append(("pdu", bytes([0x22, d >> 8, d & 0xFF])))
        elif r < 0.62:
            d = rng.choice(dids)
            reqs.append(("pdu", bytes([0x2E, d >> 8, d & 0xFF]) + bytes(rng.randrange(256) for _ in range(rng.randint(1, 12)))))
        elif r < 0.70:
            d = rng.choice(dids)
            reqs.append(("pdu", bytes([0x31, rng.choice([1, 2, 3]), d >> 8, d & 0xFF])))
        elif r < 0.80:
            reqs.append(("pdu", rng.choice([b"\x3e\x00", b"\x3e\x80", b"\x3e\x00"])))
        elif r < 0.85:
            reqs.append(("pdu", rng.choice([b"\x19\x02\xff", b"\x14\xff\xff\xff", b"\x85\x01", b"\x28\x00\x01"])))
        elif r < 0.92 and reqs:
            reqs.append(rng.choice([q for q in reqs if q[0] == "pdu"] or [("pdu", b"\x3e\x00")]))  # repeat an earlier request
        else:
            reqs.append(("pdu", bytes(rng.randrange(256) for _ in range(rng.randint(1, 5)))))
        if rng.random() < 0.15 and reqs[-1][0] == "pdu":
            reqs.append(reqs[-1])  # immediate repetition (a second seed request gets a different seed)
    return reqs


class TableECU:
    """A small deterministic ECU written for this check (independent of gallia's server code): sessions 1, 2, 3, 0x40, security
    levels 1 and 3 (key = seed) in the non-default sessions, data that depends on (identifier, session, security level) - so a row
    looked up in the wrong state is visibly wrong -, suppressed TesterPresent, and a boot phase after ECUReset during which it is silent."""

    SESSIONS = (1, 2, 3, 0x40)

    def __init__(self, boot, chatty=False):
        self.boot = boot
        self.chatty = chatty   # answers although the request asks to suppress the positive response (real ECUs do)
        self.session, self.sec, self.seed, self.silent, self.ctr = 1, None, None, 0, 0

    def __call__(self, p):
        if self.silent > 0:
            self.silent -= 1
            return None
        sid = p[0]
        if sid == 0x10 and len(p) == 2:
            sub = p[1] & 0x7F
            if sub not in self.SESSIONS:
                return bytes([0x7F, 0x10, 0x12])
            self.session, self.sec, self.seed = sub, None, None
            return None if p[1] & 0x80 and not self.chatty else bytes([0x50, sub, 0x00, 0x32, 0x01, 0xF4])
        if sid == 0x11 and len(p) == 2:
            self.session, self.sec, self.seed = 1, None, None
            self.silent = self.boot
            return bytes([0x51, p[1] & 0x7F])
        if sid == 0x27 and len(p) >= 2:
            sub = p[1] & 0x7F
            if self.session == 1 or sub not in (1, 2, 3, 4):
                return bytes([0x7F, 0x27, 0x12])
            if sub % 2 == 1:
                self.ctr += 1
                self.seed = (sub, bytes([0xA0 + sub, self.ctr & 0xFF]))
                return bytes([0x67, sub]) + self.seed[1]
            if self.seed is None or self.seed[0] + 1 != sub:
                return bytes([0x7F, 0x27, 0x24])
            ok = p[2:] == self.seed[1]
            self.seed = None
            if not ok:
                return bytes([0x7F, 0x27, 0x35])
            self.sec = sub - 1
            return bytes([0x67, sub])
        if sid == 0x22 and len(p) == 3:
            did = (p[1] << 8) | p[2]
            if did == 0xF186:
                return bytes([0x62, 0xF1, 0x86, self.session])
            if did == 0x0C0C:
                self.ctr += 1
                return bytes([0x62, 0x0C, 0x0C, self.ctr & 0xFF])
            if did & 1 and self.sec is None:
                return bytes([0x7F, 0x22, 0x33])
            return bytes([0x62, p[1], p[2], self.session, 0xFF if self.sec is None else self.sec, (did * 7) & 0xFF])
        if sid == 0x2E and len(p) >= 4:
            return bytes([0x6E, p[1], p[2]]) if self.session != 1 else bytes([0x7F, 0x2E, 0x7F])
        if sid == 0x31 and len(p) >= 4:
            return bytes([0x71, p[1] & 0x7F, p[2], p[3], self.session])
        if sid == 0x3E and len(p) == 2:
            return None if p[1] & 0x80 and not self.chatty else bytes([0x7E, 0x00])
        return bytes([0x7F, sid, 0x11])


def _gen_table_history(rng, ecu, n):
    """state-aware scenarios against TableECU: unlock then re-enter the active session, boot polling (the same request first
    unanswered, later answered), suppressed requests repeated, reads of fresh identifiers in every reached state"""
    reqs = []
    fresh = [0x1000]

    def rd(odd=None):
        fresh[0] += 2
        d = fresh[0] | (1 if (rng.random() < 0.5 if odd is None else odd) else 0)
        return ("pdu", bytes([0x22, d >> 8, d & 0xFF]))

    while len(reqs) < n:
        r = rng.random()
        s = rng.choice([2, 3, 0x40])
        lvl = rng.choice([1, 3])
        if r < 0.22:  # unlock, read, re-enter the same session, read something new and something old
            a = rd(True)
            reqs += [("pdu", bytes([0x10, s])), ("pdu", bytes([0x27, lvl])), ("key", lvl + 1, rng.random() < 0.85), a,
                     ("pdu", bytes([0x10, s])), rd(True), a]
        elif r < 0.40:  # reset and poll until the ECU is back
            reqs += [("pdu", bytes([0x10, s])), ("pdu", bytes([0x11, rng.choice([1, 2, 3, 4, 5])]))] + [("pdu", b"\x3e\x00")] * (ecu.boot + rng.choice([1, 2])) + [rd(False)]
        elif r < 0.50:
            reqs += [("pdu", b"\x3e\x80")] * rng.choice([1, 2, 3]) + [("pdu", b"\x3e\x00")]
        elif r < 0.60:
            reqs += [("pdu", bytes([0x10, rng.choice([1, s, s, 0x55])]))]
        elif r < 0.70:
            reqs += [("pdu", bytes([0x27, lvl])), ("key", lvl + 1, rng.random() < 0.7)]
        elif r < 0.78:
            reqs += [("pdu", b"\x22\xf1\x86")]
        elif r < 0.86:
            reqs += [("pdu", b"\x22\x0c\x0c")] * rng.choice([1, 2, 3])
        elif r < 0.93 and reqs:
            reqs.append(rng.choice([q for q in reqs if q[0] == "pdu"]))
        else:
            reqs.append(rd())
    return reqs


async def _record(dbp, url, seed, plan, table_boot=None):
    from gallia.db.handler import DBHandler
    from gallia.services.uds.ecu import ECU
    from gallia.services.uds.server import RandomUDSServer, UDSServerTransport
    from gallia.transports.base import TargetURI
    from lib.fakeecu import FnTransport

    if table_boot is not None:
        srv = TableECU(table_boot)
        return await _record_with(dbp, url, srv, srv, plan)
    srv = RandomUDSServer(seed)
    await srv.setup()
    tr = UDSServerTransport(srv, TargetURI("fake://x"))

    counter = [0]

    async def fn(p):
        if p == b"\x22\x0c\x0c":  # an identifier whose value changes with every read (free-running counter)
            counter[0] += 1
            return b"\x62\x0c\x0c" + bytes([counter[0] & 0xFF])
        r, _ = await tr.handle_request(p)
        return r

    return await _record_with(dbp, url, srv, fn, plan)


async def _record_with(dbp, url, srv, fn, plan):
    from gallia.db.handler import DBHandler
    from gallia.services.uds.ecu import ECU
    from lib.fakeecu import FnTransport

    ecu = ECU(FnTransport(fn), timeout=0.1, max_retry=0)
    db = DBHandler(dbp)
    await db.connect()
    await db.insert_run_meta("verif-c12", _Cfg(), datetime.now(UTC).astimezone(), None)
    await db.insert_scan_run(url)
    ecu.db_handler = db
    run_id = db.scan_run
    hist = []
    last_reply = None
    for item in plan(srv):
        if item[0] == "key":
            if last_reply is not None and len(last_reply) >= 2 and last_reply[0] == 0x67:
                key = last_reply[2:] if item[2] else bytes(len(last_reply[2:]))
            else:
                key = b"\x00"
            pdu = bytes([0x27, item[1]]) + key
        else:
            pdu = item[1]
        try:
            resp = await ecu.send_raw(pdu)
            last_reply = resp.pdu
            hist.append((pdu, resp.pdu))
        except Exception as e:
            r = getattr(e, "response", None)
            last_reply = None
            hist.append((pdu, r.pdu if r is not None else None))
    await db.disconnect()
    return run_id, hist


async def _replay(dbp, ecu_name, props, reqs):
    from gallia.services.uds.server import DBUDSServer, UDSServerTransport
    from gallia.transports.base import TargetURI

    s = DBUDSServer(dbp, ecu_name, props)
    await s.setup()
    tr = UDSServerTransport(s, TargetURI("fake://y"))
    out = []
    try:
        for p in reqs:
            try:
                r, _ = await tr.handle_request(p)
                out.append(r)
            except Exception as e:
                out.append(("EXC", type(e).__name__))
    finally:
        await s.teardown()
    return out


def _rows_for(dbp, ecu_name, props):
    """rows as the model sees them; `selected` computed independently with plain SQL per selector"""
    c = sqlite3.connect(dbp)
    rows = []
    for rid, run, state, req, resp in c.execute("SELECT id, run, state, request_pdu, response_pdu FROM scan_result ORDER BY id"):
        st = json.loads(state)
        name = c.execute("SELECT e.name FROM scan_run s, address a, ecu e WHERE s.id=? AND s.address=a.id AND a.ecu=e.id", (run,)).fetchone()
        pp = c.execute("SELECT properties_pre FROM scan_run WHERE id=?", (run,)).fetchone()[0]
        pp = json.loads(pp) if pp else {}
        sel = True
        if ecu_name is not None:
            sel = sel and name is not None and name[0] == ecu_name
        if props is not None:
            for k, v in props.items():
                sel = sel and (pp.get(k) == v)
        sec = st.get("security_access_level")
        rows.append(f"{rid}:{int(sel)}:{st['session']}:{'n' if sec is None else sec}:{req if req != chr(39)*2 else '-'}:{resp if resp is not None else 'N'}")
    c.close()
    return rows


def _jv(v):
    if v is None:
        return "z"
    if isinstance(v, bool):
        return f"n{int(v)}"
    if isinstance(v, int):
        return f"n{v}"
    if isinstance(v, str):
        return "s" + v.encode().hex()
    return "j" + json.dumps(v, separators=(",", ":")).encode().hex()


def _kvs(d):
    return ",".join(f"{k.encode().hex()}={_jv(v)}" for k, v in d.items()) if d else "+"


def _db_line(dbp, ecu_name, props, reqs):
    """the database and the selector as data for the Lean model (Model/Replay.lean: DbRow, RunInfo, Selector): the model itself
    decides which runs the WHERE clause selects"""
    c = sqlite3.connect(dbp)
    runs, run_ids = [], []
    for (run, pp) in c.execute("SELECT id, properties_pre FROM scan_run ORDER BY id").fetchall():
        name = c.execute("SELECT e.name FROM scan_run s, address a, ecu e WHERE s.id=? AND s.address=a.id AND a.ecu=e.id", (run,)).fetchone()
        runs.append(f"{run}/{name[0].encode().hex() if name else '-'}/{'~' if pp is None else _kvs(json.loads(pp))}")
        run_ids.append(run)
    rows = []
    for rid, run, state, req, resp in c.execute("SELECT id, run, state, request_pdu, response_pdu FROM scan_result ORDER BY id"):
        st = json.loads(state)
        sec = st.get("security_access_level")
        rows.append(f"{rid}:{run}:{st['session']}:{'n' if sec is None else sec}:{req if req else '-'}:{resp if resp is not None else 'N'}")
    c.close()
    sel = f"{ecu_name.encode().hex() if ecu_name is not None else '-'}/{'-' if props is None else _kvs(props)}"
    return f"replaydb {sel} {';'.join(runs)} {';'.join(rows)} | " + ",".join(hx(p) for p in reqs), run_ids


def _logged_states(dbp, run_id):
    """the client's view of the ECU state as ECU._request logged it, one entry per exchange of this run"""
    c = sqlite3.connect(dbp)
    out = []
    for (state,) in c.execute("SELECT state FROM scan_result WHERE run=? ORDER BY id", (run_id,)):
        st = json.loads(state)
        sec = st.get("security_access_level")
        out.append(f"{st['session']}/{'n' if sec is None else sec}")
    c.close()
    return out


def _kind_of_real(pdu):
    from gallia.services.uds.core import service

    try:
        r = service.UDSResponse.parse_dynamic(pdu)
    except Exception:
        return "other"
    if isinstance(r, service.DiagnosticSessionControlResponse):
        return f"dsc{r.diagnostic_session_type}"
    if isinstance(r, service.SecurityAccessResponse):
        return f"sa{r.security_access_type}"
    if isinstance(r, service.ECUResetResponse):
        return "reset"
    if isinstance(r, service.ReadDataByIdentifierResponse) and r.data_identifier == 0xF186:
        return f"f186:{int.from_bytes(r.data_record, 'big')}"
    return "other"


class ScriptECU:
    """answers the i-th request with the i-th recorded reply (None: silence) - the recorded history as an ECU"""

    def __init__(self, hist):
        self.replies = [r for _, r in hist]
        self.i = 0

    def __call__(self, p):
        r = self.replies[self.i] if self.i < len(self.replies) else None
        self.i += 1
        return r


def _rerecord_and_replay(ctx, hist, n_pass=1, oem=False):
    """record `hist` ([(request, reply|None)]) with the real recorder against a scripted ECU into a fresh database, replay the
    requests (`n_pass` times in a row) through the real DBUDSServer; returns (recorded tokens, replayed tokens, the model says the
    presupposition holds - and, for several passes, that the recording ends in the default state)"""
    from lib import c12scen as sc

    with tempfile.TemporaryDirectory(prefix="verif-c12-") as td:
        dbp = Path(td) / "case.sqlite"
        rec, _ = vrun(sc.record_run(dbp, "fake://case", ScriptECU(hist), [("pdu", p) for p, _ in hist], oem=oem))
        sc.name_runs(dbp, [(rec["run"], "fake://case", "ECU0", {})])
        real, _ = vrun(sc.replay_trace(dbp, "ECU0", None, [(0, p) for p, _ in hist] * n_pass))
    la = ctx.lean(["agree " + ";".join(f"{hx(p) if p else '-'}:{hx(r) if r is not None else 'N'}" for p, r in hist)])[0] if hist else "1 final=1/n "
    recorded = ["N" if r is None else hx(r) for _, r, _ in rec["calls"]] * n_pass
    ok = la.split(" ")[0] == "1" and (n_pass == 1 or " final=1/n " in la)
    return recorded, [t.split("~")[0] for t in real], ok


def _first_diff(a, b):
    return next((k for k in range(min(len(a), len(b))) if a[k] != b[k]), None)


def _what(tok):
    return "exception" if tok == "EXC" else ("silence" if tok == "N" else "other-bytes")


def _shrink_history(ctx, hist, n_pass=1, oem=False):
    """smallest history (prefix, then single exchanges dropped front to back) that the real recorder + the real DBUDSServer still replay
    differently from what was recorded although client and server agree on the state along it: (history, what, recorded, replayed);
    None when the failure does not reproduce from the history alone"""
    def fails(h):
        recorded, real, agree = _rerecord_and_replay(ctx, h, n_pass, oem)
        i = _first_diff(recorded, real)
        return (i, _what(real[i]), recorded, real) if agree and i is not None else None

    f = fails(hist)
    if f is None:
        return None
    if n_pass == 1:
        hist = hist[: f[0] + 1]
        f = fails(hist) or f
    what = f[1]
    k = 0
    budget = 60
    while k < len(hist) and len(hist) > 1 and budget > 0:
        budget -= 1
        cand = hist[:k] + hist[k + 1:]
        g = fails(cand)
        if g is not None and g[1] == what and (n_pass > 1 or g[0] == len(cand) - 1):
            hist, f = cand, g
        else:
            k += 1
    return hist, what, f[2][: f[0] + 1], f[3][: f[0] + 1]


def _report_spec(ctx, hist, where, scenario, runs_in_db, real_tokens, recorded_tokens, unparsable, n_pass=1):
    """the replay differs from the recording although the states agree: shrink, then report with a key that names the defect"""
    i = _first_diff(recorded_tokens, real_tokens)
    what = _what(real_tokens[i])
    oem = scenario == "oem-state"
    shrunk = _shrink_history(ctx, hist, n_pass, oem)
    if shrunk is not None:
        small, what, recorded_tokens, real_tokens = shrunk
        i = len(real_tokens) - 1
        case = {"scenario": scenario, "shrunk": True, "history": [[hx(p), None if r is None else hx(r)] for p, r in small], "passes": n_pass, "index": i}
        if oem:
            case["recorder"] = "ECU subclass whose state object has further keys (harness/lib/c12scen.py: oem_classes)"
        rec_i = small[i % len(small)][1]
    else:
        case = {"scenario": scenario, "shrunk": False, "runs_in_db": runs_in_db, "where": where,
                "history": [[hx(p), None if r is None else hx(r)] for p, r in hist], "passes": n_pass, "index": i}
        rec_i = hist[i % len(hist)][1]
    bad = rec_i is not None and hx(rec_i) in unparsable
    key = f"replay:unparsable-recorded-reply:{what}" if bad else f"replay:differs-from-recording:{what}"
    got = {"EXC": "an exception out of handle_request", "N": "silence"}.get(real_tokens[i], real_tokens[i])
    ctx.disagree(key, f"replayed reply {i}{' (pass ' + str(i // len(case['history']) + 1) + ')' if n_pass > 1 else ''} is {got} but {'silence' if rec_i is None else hx(rec_i)} was recorded"
                 + (" (a reply the client refused as malformed; the recorder kept its bytes)" if bad else "") + " - client and server agree on the state along the history",
                 case, impl=real_tokens[: i + 1], model=recorded_tokens[: i + 1], spec_violated=True, site="DBUDSServer.respond_after_default")


def _rerecord_db(ctx, case):
    """record every run of `case` ({"runs": [{url, name, pre, post, history}], "selector": [name, props], "target": i}) with the real recorder
    and the real DBHandler property calls against scripted ECUs into a fresh database, replay the target run's requests through the real
    DBUDSServer with the selector: (recorded tokens of the target run, replayed tokens, the model says the presupposition holds for it)"""
    from lib import c12scen as sc

    with tempfile.TemporaryDirectory(prefix="verif-c12-") as td:
        dbp = Path(td) / "case.sqlite"
        named, recs = [], []
        for d in case["runs"]:
            hist = [(bytes.fromhex(p), None if r is None else bytes.fromhex(r)) for p, r in d["history"]]
            rec, _ = vrun(sc.record_run(dbp, d["url"], ScriptECU(hist), [("pdu", p) for p, _ in hist],
                                        pre=sc.NOT_CALLED if d["pre"] is None else d["pre"], post=sc.NOT_CALLED if d["post"] is None else d["post"]))
            named.append((rec["run"], d["url"], d["name"], None))
            recs.append(rec)
        sc.name_runs(dbp, named)
        tgt = recs[case["target"]]
        real, _ = vrun(sc.replay_trace(dbp, case["selector"][0], case["selector"][1], [(0, p) for p, _, _ in tgt["calls"]]))
        cols = sc.run_columns(dbp)
    th = case["runs"][case["target"]]["history"]
    la = ctx.lean(["agree " + ";".join(f"{p if p else '-'}:{r if r is not None else 'N'}" for p, r in th)])[0] if th else "1 final=1/n "
    recorded = ["N" if r is None else hx(r) for _, r, _ in tgt["calls"]]
    return recorded, [t.split("~")[0] for t in real], la.split(" ")[0] == "1", [cols[r["run"]] for r in recs]


def _shrink_db(ctx, case):
    """smallest database (target history cut after the first difference, other runs dropped, single exchanges dropped - fixed order) that still
    replays the target run differently from its recording while client and server agree on the state along it"""
    def fails(c):
        recorded, real, agree, cols = _rerecord_db(ctx, c)
        i = _first_diff(recorded, real)
        return (i, _what(real[i]), recorded, real, cols) if agree and i is not None else None

    f = fails(case)
    if f is None:
        return None
    what = f[1]

    def with_runs(c, runs, target):
        return {**c, "runs": runs, "target": target}

    def cut(c, f):
        runs = [dict(d) for d in c["runs"]]
        runs[c["target"]]["history"] = runs[c["target"]]["history"][: f[0] + 1]
        return with_runs(c, runs, c["target"])

    cand = cut(case, f)
    g = fails(cand)
    if g is not None and g[1] == what:
        case, f = cand, g
    k = 0
    while k < len(case["runs"]):   # other runs, front to back
        if k != case["target"]:
            cand = with_runs(case, case["runs"][:k] + case["runs"][k + 1:], case["target"] - (1 if k < case["target"] else 0))
            g = fails(cand)
            if g is not None and g[1] == what:
                case, f = cut(cand, g), g
                continue
        k += 1
    budget = 40
    for ri in range(len(case["runs"])):   # single exchanges: the target's (not its last), then the others'
        k = 0
        while k < len(case["runs"][ri]["history"]) and budget > 0:
            h = case["runs"][ri]["history"]
            if (ri == case["target"] and k == len(h) - 1) or len(h) <= 1:
                break
            budget -= 1
            runs = [dict(d) for d in case["runs"]]
            runs[ri]["history"] = h[:k] + h[k + 1:]
            cand = with_runs(case, runs, case["target"])
            g = fails(cand)
            if g is not None and g[1] == what and g[0] == len(cand["runs"][cand["target"]]["history"]) - 1:
                case, f = cand, g
            else:
                k += 1
    g = fails(case)
    return (case, what, g[2][: g[0] + 1], g[3][: g[0] + 1], g[4]) if g is not None else None


def _report_spec_db(ctx, db_case, scenario, where, real_tokens, recorded_tokens):
    """a run selected by its properties is replayed differently from its recording in a database with further runs: shrink the database,
    then report it with a key that says what kind of other run the replay depends on"""
    i = _first_diff(recorded_tokens, real_tokens)
    what = _what(real_tokens[i])
    shrunk = _shrink_db(ctx, db_case)
    if shrunk is not None:
        case, what, recorded_tokens, real_tokens, cols = shrunk
        case = {"scenario": scenario, "shrunk": True, **case, "columns_after_recording (properties_pre, properties_post; ~: NULL)": cols}
        i = len(real_tokens) - 1
    else:
        case = {"scenario": scenario, "shrunk": False, "where": where, **db_case}
    want = case["selector"][1] or {}

    def matches(d):
        return "none" if d is None else ("match" if all(d.get(k_) == v for k_, v in want.items()) else "differ")

    others = sorted({f"pre-{matches(d['pre'])}/post-{matches(d['post'])}" for n_, d in enumerate(case["runs"]) if n_ != case["target"]})
    tgt = case["runs"][case["target"]]
    rec_i = tgt["history"][i][1] if i < len(tgt["history"]) else None
    got = {"EXC": "an exception out of handle_request", "N": "silence"}.get(real_tokens[i], real_tokens[i])
    key = f"replay:selected-by-properties:differs-from-recording:{what}:other-runs[{','.join(others) or 'none'}]"
    ctx.disagree(key, f"selected by {'ECU name ' + case['selector'][0] + ' and ' if case['selector'][0] else ''}properties {json.dumps(want)}: replayed reply {i} of run {case['target'] + 1} "
                 f"(the only run whose pre-properties match) is {got} but {'silence' if rec_i is None else rec_i} was recorded; the database also holds "
                 f"{len(case['runs']) - 1} other run(s) [{', '.join(others)} the selector] - client and server agree on the state along the history",
                 case, impl=real_tokens[: i + 1], model=recorded_tokens[: i + 1], spec_violated=True, site="DBHandler.complete_scan_run / insert_scan_run_properties_pre -> DBUDSServer.respond_after_default (selector)")


def _scenarios(ctx, td):
    """databases with several recordings of one ECU, refused replies, cancelled calls, OEM state keys, pauses, a table of state objects
    (harness/lib/c12scen.py) - replayed through the real server with state and cursor read after every request, and through `serve`"""
    from lib import c12scen as sc

    rng = ctx.rng
    n_sc = ctx.pick(105, 560)
    kinds = ["identical-runs", "same-requests", "other-requests", "refused-replies", "cancelled-calls", "oem-state", "pauses", "restarted-scan", "property-sets"]
    jobs = []   # one per replay: dict(scenario, line, real, spec=(hist, recorded tokens)|None, runs_in_db, where)
    replies_seen = set()

    def table_plan(n, boot, good_keys=True):
        plan = _gen_table_history(rng, TableECU(boot), n)
        if chatty[0]:  # ask to suppress the positive response now and then: this ECU answers anyway
            plan = [("pdu", bytes([it[1][0], it[1][1] | 0x80])) if it[0] == "pdu" and len(it[1]) == 2 and it[1][0] in (0x10, 0x3E) and rng.random() < 0.4 else it
                    for it in plan]
        return plan if good_keys else [(("key", it[1], False) if it[0] == "key" else it) for it in plan]

    def table_ecu(boot, ctr0=0):
        e = TableECU(boot, chatty=chatty[0])
        e.ctr = ctr0
        return e

    chatty = [False]

    # the synthetic table of state objects, every server-side key set
    dbp = Path(td) / "state-table.sqlite"
    run_id, _ = vrun(sc.state_table_db(dbp))
    sc.name_runs(dbp, [(run_id, "fake://table", "TAB", {})])
    runs_txt, rows_txt, _ = sc.db_for_model(dbp)
    for scenario, xs, reqs in sc.state_table_cases():
        real, _ = vrun(sc.replay_trace(dbp, "TAB", None, reqs, xs))
        jobs.append({"scenario": scenario, "line": sc.serve_line("TAB", None, xs, runs_txt, rows_txt, reqs), "real": real, "spec": None,
                     "runs_in_db": 1, "where": f"server state keys {sorted((xs or {}).keys())}"})
        ctx.kind("scenario:state-table")
    ctx.exhaustive_parts.append(f"{len(sc.STATE_OBJECTS)} logged state objects (missing / further keys, other key order, text / bool / null / negative / list / object "
                                "values) x 6 server-side key sets x 3 server states, matched through the real WHERE clause")

    for si in range(n_sc):
        scenario = kinds[si % len(kinds)]
        dbp = Path(td) / f"sc{si}.sqlite"
        boot = rng.choice([0, 1, 2])
        n = rng.randint(6, ctx.pick(18, 30))
        chatty[0] = rng.random() < 0.3
        if chatty[0]:
            ctx.kind("scenario-ecu:answers-suppressed-requests")
        named, recs = [], []

        def rec(url, name, ecufn, steps, oem=False, vin="VIN0"):
            r, _ = vrun(sc.record_run(dbp, url, ecufn, steps, oem=oem))
            named.append((r["run"], url, name, {"vin": vin, "hw": 7}))
            recs.append(r)
            return r

        def bystander():
            if rng.random() < 0.5:  # a run of another ECU in between: ids of one ECU's recordings are not consecutive
                rec(f"fake://other{len(recs)}", "OTHER", table_ecu(0, 7), table_plan(rng.randint(3, 8), 0), vin="VINX")

        replays = []   # (run record for the spec or None, [(gap, pdu)], xs, where[, selector])
        forced_sel, db_case = None, None
        if scenario == "property-sets":
            # 2-4 runs of ECUs of one family (same services, other data), their property columns written only by the real DBHandler calls:
            # insert_scan_run, insert_scan_run_properties_pre (or not: the write failed / was skipped), complete_scan_run (or not)
            full = {"vin": "VIN0", "hw": 7, "sw": "2.0"}
            want = rng.choice([{"sw": "2.0"}, {"vin": "VIN0"}, {"vin": "VIN0", "hw": 7}, {"hw": 7, "sw": "2.0"}, dict(full)])
            forced_sel = (rng.choice([None, None, "ECU0"]), want)
            k = rng.choice([2, 3, 4])
            t = rng.randrange(k)
            plan = table_plan(n, boot)

            def differing():
                d, must = dict(full), rng.choice(sorted(want))
                for key in full:
                    if key == must or rng.random() < 0.3:
                        d[key] = {"vin": f"VIN{rng.randint(1, 3)}", "hw": rng.choice([6, 8]), "sw": rng.choice(["1.0", "2.1", None])}[key]
                return d

            described = []
            for j in range(k):
                if j == t:
                    url, name, ecufn, steps = "fake://ecu0", "ECU0", table_ecu(boot, 0), plan
                    pre, post = dict(full), rng.choice([dict(full), {**full, "sw": "2.1"}, sc.NOT_CALLED])
                else:
                    name = rng.choice(["ECU0", "OTHER"])
                    url = "fake://ecu0" if name == "ECU0" else "fake://other"
                    ecufn = sc.VariantECU(table_ecu(boot, 16 * (j + 1)), j + 1)
                    steps = plan if rng.random() < 0.7 else table_plan(rng.randint(4, n), boot)
                    shape = rng.choice(["no-pre:post-matches", "no-pre:post-matches", "no-pre:post-differs", "no-pre:not-completed",
                                        "pre-differs:post-matches", "pre-differs:post-differs"])
                    pre = sc.NOT_CALLED if shape.startswith("no-pre") else differing()
                    post = dict(full) if shape.endswith("post-matches") else (sc.NOT_CALLED if shape.endswith("not-completed") else differing())
                    ctx.kind(f"other-run:{shape}")
                r, _ = vrun(sc.record_run(dbp, url, ecufn, steps, pre=pre, post=post))
                named.append((r["run"], url, name, None))
                recs.append(r)
                described.append({"url": url, "name": name, "pre": None if pre is sc.NOT_CALLED else pre, "post": None if post is sc.NOT_CALLED else post,
                                  "history": [[hx(p) if p else "", None if a is None else hx(a)] for p, a, _ in r["calls"]]})
            # the columns the real calls left against RunCols.after
            cols = sc.run_columns(dbp)
            sel_txt = f"-/{sc.kvs(want)}"
            def call_txt(which, d):   # ECUProperties.to_json sorts the keys
                return [] if d is None else [f"{which}:{sc.kvs(dict(sorted(d.items())))}"]

            calls_txt = [";".join(call_txt("pre", d["pre"]) + call_txt("post", d["post"])) or "-" for d in described]
            for r, d, c_txt, out in zip(recs, described, calls_txt, ctx.lean([f"runcols {sel_txt} {c}" for c in calls_txt])):
                got = "/".join(cols[r["run"]])
                ctx.ev()
                if out.split(" ")[0] != got:
                    ctx.disagree(f"replay:scan-run-columns:pre-{'written' if d['pre'] is not None else 'not-written'}:{'completed' if d['post'] is not None else 'not-completed'}",
                                 f"properties_pre/properties_post of run {r['run']} after the DBHandler calls [{c_txt}] are {got}, the model says {out.split(' ')[0]} (~: NULL)",
                                 {"scenario": scenario, "calls": c_txt, "pre": d["pre"], "post": d["post"]}, impl=got, model=out.split(" ")[0], spec_violated=False,
                                 site="DBHandler.insert_scan_run_properties_pre / complete_scan_run")
            db_case = {"runs": described, "selector": [forced_sel[0], want], "target": t}
            reqs = [(0, p) for p, _, _ in recs[t]["calls"]]
            replays.append((recs[t], reqs, None, f"run {t + 1} of {k}, the only one whose pre-properties match"))
            replays.append((None, reqs, None, "selected by an absent property: also the runs without pre-properties", (None, {rng.choice(["sw", "absent"]): None})))
            replays.append((None, reqs, None, "selected by the empty property set", (forced_sel[0], {})))
        elif scenario in ("identical-runs", "same-requests"):
            k = rng.choice([2, 2, 3])
            plan = table_plan(n, boot, good_keys=scenario == "identical-runs")
            for j in range(k):
                bystander()
                rec("fake://ecu0", "ECU0", table_ecu(boot, 0 if scenario == "identical-runs" else 16 * j), plan)
            mine = [r for r, nm in zip(recs, named) if nm[2] == "ECU0"]
            reqs = [(0, p) for p, _, _ in mine[0]["calls"]]
            replays.append((mine[0], reqs, None, "first pass"))
            passes = rng.choice([2, k, k + 1])
            replays.append(((mine[0], passes) if scenario == "identical-runs" else None, reqs * passes, None, f"{passes} passes over {k} recordings"))
        elif scenario == "other-requests":
            k = rng.choice([2, 3])
            for j in range(k):
                bystander()
                rec("fake://ecu0", "ECU0", table_ecu(boot, 16 * j), table_plan(rng.randint(5, n), boot))
            mine = [r for r, nm in zip(recs, named) if nm[2] == "ECU0"]
            replays.append((mine[0], [(0, p) for p, _, _ in mine[0]["calls"]], None, "requests of the earliest recording"))
            j = rng.randrange(1, k)
            replays.append((None, [(0, p) for p, _, _ in mine[j]["calls"]], None, f"requests of recording {j + 1} of {k}"))
        elif scenario == "refused-replies":
            bystander()
            ecu = sc.MutatingECU(table_ecu(boot), rng, rng.choice([0.2, 0.4, 0.7]))
            r = rec("fake://ecu0", "ECU0", ecu, table_plan(n, boot))
            replays.append((r, [(0, p) for p, _, _ in r["calls"]], None, f"{ecu.mutated} refused replies"))
            replays.append(((r, 2), [(0, p) for p, _, _ in r["calls"]] * 2, None, f"{ecu.mutated} refused replies, two passes"))
        elif scenario == "cancelled-calls":
            steps = []
            for it in table_plan(n, boot):
                x = rng.random()
                if it[0] == "pdu" and x < 0.15:
                    steps.append(("cancel-inflight", it[1], rng.random() < 0.5))
                elif it[0] == "pdu" and x < 0.35:
                    other = rng.choice([it[1], it[1], b"\x3e\x00", b"\x22\xf1\x86"])
                    steps.append(("cancel-waiting", it[1], other))
                else:
                    steps.append(it)
            bystander()
            r = rec("fake://ecu0", "ECU0", table_ecu(boot), steps)
            replays.append((r, [(0, p) for p, _, _ in r["calls"]], None, "every call, also the ones never transmitted"))
            replays.append((None, [(0, p) for p, _, sent in r["calls"] if sent], None, "the transmitted requests only"))
        elif scenario == "oem-state":
            plan = table_plan(n, boot)
            for _ in range(rng.randint(1, 4)):
                d = rng.randrange(0x100)
                plan.insert(rng.randrange(len(plan) + 1), ("pdu", bytes([0x31, 1, 0x02, d])))
                plan.insert(rng.randrange(len(plan) + 1), ("pdu", bytes([0x2E, 0x01, d, 0x55])))
            bystander()
            r = rec("fake://ecu0", "ECU0", table_ecu(boot), plan, oem=True)
            reqs = [(0, p) for p, _, _ in r["calls"]]
            replays.append((r, reqs, None, "plain server"))
            xs = rng.choice([{"variant": None}, {"variant": "R02"}, {"boots": 0}, {"boots": 1, "variant": None}, {"written": None}])
            replays.append((None, reqs, xs, f"server state with further keys {xs}"))
        elif scenario == "restarted-scan":  # a short scan that ends where it began, sent again and again: the wrap-around query
            bystander()
            pool = [b"\x3e\x00", b"\x22\x0c\x0c", b"\x22\x10\x02", b"\x10\x01", b"\x22\xf1\x86", b"\x19\x02\xff", b"\x11\x01", b"\x10\x03"]
            plan = [("pdu", rng.choice(pool)) for _ in range(rng.choice([1, 1, 2, 3, 4]))]
            if rng.random() < 0.5:
                plan.append(("pdu", b"\x10\x01"))
            r = rec("fake://ecu0", "ECU0", table_ecu(0), plan)
            passes = rng.choice([2, 3])
            replays.append(((r, passes), [(0, p) for p, _, _ in r["calls"]] * passes, None, f"{passes} passes over a recording of {len(r['calls'])} exchanges"))
        else:  # pauses
            bystander()
            r = rec("fake://ecu0", "ECU0", table_ecu(boot), table_plan(n, boot))
            replays.append((None, [(rng.choice(sc.GAPS_MS), p) for p, _, _ in r["calls"]], None, "pauses between the requests"))
        sc.name_runs(dbp, named)
        runs_txt, rows_txt, per_run = sc.db_for_model(dbp)
        # the recorder wrote one row per call, in completion order
        for r in recs:
            got = [(q, a) for _, q, a in per_run.get(r["run"], [])]
            want = [(hx(p) if p else "", None if a is None else hx(a)) for p, a, _ in r["calls"]]
            if got != want:
                ctx.disagree(f"replay:recorded-rows:{scenario}", f"the rows of run {r['run']} are not the completed calls in completion order: {got[:6]} vs {want[:6]}",
                             {"scenario": scenario, "calls": want}, impl=got, model=want, spec_violated=False, site="ECU._request / DBHandler")
            for _, a, _ in r["calls"]:
                if a is not None:
                    replies_seen.add(hx(a))
        sel0 = rng.choice([("ECU0", None), (None, {"vin": "VIN0"}), ("ECU0", {"vin": "VIN0", "hw": 7}), ("ECU0", {"absent": None})])
        if forced_sel is not None:
            sel0 = forced_sel
        for spec_run, reqs, xs, where, *own_sel in replays:
            sel_name, sel_props = own_sel[0] if own_sel else sel0
            real, _ = vrun(sc.replay_trace(dbp, sel_name, sel_props, reqs, xs))
            spec = None
            if spec_run is not None:
                spec_run, n_pass = spec_run if isinstance(spec_run, tuple) else (spec_run, 1)
                hist = [(p, a) for p, a, _ in spec_run["calls"]]
                spec = (hist, ["N" if a is None else hx(a) for _, a in hist], n_pass)
            jobs.append({"scenario": scenario, "line": sc.serve_line(sel_name, sel_props, xs, runs_txt, rows_txt, reqs), "real": real, "spec": spec,
                         "runs_in_db": len(recs), "where": where, "db_case": db_case if spec is not None else None})
            ctx.ev()
            ctx.kind(f"scenario:{scenario}")
            ctx.nontrivial((scenario, rows_txt, tuple(reqs), str(xs)))
    return jobs, replies_seen


def _judge_scenarios(ctx, jobs, replies_seen):
    from gallia.services.uds.core import service

    # every recorded reply: the model's reading (classify, C02's decoder, re-serialisation) against the real parser
    replies = sorted(replies_seen)
    unparsable = set()
    for b, out in zip(replies, ctx.lean([f"kind {b}" for b in replies])):
        k_cls, k_obj, how, pdu, _ = out.split(" ")
        raw = bytes.fromhex(b)
        try:
            obj = service.UDSResponse.parse_dynamic(raw)
            real_how, real_pdu = "typed", hx(obj.pdu)
        except Exception:
            real_how, real_pdu = "raw", b
            unparsable.add(b)
        real_kind = _kind_of_real(raw)
        ctx.ev()
        if (k_cls, k_obj, how, pdu) != (real_kind, real_kind, real_how, real_pdu):
            ctx.disagree(f"replay:parse-recorded:{real_kind.rstrip('0123456789:')}:{real_how}", f"recorded reply {b}: the real parser gives {real_kind}/{real_how}/{real_pdu}, "
                         f"the model classify={k_cls} object={k_obj} {how} {pdu}", {"reply": b}, impl=[real_kind, real_how, real_pdu], model=[k_cls, k_obj, how, pdu],
                         spec_violated=False, site="UDSResponse.parse_dynamic / DBUDSServer.respond_after_default")
    ctx.kind(*["recorded-reply:" + ("unparsable" if b in unparsable else "parses") for b in replies])
    model_out = ctx.lean([j["line"] for j in jobs])
    agree_out = ctx.lean(["agree " + ";".join(f"{hx(p) if p else '-'}:{hx(r) if r is not None else 'N'}" for p, r in j["spec"][0]) if j["spec"] and j["spec"][0] else "agree -"
                          for j in jobs])
    n_spec = 0
    for j, mo, la in zip(jobs, model_out, agree_out):
        real = j["real"]
        model = mo.split(",") if mo and mo != "bad-op" else []
        real_r = [t.split("~")[0] for t in real]
        if j["spec"] is not None and la.split(" ")[0] == "1" and (j["spec"][2] == 1 or " final=1/n " in la):
            # the presupposition holds; further passes count when the recording ends in the default state (a scan that is started again)
            hist, recorded, n_pass = j["spec"]
            n_spec += 1
            if real_r[: len(recorded) * n_pass] != recorded * n_pass and j.get("db_case"):
                _report_spec_db(ctx, j["db_case"], j["scenario"], j["where"], real_r, recorded)
                continue
            if real_r[: len(recorded) * n_pass] != recorded * n_pass:
                _report_spec(ctx, hist, j["where"], j["scenario"], j["runs_in_db"], real_r, recorded * n_pass, unparsable, n_pass)
                continue
        if mo == "bad-op" or real != model:
            i = _first_diff(real, model)
            i = 0 if i is None else i
            ctx.disagree(f"replay:model-vs-code:{j['scenario']}", f"real server and model differ at request {i} ({j['where']}): reply~state@cursor {real[i] if i < len(real) else '?'} vs "
                         f"{model[i] if i < len(model) else mo[:80]}", {"scenario": j["scenario"], "where": j["where"], "line": j["line"][:4000], "index": i},
                         impl=real[: i + 1], model=model[: i + 1], spec_violated=False, site="DBUDSServer.respond_after_default / UDSServer.respond / handle_request")
    ctx.notes["scenario_replays"] = len(jobs)
    ctx.notes["scenario_replays_checked_against_the_recording"] = n_spec
    ctx.traces_validated += len(jobs)
    if jobs:
        j = jobs[-1]
        ctx.sample({"scenario": j["scenario"], "where": j["where"], "replayed (reply~session/level@cursor)": j["real"][:10]})


def run(ctx):
    setup_repo_import()
    import gallia.command  # noqa: F401
    patch_aiosqlite()
    rng = ctx.rng
    ctx.rule = ("one case = (database with 1..3 recorded runs of distinct ECUs, selector kind, recorded history replayed); histories of "
                "8..40 exchanges over session changes, seed/key pairs, resets, reads/writes/routines, suppressed and repeated requests "
                "against RandomUDSServer seeds and against a deterministic table ECU with state-dependent data (unlock then re-enter the active session, "
                "boot polling where the same request is first unanswered and later answered); the state logged per row is compared with the "
                "model's client state-tracking rule; distinct = distinct (rows, request sequence); non-trivial = history contains a state change; "
                "scenario databases (harness/lib/c12scen.py): one case = (database with 2-3 recordings of one ECU / refused replies / cancelled calls / OEM state keys / pauses / a short scan sent several times, "
                "selector, request sequence, server-side state keys), compared reply~state@cursor per request; `property-sets`: 2-4 runs x (pre-properties written / not) x (completed with matching / differing post-properties / not completed), "
                "recorded through the real DBHandler calls, selected by 1-3 property values (+ ECU name), by an absent property and by the empty set")
    n_db = ctx.pick(70, 400)
    lines_replay, lines_agree, lines_db, meta = [], [], [], []
    with tempfile.TemporaryDirectory(prefix="verif-c12-") as td:
        for di in range(n_db):
            dbp = Path(td) / f"db{di}.sqlite"
            n_runs = rng.choice([1, 1, 2, 3])
            recs = []
            for ri in range(n_runs):
                seed = rng.randrange(1 << 30)
                n = rng.randint(8, ctx.pick(28, 40))
                url = f"fake://ecu{ri}"
                if rng.random() < 0.5:
                    boot = rng.choice([0, 1, 2, 3])
                    (run_id, hist), _ = vrun(_record(dbp, url, seed, lambda srv, n=n: _gen_table_history(rng, srv, n), table_boot=boot))
                    ctx.kind("ecu:table")
                else:
                    (run_id, hist), _ = vrun(_record(dbp, url, seed, lambda srv, n=n: _gen_history(rng, srv, n)))
                    ctx.kind("ecu:RandomUDSServer")
                recs.append((run_id, url, hist))
            # names / properties written the way a user (or an OEM ECU class) would
            c = sqlite3.connect(dbp)
            for ri, (run_id, url, hist) in enumerate(recs):
                c.execute("INSERT INTO ecu(name) VALUES(?)", (f"ECU{ri}",))
                eid = c.execute("SELECT last_insert_rowid()").fetchone()[0]
                c.execute("UPDATE address SET ecu=? WHERE url=?", (eid, url))
                c.execute("UPDATE scan_run SET properties_pre=? WHERE id=?", (json.dumps({"vin": f"VIN{ri}", "hw": 7}), run_id))
            c.commit()
            c.close()
            for ri, (run_id, url, hist) in enumerate(recs):
                modes = [("name", f"ECU{ri}", None), ("props", None, {"vin": f"VIN{ri}"}), ("name+props", f"ECU{ri}", {"vin": f"VIN{ri}", "hw": 7}),
                         ("name+null-prop", f"ECU{ri}", {"absent": None}), ("props-int+str", None, {"hw": 7, "vin": f"VIN{ri}"})]
                if n_runs == 1:
                    modes.append(("none", None, None))
                    modes.append(("props-shared", None, {"hw": 7}))
                if rng.random() < 0.12:  # selectors that match nothing, or several ECUs at once (model vs code only)
                    modes = [("name-unknown", "NOSUCH", None), ("props-wrong-value", None, {"vin": "VIN-none"}), ("props-wrong-type", None, {"hw": "7"}),
                             ("props-null-vs-present", None, {"vin": None}), ("props-shared-many", None, {"hw": 7}), ("empty-props", None, {})]
                mode, name, props = rng.choice(modes)
                reqs = [p for p, _ in hist]
                if rng.random() < 0.35:
                    reqs = reqs + reqs[: rng.randint(1, len(reqs))]  # second pass: exercises the wrap-around query (model vs code only)
                real, _ = vrun(_replay(dbp, name, props, reqs))
                rows = _rows_for(dbp, name, props)
                lines_replay.append("replay " + ";".join(rows) + " | " + ",".join(hx(p) for p in reqs))
                dbline, _ = _db_line(dbp, name, props, reqs)
                lines_db.append(dbline)
                lines_agree.append("agree " + ";".join(f"{hx(p)}:{hx(r) if r is not None else 'N'}" for p, r in hist))
                meta.append({"db": di, "run": ri, "mode": mode, "hist": hist, "real": real, "n_runs": n_runs,
                             "logged": _logged_states(dbp, run_id)})
                ctx.ev()
                ctx.kind(f"runs={n_runs}", f"select:{mode}")
        jobs, replies_seen = _scenarios(ctx, Path(td))
    out_r = ctx.lean(lines_replay)
    out_a = ctx.lean(lines_agree)
    out_d = ctx.lean(lines_db)
    n_agree = n_disagree_presup = 0
    for m, lr, la, ld, line in zip(meta, out_r, out_a, out_d, lines_replay):
        hist, real = m["hist"], m["real"]
        single = m["mode"] in ("name", "props", "name+props", "name+null-prop", "props-int+str", "none", "props-shared")
        real_s = ["EXC" if isinstance(r, tuple) else ("N" if r is None else hx(r)) for r in real]
        model_s = lr.split(",") if lr else []
        recorded_s = ["N" if r is None else hx(r) for _, r in hist]
        agree = la.split(" ")[0] == "1"
        kinds_model = la.split("kinds=")[1].split(",") if "kinds=" in la else []
        kinds_real = ["none" if r is None else _kind_of_real(r) for _, r in hist]
        ctx.nontrivial((line,))
        if any(k.startswith(("dsc", "sa", "reset")) for k in kinds_real):
            ctx.kind("history-with-state-change")
        if any(k in ("sa2", "sa4") for k in kinds_real):
            ctx.kind("history-with-unlock")
        seen_silent = set()
        for (p_, r_) in hist:
            if r_ is None:
                seen_silent.add(p_)
            elif p_ in seen_silent:
                ctx.kind("history-with-request-first-unanswered-then-answered")
                break
        case = {"selector": m["mode"], "runs_in_db": m["n_runs"], "history": [[hx(p), None if r is None else hx(r)] for p, r in hist]}
        if kinds_model != kinds_real:
            i = next(k for k in range(len(kinds_real)) if k >= len(kinds_model) or kinds_model[k] != kinds_real[k])
            ctx.disagree(f"replay:classify:{kinds_real[i].rstrip('0123456789:')}", f"reply {recorded_s[i]} is classified {kinds_real[i]} by the real parser, {kinds_model[i] if i < len(kinds_model) else '?'} by the model",
                         case, impl=kinds_real, model=kinds_model, spec_violated=False, site="UDSServer.update_state / ECU.update_state")
            continue
        client_model = la.split("client=")[1].split(" ")[0].split(",") if "client=" in la and hist else []
        if client_model != m["logged"]:
            i = next((k for k in range(min(len(client_model), len(m["logged"]))) if client_model[k] != m["logged"][k]), 0)
            ctx.disagree(f"replay:logged-state:after-{kinds_real[i - 1].rstrip('0123456789:') if i else 'start'}",
                         f"state logged for exchange {i} is {m['logged'][i] if i < len(m['logged']) else '?'}, the client state-tracking rule gives "
                         f"{client_model[i] if i < len(client_model) else '?'} (session/security level before the request)",
                         {**case, "index": i}, impl=m["logged"], model=client_model, spec_violated=False, site="ECU.update_state")
        model_db = ld.split(" sel=")[0].split(",") if ld.split(" sel=")[0] else []
        if ld == "bad-op" or model_db != model_s:
            ctx.disagree(f"replay:selector:{m['mode']}", f"the model's own reading of the selector (ECU name / properties WHERE clause) gives another replay than the rows "
                         f"selected with plain SQL: {ld[:120]} vs {lr[:120]}", case, impl=model_s, model=model_db, spec_violated=False, site="DBUDSServer.respond_after_default (selector)")
            continue
        if agree and single:
            n_agree += 1
            if real_s[: len(recorded_s)] != recorded_s:
                _report_spec(ctx, hist, f"selector {m['mode']}", "one-recording-per-ecu", m["n_runs"], real_s, recorded_s, set())
                continue
        elif single:
            n_disagree_presup += 1
        if real_s != model_s:
            i = next((k for k in range(min(len(real_s), len(model_s))) if real_s[k] != model_s[k]), 0)
            ctx.disagree("replay:model-vs-code", f"real replay and model replay differ at exchange {i}: {real_s[i]} vs {model_s[i] if i < len(model_s) else '?'}",
                         {**case, "index": i}, impl=real_s, model=model_s, spec_violated=False, site="DBUDSServer.respond_after_default")
    ctx.notes["histories_where_presupposition_holds"] = n_agree
    ctx.notes["histories_where_client_and_server_state_tracking_diverge"] = n_disagree_presup
    ctx.traces_validated += len(meta)
    _judge_scenarios(ctx, jobs, replies_seen)
    if meta:
        m = meta[0]
        ctx.sample({"selector": m["mode"], "runs_in_db": m["n_runs"], "history": [[hx(p), None if r is None else hx(r)] for p, r in m["hist"]][:12],
                    "replayed": ["EXC" if isinstance(r, tuple) else (None if r is None else hx(r)) for r in m["real"]][:12]})


def replay(ctx, payload):
    """re-run one recorded failing input: record the history with the real recorder against a scripted ECU, replay it (`passes` times) through
    the real DBUDSServer, print what was recorded, what is replayed and what the model says; 1 when the replay differs from the recording"""
    setup_repo_import()
    import gallia.command  # noqa: F401
    patch_aiosqlite()
    case = payload.get("case") or {}
    if "runs" in case and "target" in case:
        recorded, real, ok, cols = _rerecord_db(ctx, case)
        for n_, (d, c) in enumerate(zip(case["runs"], cols)):
            print(f"run {n_ + 1}{' (selected)' if n_ == case['target'] else ''}: {d['url']} ECU {d['name']}; insert_scan_run_properties_pre: {json.dumps(d['pre']) if d['pre'] is not None else 'not called'}; "
                  f"complete_scan_run: {json.dumps(d['post']) if d['post'] is not None else 'not called'}")
            print("   exchanges:", " ".join(f"{p}->{r}" for p, r in d["history"]))
        print("selector : ecu =", case["selector"][0], " properties =", json.dumps(case["selector"][1]))
        print("recorded :", " ".join(recorded))
        print("replayed :", " ".join(real))
        print("presupposition (client and server agree on the state along the selected run's history):", ok)
        differs = real[: len(recorded)] != recorded
        print("replay differs from the recording" if differs else "replay equals the recording")
        return int(differs and ok)
    if "history" not in case:
        print(json.dumps(payload, indent=1)[:6000])
        print("this replay file names a correspondence that no longer checks; it carries no single history to re-run")
        return 0
    hist = [(bytes.fromhex(p), None if r is None else bytes.fromhex(r)) for p, r in case["history"]]
    n_pass = int(case.get("passes", 1))
    recorded, real, ok = _rerecord_and_replay(ctx, hist, n_pass, oem="recorder" in case)
    print("requests :", " ".join(hx(p) for p, _ in hist), f"(x{n_pass})" if n_pass > 1 else "")
    print("recorded :", " ".join(recorded))
    print("replayed :", " ".join(real))
    print("presupposition (client and server agree on the state along the history" + (", recording ends in the default state" if n_pass > 1 else "") + "):", ok)
    differs = real[: len(recorded)] != recorded
    print("replay differs from the recording" if differs else "replay equals the recording")
    return int(differs and ok)


MANIFEST = {
    "level_text": ("Lean 4 theorems over an executable model of the whole replay path. Row level (`replayStep`): `replay_faithful` / `replay_faithful_db` - a recorded history on which client- and "
                   "server-side state tracking agree (the property's presupposition, decidable) is replayed exactly, whatever other ECUs / property sets / later rows the database holds; `replay_cursor_spec` - the "
                   "cursor rule in general (smallest matching id above the cursor, else smallest matching id); `replay_earliest_recording`, `replay_with_earlier_runs`, `replay_faithful_repeated_runs` - several "
                   "recordings of the same ECU: the earliest is served first, m passes go round robin through k recordings, identical recordings replay exactly; `replay_again`; `run_without_pre_properties_never_selected` / `complete_scan_run_keeps_selection` - only `insert_scan_run_properties_pre` decides "
                   "whether a property value selects a run, a run completed without pre-properties stays invisible whatever its post-properties are; `replay_skips_unsent_calls` - rows of calls "
                   "that were never transmitted. Recording side: `record_is_c11_rows` / `record_is_c11_calls` - the rows C11's recorder model leaves under every schedule / fault / cancellation are `recordDb`. "
                   "Server level (`serveStep` = handle_request -> respond -> respond_after_default -> update_state over JSON state objects, with request and reply parsed and re-serialised): `serve_is_replay` - it is the "
                   "row-level model, given C01's and C02's round trips as hypotheses (discharged in `codec_hypotheses_hold`); `update_state_class_is_classify` - the state-tracking classes are read off C02's decoder; "
                   "`state_match_keywise`; `unparsable_recorded_reply`; `served_bytes_are_recorded`; `server_tables_agree` - DBUDSServer.Behavior, the rule chain, the query tails, the cursor start, the inactivity limit and "
                   "ECUState's keys regenerated from the working tree. Tie: recording with the real ECU (+ an OEM-like subclass) + DBHandler against RandomUDSServer, a state-aware table ECU and reply-mutating / "
                   "suppress-ignoring variants into real sqlite files - 1..3 ECUs per file, 2-3 recordings of one ECU, refused replies, calls cancelled in flight or while waiting for the mutex, 2-4 runs whose property columns are written by the real DBHandler calls "
                   "(pre-properties written or not, completed or not, post-properties matching the selector or not) - and replaying through the real "
                   "DBUDSServer / UDSServerTransport.handle_request with state and cursor read after every request: model = code on every replay, code = recording whenever the presupposition holds (also on further "
                   "passes of a recording that ends in the default state)."),
    "level_note": ("Trusted: Lean kernel, sqlite/aiosqlite, the harness. C01 / C02 round trips enter as explicit hypotheses discharged from those properties' lemmas; the recorder is C11's model. The inactivity reset and the wrap-around are "
                   "modelled and tied, but a change there that no history within the property's statement can show is reported without a failing input."),
    "technique": "Lean 4 proof (induction over histories / passes with a row-selection invariant; refinement of the server-level model to the row-level model) + regenerated tables + record/replay correspondence on real sqlite databases",
    "design_ref": "DESIGN.md section 7, C12",
}
