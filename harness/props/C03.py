"""C03 - request/response matching: the real `helpers.parse_pdu` (outcome class: accepted / RequestResponseMismatch /
MalformedResponse, class of the accepted response), `raise_for_error` / `as_exception` on every accepted negative response,
the `matches()` predicates called directly (registry classes, RawPositiveResponse, the InputOutputControlByIdentifier
convenience responses) - against Model/UdsMatch.lean (`parsePdu`, `matches`, `rawPosMatches`, `convMatches`) and the
property's own classification Spec/Reply.lean (Genuine / Foreign / UndecodableSameService), which the driver prints for
every case.  Requests come from the C01 generators, replies from the C02 builders (imported, not copied)."""
import importlib
import re

from common import LEAN, hx, setup_repo_import

ID = "C03"
GENS = ["c01_registry", "c02_registry", "c03_tables"]
PROOF = "Gallia.Proofs.C03"
DRIVER = "c03"
ORACLE = True
ASSUMPTIONS = [
    "the reply and the request PDU are non-empty (transports never deliver an empty message; the client treats b'' as a closed connection)",
    "the request codec and the response codec are the C01 / C02 oracles (Model/UdsReq.lean, Model/UdsResp.lean); their own ties are checked by C01 / C02",
    "the primary identifier of DynamicallyDefineDataIdentifier is sub-function + dynamicallyDefinedDataIdentifier (compared when both sides carry one); of ReadMemoryByAddress the number of returned bytes; RequestDownload/Upload, ClearDiagnosticInformation and RequestTransferExit echo nothing",
    "multi-identifier ReadDataByIdentifier answers are attributed to the first identifier (records cannot be separated)",
    "exception *classes* compared: RequestResponseMismatch / MalformedResponse / the UnexpectedNegativeResponse subclass; messages are not",
    "client composition (Model/ClientMatch.lean): the request loop is the C04 model (Model/ClientIO.lean, its own tie is C04's); C03 defines its read events from bytes (classifyRead via parsePdu) and ties the composition by running reply streams through the real UDSClient.request; that every frame read reaches parse_pdu(raw_resp, request) is a regenerated AST fact (assignments to resp / raw_resp, shape of the ResponsePending loop)",
    "in the stream worlds writes and reconnects succeed, the transport is a scripted in-memory object (request_unsafe = write + read), time is virtual; frames the client never reads are not enumerated",
    "suggests_* / raise_for_error / raise_for_mismatch are modelled over the regenerated code lists and the regenerated NRC -> exception map; their bodies are anchored by AST text (a refactoring of the body breaks the obligation without a failing input); a NegativeResponse object with a code outside UDSErrorCodes cannot be constructed, such codes reach the helpers only as bare integers",
    "trigger_request bookkeeping is modelled as the pair (decoded reply, request) returned by parsePduBound; identity of the Python object (`is`) is checked by the harness, not expressible in the model",
]

_C01 = importlib.import_module("props.C01")
_C02 = importlib.import_module("props.C02")

SUBFN_SIDS = {0x10, 0x11, 0x19, 0x27, 0x28, 0x2C, 0x31, 0x3E, 0x85}


# ------------------------------------------------------------------------------------------------------------------
# the implementation side
# ------------------------------------------------------------------------------------------------------------------
class Impl:
    def __init__(self):
        setup_repo_import()
        from gallia.services.uds import helpers as H
        from gallia.services.uds.core import constants as C
        from gallia.services.uds.core import exception as E
        from gallia.services.uds.core import service as S

        self.H, self.C, self.E, self.S = H, C, E, S
        self.nrc_name = {int(c): c.name for c in C.UDSErrorCodes}

    def exc_check(self, req, resp):
        """raise_for_error / as_exception on an accepted negative response -> canonical text"""
        E, H = self.E, self.H
        code = int(resp.response_code)
        want = self.nrc_name[code][0].upper() + self.nrc_name[code][1:]
        try:
            H.raise_for_error(resp)
            return "raise_for_error:returned"
        except E.UnexpectedNegativeResponse as e:
            got = e
        except Exception as e:  # noqa: BLE001
            return f"raise_for_error:{type(e).__name__}"
        try:
            e2 = H.as_exception(resp)
        except Exception as e:  # noqa: BLE001
            return f"as_exception:{type(e).__name__}"
        if type(e2) is not type(got):
            return "as_exception:other-class"
        if int(type(got).RESPONSE_CODE) != code:
            return f"class-code:{int(type(got).RESPONSE_CODE):02x}"
        if got.request is not req or got.response is not resp:
            return "exception-not-bound-to-exchange"
        if type(got).__name__ != want:
            return f"class-name:{type(got).__name__}"
        return "ok"

    def parse(self, req, reply):
        """-> (outcome text, exception-check text or None)"""
        E = self.E
        try:
            r = self.H.parse_pdu(reply, req)
        except E.RequestResponseMismatch:
            return "mismatch", None
        except E.MalformedResponse:
            return "malformed", None
        except Exception as e:  # noqa: BLE001
            return f"exc:{type(e).__name__}", None
        out = f"acc:{type(r).__name__}"
        if r.trigger_request is not req:
            out += ":unbound"
        ex = None
        if isinstance(r, self.S.NegativeResponse):
            ex = self.exc_check(req, r)
        return out, ex

    def direct(self, req, reply):
        """UDSResponse.parse_dynamic(reply).matches(req) -> '1' | '0' | '-' | 'exc:..'"""
        try:
            x = self.S.UDSResponse.parse_dynamic(reply)
        except Exception:  # noqa: BLE001
            return "-"
        try:
            m = bool(x.matches(req))
        except Exception as e:  # noqa: BLE001
            return f"exc:{type(e).__name__}"
        # raise_for_mismatch is the helper built on it
        try:
            self.H.raise_for_mismatch(req, x)
            rm = True
        except self.E.RequestResponseMismatch:
            rm = False
        except Exception as e:  # noqa: BLE001
            return f"raise_for_mismatch:{type(e).__name__}"
        if rm != m:
            return "raise_for_mismatch-differs"
        return "1" if m else "0"


# ------------------------------------------------------------------------------------------------------------------
# replies
# ------------------------------------------------------------------------------------------------------------------
def be(n, k):
    return int(n).to_bytes(k, "big")


def genuine_reply(rng, S, pdu, rows_by_rsid, maxrec=12):
    """a decodable positive reply of the request's service that echoes the request's primary identifier, built from the
    request *bytes* by the ISO positions (independent of the matcher); None when no such reply exists / is too large"""
    sid = pdu[0]
    rs = bytes([(sid + 0x40) & 0xFF])
    rec = bytes(rng.randrange(256) for _ in range(rng.choice([0, 1, 2, maxrec])))
    rec1 = rec or b"\x5a"
    q = S.UDSRequest.parse_dynamic(pdu)
    if isinstance(q, S.RawRequest):
        rows = rows_by_rsid.get(rs[0])
        if sid >= 0xC0 or rs[0] == 0x7F:
            return None
        if rows:
            return _C02.build(rng, rng.choice(rows), maxrec)[0]
        return rs + rec
    sf = pdu[1] & 0x7F if len(pdu) > 1 else 0
    if sid in (0x10, 0x27):
        return rs + bytes([sf]) + rec
    if sid == 0x11:
        return rs + bytes([sf]) + rec[:1]
    if sid in (0x28, 0x85, 0x3E):
        return rs + bytes([sf])
    if sid == 0x22:
        return rs + pdu[1:3] + rec1
    if sid == 0x23:
        n = q.memory_size
        if n == 0 or n > 300:
            return None
        return rs + bytes(rng.randrange(256) for _ in range(n))
    if sid == 0x2C:
        if len(pdu) >= 4:
            return rs + bytes([sf]) + pdu[2:4]
        return rs + bytes([sf]) + rng.choice([b"", b"\xf3\x00"])
    if sid == 0x2E:
        return rs + pdu[1:3]
    if sid == 0x3D:
        f = pdu[1]
        return rs + pdu[1:2 + (f & 0xF) + (f >> 4)]
    if sid == 0x14:
        return rs
    if sid == 0x19:
        rows = [r for r in rows_by_rsid[0x59] if r[4] == sf]
        return _C02.build(rng, rows[0], maxrec)[0]
    if sid == 0x2F:
        return rs + pdu[1:3] + rec1
    if sid == 0x31:
        return rs + bytes([sf]) + pdu[2:4] + rec
    if sid in (0x34, 0x35):
        n = rng.choice([1, 2, 4])
        return rs + bytes([n << 4]) + bytes(rng.randrange(256) for _ in range(n))
    if sid == 0x36:
        return rs + pdu[1:2] + rec
    if sid == 0x37:
        return rs + rec
    return None


def reply_set(rng, S, pdu, g, pool, nrcs, full_nrc, widen):
    """(label, reply bytes) for one request"""
    sid = pdu[0]
    out = []
    if g is not None:
        out.append(("genuine", g))
        nb = min(len(g), 8 if widen else 6)
        for bit in range(nb * 8):
            c = bytearray(g)
            c[bit // 8] ^= 1 << (bit % 8)
            out.append(("flip-first-byte" if bit < 8 else "flip-echo-or-field", bytes(c)))
        for i in range(1, min(len(g), 5)):
            c = bytearray(g)
            c[i] = (c[i] + 1) & 0xFF
            out.append(("echo-byte+1", bytes(c)))
        for k in range(1, len(g)):
            out.append(("truncated", g[:k]))
        out.append(("extended", g + b"\x00"))
        out.append(("extended", g + bytes([rng.randrange(256), rng.randrange(256)])))
        if len(g) > 1:
            c = bytearray(g)
            c[1] |= 0x80
            out.append(("reply-suppress-bit", bytes(c)))
    for lab, b in pool:
        out.append((lab, b))
    codes = range(256) if full_nrc else (rng.sample(nrcs, 4) + [0x00, 0x01, 0xAA, 0xFF, 0x26, 0x78])
    other = (sid + rng.choice([1, 0x40, 0x80, 0xC0, 0xFF])) & 0xFF
    for c in codes:
        out.append(("neg-same-sid", bytes([0x7F, sid, c])))
        out.append(("neg-other-sid", bytes([0x7F, other, c])))
    out.append(("neg-named-by-nrc-only", bytes([0x7F, other, sid])))      # the request's id in the NRC position only
    out.append(("neg-named-by-nrc-only", bytes([0x7F, sid ^ 0x01, sid])))
    out.append(("neg-nrc-is-other", bytes([0x7F, sid, other])))
    for tail in (b"", bytes([sid]), bytes([other]), bytes([sid, 0x31, 0x00]), bytes([other, 0x31, 0x00]), bytes([sid, 0xAA, 0x00])):
        out.append(("neg-bad-length", b"\x7f" + tail))
    if full_nrc:
        for s2 in range(256):
            out.append(("neg-any-sid", bytes([0x7F, s2, 0x31])))
            out.append(("neg-any-sid-unlisted", bytes([0x7F, s2, 0xAA])))
            out.append(("neg-any-sid-short", bytes([0x7F, s2])))
        if g is not None:
            for b0 in range(256):
                out.append(("any-first-byte", bytes([b0]) + g[1:]))
            if len(g) > 1:
                for b1 in range(256):
                    out.append(("any-second-byte", g[:1] + bytes([b1]) + g[2:]))
    for _ in range(3):
        out.append(("random", bytes(rng.randrange(256) for _ in range(rng.randint(1, 6)))))
    return out


def clause(req_pdu, reply):
    """which part of the property a case belongs to, from the bytes alone"""
    if reply[:1] == b"\x7f":
        if len(reply) < 2:
            return "neg-names-nothing"
        return "neg-same-service" if reply[1] == req_pdu[0] else "neg-other-service"
    return "pos-same-service" if reply[0] == req_pdu[0] + 0x40 else "pos-other-service"


def family(mout):
    return mout.split(":", 1)[1] if mout.startswith("acc:") else "undecodable" if mout == "malformed" else "any"


CLASS_OF = {"G": "acc", "F": "mismatch", "U": "malformed"}


def key_of(req_pdu, reply, iout, mout, mcls):
    fam = family(mout)
    if fam == "any" and iout.startswith("acc:"):
        fam = family(iout).split(":")[0]       # the class whose matches() let it through
    return f"parse_pdu:{mcls}:{clause(req_pdu, reply)}:{fam}:impl={iout.split(':')[0] if not iout.startswith('exc') else iout}"


# ------------------------------------------------------------------------------------------------------------------
def load_tables():
    txt = (LEAN / "Gallia" / "Gen" / "C03Tables.lean").read_text()
    codes = [int(x) for x in re.search(r"def errorCodes : List Nat := \[([^\]]*)\]", txt).group(1).split(",")]
    exc = [(int(a), n, int(c)) for a, n, c in re.findall(r'\((\d+), "(\w+)", (\d+)\)', txt)]
    echo = [(int(a), int(b)) for a, b in re.findall(r"\((\d+), (\d+)\)", re.search(r"def echoLength[^\n]*", txt).group(0))]
    return codes, exc, echo


CORPUS = [
    ("22f190", "7f22aa"), ("22f190", "7f1022"), ("22f190", "7f10"), ("00", "7f0001"), ("00", "7fc0"), ("3e00", "7f3e26"),
    ("2c01f30012340101", "6c01f301"), ("2c030000", "6c030001"), ("2c0200001101 02".replace(" ", ""), "6c020001"),
    ("2f12340201", "6f12340201"), ("1081", "5001"), ("1001", "5081"), ("190a", "5955"), ("3101ffff", "7101fffe"),
]


def requests(ctx, impl):
    """valid request objects from the C01 generators, grouped by (kind, sub-function)"""
    S = impl.S
    c01 = _C01.Impl()
    gen = _C01.Gen(ctx)
    gen.long = 200
    groups = {}
    for akind, p, label in gen.cases():
        try:
            o = c01.construct(akind, p)
            pdu = bytes(o.pdu)
        except Exception:  # noqa: BLE001
            continue
        if not pdu or len(pdu) > 260:
            continue
        k = akind
        if akind in ("dtcByMask", "dtcPlain", "routine", "iocbiConv"):
            k = f"{akind}:{p[0]}"
        groups.setdefault(k, {}).setdefault(label, []).append((o, pdu))
    per = ctx.pick(12, 60)
    out = []
    for k in sorted(groups):
        labs = groups[k]
        chosen, seen = [], set()
        order = sorted(labs)
        i = 0
        while len(chosen) < per and any(labs[l] for l in order):
            l = order[i % len(order)]
            i += 1
            if labs[l]:
                o, pdu = labs[l].pop(ctx.rng.randrange(len(labs[l])))
                if pdu not in seen:
                    seen.add(pdu)
                    chosen.append((k, o, pdu))
        out += chosen
    # raw requests: unknown services, services of the echo table without request class, typed bytes sent raw,
    # truncated typed requests (parsed as raw by the dynamic parser), extreme service ids
    rng = ctx.rng
    raws = [b"\x2a\x01\x02", b"\x24\xf1\x90", b"\x83\x01", b"\x86\x01\x02", b"\x87\x01", b"\x84\x00", b"\x3f\x01", b"\xbf\x00",
            b"\xc0\x01", b"\xff", b"\x00", b"\x3e", b"\x10", b"\x22\xf1", b"\x19\x55\x01", b"\x2c\x04\xf3\x00", b"\x31\x04\x12\x34",
            b"\x10\x01", b"\x10\x81", b"\x22\xf1\x90", b"\x3e\x00", b"\x3e\x80", b"\x31\x01\x12\x34", b"\x27\x01", b"\x36\x01\xaa", b"\x7f\x10\x11",
            b"\x3e\x01", b"\x2c\x03", b"\x2c\x83\xf3\x00"]
    for _ in range(ctx.pick(4, 30)):
        raws.append(bytes(rng.randrange(256) for _ in range(rng.choice([1, 2, 3, 5]))))
    for b in raws:
        out.append(("raw", S.RawRequest(b), b))
    return out


def shrink_reply(evaluate, req_pdu, reply, want):
    """smaller reply with the same (key) behaviour: drop tail bytes, then zero bytes"""
    cur = reply
    changed = True
    while changed:
        changed = False
        for cand in ([cur[:-1]] if len(cur) > 1 else []) + [cur[:i] + b"\x00" + cur[i + 1:] for i in range(2, len(cur)) if cur[i] != 0]:
            if cand and evaluate(req_pdu, cand) == want:
                cur = cand
                changed = True
                break
    return cur


def run(ctx):
    impl = Impl()
    S = impl.S
    rng = ctx.rng
    widen = ctx.widened
    rows = _C02.load_rows()
    codes, exc_table, echo_table = load_tables()
    rows_by_rsid = {}
    for r in rows:
        rows_by_rsid.setdefault(r[2], []).append(r)
    ctx.rule = ("one case = (request object, reply bytes) given to the real helpers.parse_pdu and to parsePdu; distinct = distinct "
                "(request PDU, reply) pairs; non-trivial = the reply is a negative response or its first byte is the request's "
                "service id + 0x40 (so the outcome is decided by the echo / decodability, not by the first byte alone)")

    # ---- 0. regenerated tables re-read against the running code (translator check) + the table obligations by execution
    live_echo = sorted((int(k), int(v)) for k, v in impl.C.UDSIsoServicesEchoLength.items())
    if live_echo != echo_table:
        ctx.disagree("table:echoLength", "regenerated echo-length table differs from the running one", {"table": echo_table},
                     impl=live_echo, model=echo_table, spec_violated=False, site="constants.UDSIsoServicesEchoLength")
    mo = ctx.lean([f"echo {s}" for s in range(256)])
    for s, m in zip(range(256), mo):
        ctx.ev()
        want = dict(live_echo).get(s)
        if m != ("none" if want is None else str(want)):
            ctx.disagree(f"table:echoLen:{s:02x}", f"echo length of service {s:#04x}", {"sid": s}, impl=want, model=m,
                         spec_violated=False, site="constants.UDSIsoServicesEchoLength")
    ctx.exhaustive_parts.append("echo-length lookup for all 256 service ids")
    live_map = impl.E.UnexpectedNegativeResponse._CONCRETE_EXCEPTIONS
    for c in sorted(int(x) for x in impl.C.UDSErrorCodes):
        ctx.ev()
        if c not in {int(k) for k in live_map if k is not None}:
            req = S.TesterPresentRequest()
            resp = S.NegativeResponse(0x3E, impl.C.UDSErrorCodes(c))
            resp.trigger_request = req
            ctx.disagree(f"raise_for_error:KeyError:nrc={c:02x}",
                         f"no exception class for response code {c:#04x} ({impl.nrc_name[c]}): raise_for_error / as_exception on the accepted reply 7f3e{c:02x} "
                         f"to 3e00 fail with {impl.exc_check(req, resp)} instead of raising the UnexpectedNegativeResponse of that code",
                         {"request": "3e00", "reply": f"7f3e{c:02x}", "op": "raise_for_error"}, impl=impl.exc_check(req, resp), model="ok",
                         spec_violated=True, site="exception.UnexpectedNegativeResponse.parse_dynamic")

    # ---- 1. parse_pdu over requests x replies
    reqs = requests(ctx, impl)
    pool_n = 2 if ctx.quick and not widen else 4
    pool = []
    for r in rows:
        if r[1] == "NegativeResponse":
            continue
        for _ in range(pool_n):
            pool.append((f"valid-reply-of:{r[1]}", _C02.build(rng, r, 8)[0]))
    pool += [("unknown-service", b"\xc3\x01"), ("unknown-service", b"\x00"), ("unknown-service", b"\x3f\x01\x02"), ("unknown-service", b"\x6a\x01\x02"),
             ("unknown-service", b"\x64\xf1\x90\x01"), ("unknown-sub-function", b"\x59\x55\x01"), ("unknown-sub-function", b"\x6c\x04\xf3\x00"),
             ("unknown-sub-function", b"\x71\x04\x12\x34"), ("unknown-sub-function", b"\x71\x7f\x12\x34")]

    cases = []      # (kind, req obj, req pdu, label, reply)
    for q, b in CORPUS:   # minimised past disagreements run first
        qb, bb = bytes.fromhex(q), bytes.fromhex(b)
        cases.append(("corpus", S.UDSRequest.parse_dynamic(qb), qb, "corpus", bb))
    seen_kind = {}
    for kind, o, pdu in reqs:
        full = seen_kind.get(kind, 0) < (3 if widen else ctx.pick(2, 4))
        seen_kind[kind] = seen_kind.get(kind, 0) + 1
        variants = [(kind, o, pdu)]
        if pdu[0] in SUBFN_SIDS and len(pdu) > 1 and kind != "raw":
            tog = bytes([pdu[0], pdu[1] ^ 0x80]) + pdu[2:]
            o2 = S.UDSRequest.parse_dynamic(tog)
            variants.append((kind + "+suppress-toggled", o2, tog))
        g = genuine_reply(rng, S, pdu, rows_by_rsid)
        rs = reply_set(rng, S, pdu, g, pool, codes, full, widen)
        for j, (vk, vo, vp) in enumerate(variants):
            for lab, b in (rs if j == 0 else [x for x in rs if x[0] in ("genuine", "echo-byte+1", "flip-echo-or-field", "truncated", "reply-suppress-bit", "unknown-sub-function")]):
                if b:
                    cases.append((vk, vo, vp, lab, b))
        if g is None and kind != "raw":
            ctx.kind("request-without-genuine-reply")
    mo = ctx.lean([f"p {hx(p)} {hx(b)}" for _, _, p, _, b in cases])
    found = {}
    neg_checked = 0
    for (kind, o, pdu, lab, b), m in zip(cases, mo):
        ctx.ev()
        mout, mcls = m.split(" ")
        iout, ex = impl.parse(o, b)
        ctx.kind("reply:" + lab.split(":")[0], "req:" + kind.split(":")[0].split("+")[0], "outcome:" + mout.split(":")[0], "class:" + mcls)
        if b[0] == 0x7F or b[0] == pdu[0] + 0x40:
            ctx.nontrivial((pdu, b))
        if CLASS_OF.get(mcls) != mout.split(":")[0]:
            ctx.disagree(f"model-vs-spec:{mcls}:{mout}", "the executable model and the executable specification disagree (theorem `trichotomy` says they cannot)",
                         {"request": hx(pdu), "reply": hx(b)}, impl=mcls, model=mout, spec_violated=False, site="Model/UdsMatch.lean")
        if lab == "genuine" and mcls != "G":
            ctx.disagree(f"builder-vs-spec:{kind.split(':')[0]}", "the ISO reply builder's genuine reply is not Genuine for the specification",
                         {"request": hx(pdu), "reply": hx(b)}, impl="genuine", model=m, spec_violated=False, site="Spec/Reply.lean")
        if iout != mout:
            k = key_of(pdu, b, iout, mout, mcls)
            sv = iout.split(":")[0] != mout.split(":")[0]
            cur = found.get(k)
            cand = (len(pdu), len(b), pdu, b, o, iout, mout, mcls, sv)
            if cur is None or cand[:4] < cur[:4]:
                found[k] = cand
        if ex is not None:
            neg_checked += 1
            if ex != "ok":
                k = f"raise_for_error:{ex.split(':')[0] if not ex.startswith(('raise_for_error', 'as_exception')) else ex.replace('raise_for_error:', '')}:nrc={b[2]:02x}"
                ctx.disagree(k, f"accepted negative reply {hx(b)} to {hx(pdu)}: raise_for_error / as_exception -> {ex} instead of raising the "
                             f"UnexpectedNegativeResponse subclass of code {b[2]:#04x}", {"request": hx(pdu), "reply": hx(b), "op": "raise_for_error"},
                             impl=ex, model="ok", spec_violated=True, site="helpers.raise_for_error / exception.UnexpectedNegativeResponse.parse_dynamic")
    ctx.traces_validated += len(cases)
    ctx.notes["requests"] = len(reqs)
    ctx.notes["request_kinds"] = len(seen_kind)
    ctx.notes["accepted_negatives_raise_checked"] = neg_checked
    ctx.exhaustive_parts.append(f"per request kind ({len(seen_kind)} kinds incl. raw): all 256 response codes x {{same, other}} named service; all 256 named "
                                "service ids with a listed / unlisted code / no code; all 256 first bytes and all 256 second bytes in front of the genuine reply; "
                                "every truncation of the genuine reply; every single-bit flip of its first 6 bytes; one valid reply of every registry class")
    for (kind, o, pdu, lab, b), m in list(zip(cases, mo))[:: max(1, len(cases) // 10)]:
        ctx.sample({"request": hx(pdu), "reply": hx(b), "label": lab, "model": m, "impl": impl.parse(o, b)[0]})

    def eval_key(o):
        def f(pdu, reply):
            m = ctx.lean([f"p {hx(pdu)} {hx(reply)}"])[0]
            mout, mcls = m.split(" ")
            iout, _ = impl.parse(o, reply)
            return key_of(pdu, reply, iout, mout, mcls) if iout != mout else None
        return f

    for k, (_, _, pdu, b, o, iout, mout, mcls, sv) in sorted(found.items()):
        sb = shrink_reply(eval_key(o), pdu, b, k)
        m = ctx.lean([f"p {hx(pdu)} {hx(sb)}"])[0]
        mout, mcls = m.split(" ")
        iout, _ = impl.parse(o, sb)
        names = {"G": "genuine reply", "F": "foreign reply", "U": "undecodable reply of the right service", "-": "reply", "?": "reply"}
        ctx.disagree(k, f"parse_pdu({hx(sb)}, {type(o).__name__} {hx(pdu)}): {names[mcls]} ({clause(pdu, sb)}) -> {iout}, the property demands {mout}",
                     {"request": hx(pdu), "request_class": type(o).__name__, "reply": hx(sb), "found_as": hx(b), "op": "parse_pdu"},
                     impl=iout, model=m, spec_violated=sv, site="helpers.parse_pdu / " + (family(mout) if family(mout) not in ("any", "undecodable") else "parse_pdu") + ".matches")

    # ---- 1b. the same exchanges through UDSClient.request_unsafe (what a probe gets): sampled
    import asyncio

    loop = asyncio.new_event_loop()
    try:
        idx = list(range(len(cases)))
        rng.shuffle(idx)
        take = [i for i in idx if cases[i][4][:1] != b"\x7f" or cases[i][4][2:3] != b"\x78"][: ctx.pick(1500, 12000)]
        for i in take:
            kind, o, pdu, lab, b = cases[i]
            ctx.ev()
            ctx.kind("client-request")
            mout = mo[i].split(" ")[0]
            cout = client_outcome(impl, loop, o, b)
            if cout != mout:
                ctx.disagree(f"client:{key_of(pdu, b, cout, mout, mo[i].split(' ')[1])}",
                             f"UDSClient.request_unsafe({type(o).__name__} {hx(pdu)}) with the reply {hx(b)} ends in {cout}, the property demands {mout}",
                             {"request": hx(pdu), "request_class": type(o).__name__, "reply": hx(b), "op": "parse_pdu"}, impl=cout, model=mo[i],
                             spec_violated=cout.split(":")[0] != mout.split(":")[0], site="UDSClient.request_unsafe")
        ctx.traces_validated += len(take)
    finally:
        loop.close()

    # ---- 2. matches() called directly (no raw fallback, the constructed request object)
    dcases = []
    for kind, o, pdu in reqs:
        g = genuine_reply(rng, S, pdu, rows_by_rsid)
        rs = [b for lab, b in reply_set(rng, S, pdu, g, pool, codes, False, widen)
              if lab in ("genuine", "echo-byte+1", "flip-echo-or-field", "extended", "neg-same-sid", "neg-other-sid", "unknown-service", "unknown-sub-function")
              or lab.startswith("valid-reply-of")]
        for b in rs:
            dcases.append((kind, o, pdu, b))
    mo = ctx.lean([f"m {'1' if isinstance(o, S.RawRequest) else '0'} {hx(p)} {hx(b)}" for _, o, p, b in dcases])
    dfound = {}
    for (kind, o, pdu, b), m in zip(dcases, mo):
        ctx.ev()
        iv = impl.direct(o, b)
        ctx.kind("direct-matches")
        if iv != m:
            try:
                fam = type(S.UDSResponse.parse_dynamic(b)).__name__
            except Exception:  # noqa: BLE001
                fam = "undecodable"
            k = f"matches:{fam}:{type(o).__name__ if fam == 'InputOutputControlByIdentifierResponse' else kind.split(':')[0]}:impl={iv}:want={m}"
            cand = (len(pdu), len(b), pdu, b, o, iv, m)
            if k not in dfound or cand[:4] < dfound[k][:4]:
                dfound[k] = cand
    for k, (_, _, pdu, b, o, iv, m) in sorted(dfound.items()):
        ctx.disagree(k, f"UDSResponse.parse_dynamic({hx(b)}).matches({type(o).__name__} {hx(pdu)}) = {iv}, the matcher model says {m}",
                     {"request": hx(pdu), "request_class": type(o).__name__, "reply": hx(b), "op": "matches"}, impl=iv, model=m,
                     spec_violated=iv in ("0", "1") and m in ("0", "1"), site=k.split(":")[1] + ".matches")
    ctx.traces_validated += len(dcases)

    # ---- 3. RawPositiveResponse.matches (echo-length heuristic) directly
    rcases = []
    sids = sorted({s for s, _ in echo_table} | {0x14, 0x23, 0x34, 0x37, 0x3D, 0x84, 0x00, 0xBF, 0xC0, 0xFF, 0x3F})
    for s in sids:
        for _ in range(ctx.pick(6, 30)):
            q = bytes([s]) + bytes(rng.randrange(256) for _ in range(rng.choice([0, 1, 2, 3, 4])))
            for d in range(0, 5):
                for first in ((s + 0x40) & 0xFF, (s + 0x41) & 0xFF, s):
                    tail = bytearray(q[1:] + bytes(rng.randrange(256) for _ in range(rng.choice([0, 1, 2]))))
                    if d and d - 1 < len(tail):
                        tail[d - 1] ^= rng.choice([1, 0x80, 0xFF])
                    elif d:
                        tail = tail[: max(0, len(tail) - 1)]
                    rcases.append((q, bytes([first]) + bytes(tail)))
    mo = ctx.lean([f"r {hx(q)} {hx(b)}" for q, b in rcases])
    for (q, b), m in zip(rcases, mo):
        ctx.ev()
        ctx.kind("raw-positive-matches")
        try:
            iv = "1" if S.RawPositiveResponse(b).matches(S.RawRequest(q)) else "0"
        except Exception as e:  # noqa: BLE001
            iv = f"exc:{type(e).__name__}"
        if iv != m:
            n = dict(echo_table).get(q[0])
            ctx.disagree(f"rawpos-matches:echo={n}:impl={iv}:want={m}", f"RawPositiveResponse({hx(b)}).matches(RawRequest({hx(q)})) = {iv}, echo-length rule says {m}",
                         {"request": hx(q), "reply": hx(b), "op": "rawpos"}, impl=iv, model=m, spec_violated=True, site="RawPositiveResponse.matches")
    ctx.traces_validated += len(rcases)

    # ---- 4. the InputOutputControlByIdentifier convenience responses (never returned by the dynamic parser)
    conv_resp = {0: "ReturnControlToECUResponse", 1: "ResetToDefaultResponse", 2: "FreezeCurrentStateResponse", 3: "ShortTermAdjustmentResponse"}
    conv_req = {0: "ReturnControlToECURequest", 1: "ResetToDefaultRequest", 2: "FreezeCurrentStateRequest", 3: "ShortTermAdjustmentRequest"}
    ccases = []
    for k, rn in conv_resp.items():
        for qk in (None, 0, 1, 2, 3):
            for _ in range(ctx.pick(4, 20)):
                d = rng.choice([0, 1, 0xF190, 0xFFFF, rng.randrange(65536)])
                for d2 in (d, d ^ 1, d ^ 0x100, (d + 1) & 0xFFFF):
                    ccases.append((k, qk, d, d2))
    mo = ctx.lean([f"c {k} {'g' if qk is None else qk} {d} {d2}" for k, qk, d, d2 in ccases])
    for (k, qk, d, d2), m in zip(ccases, mo):
        ctx.ev()
        ctx.kind("convenience-matches")
        resp_pdu = bytes([0x6F]) + be(d, 2) + bytes([k]) + (b"\x01" if k == 3 or rng.random() < 0.5 else b"")
        try:
            resp = getattr(S, conv_resp[k]).from_pdu(resp_pdu)
            if qk is None:
                req = S.InputOutputControlByIdentifierRequest(d2, bytes([k]) + b"\x01", b"")
            elif qk == 3:
                req = S.ShortTermAdjustmentRequest(d2, b"\x01", b"")
            else:
                req = getattr(S, conv_req[qk])(d2, b"")
            iv = "1" if resp.matches(req) else "0"
        except Exception as e:  # noqa: BLE001
            iv = f"exc:{type(e).__name__}"
        if iv != m:
            ctx.disagree(f"conv-matches:{conv_resp[k]}:{'generic' if qk is None else conv_req[qk]}:{'same' if d == d2 else 'other'}-did:impl={iv}",
                         f"{conv_resp[k]}.from_pdu({hx(resp_pdu)}).matches({'InputOutputControlByIdentifierRequest' if qk is None else conv_req[qk]}(did={d2:#06x})) = {iv}, expected {m}",
                         {"k": k, "qk": qk, "rdid": d, "qdid": d2, "op": "conv"}, impl=iv, model=m, spec_violated=True, site=conv_resp[k] + ".matches")
    ctx.traces_validated += len(ccases)
    ctx.exhaustive_parts.append("all 4 convenience response classes x all 5 InputOutputControlByIdentifier request classes x {same, different} identifier")

    # ---- 5. reply streams through the real client vs the composed model; 6. the classification helpers
    run_streams(ctx, impl, rows_by_rsid)
    run_helpers(ctx, impl, pool)


# ------------------------------------------------------------------------------------------------------------------
# 5. reply STREAMS through the real UDSClient.request on a scripted transport  vs  ClientMatch.request (composed model)
# ------------------------------------------------------------------------------------------------------------------
class _Scripted:
    """transport whose k-th read returns the k-th frame of the script (`T` raises TimeoutError, `C` ConnectionError,
    b"" is returned as such: end of stream), silence (TimeoutError) afterwards; writes and reconnects succeed"""

    def __init__(self, frames):
        self.frames = frames
        self.reads = 0
        self.writes = 0

    async def write(self, data, timeout=None, tags=None):
        self.writes += 1
        return len(data)

    async def read(self, timeout=None, tags=None):
        k = self.reads
        self.reads += 1
        f = self.frames[k] if k < len(self.frames) else "T"
        if f == "T":
            raise TimeoutError()
        if f == "C":
            raise ConnectionResetError("scripted")
        return f

    async def request_unsafe(self, data, timeout=None, tags=None):
        await self.write(data, timeout, tags)
        return await self.read(timeout, tags)

    async def reconnect(self, timeout=None):
        return self

    async def close(self):
        pass


STREAM_CAP = 400   # reads per request: far above what the clean loop can do in these worlds (<= (max_retry+1) * 121 * 41 is the
                   # theoretical bound, the worlds here stay below 130); only a changed loop reaches it


async def _stream_batch(impl, jobs):
    """jobs: (request object, max_retry, frames) -> canonical outcome texts"""
    from gallia.services.uds.core.client import UDSClient, UDSRequestConfig

    E = impl.E
    out = []
    for req, mr, frames in jobs:
        tr = _Scripted(frames)
        c = UDSClient(tr, timeout=1.0, max_retry=0)
        try:
            r = await c.request(req, UDSRequestConfig(max_retry=mr))
            res = f"ret:{tr.reads - 1}:{type(r).__name__}:{1 if r.trigger_request is req else 0}"
        except E.RequestResponseMismatch:
            res = f"refused:{tr.reads - 1}:mismatch"
        except E.MalformedResponse:
            res = f"refused:{tr.reads - 1}:malformed"
        except E.MissingResponse as e:
            res = f"missing:{1 if isinstance(e.__cause__, ConnectionError) else 0}"
        except RuntimeError as e:
            res = "stuck" if "ResponsePending" in str(e) else f"exc:RuntimeError"
        except Exception as e:  # noqa: BLE001
            res = f"exc:{type(e).__name__}"
        if c.mutex.locked():
            res += ":mutex-held"
        out.append(f"{res} reads={tr.reads} writes={tr.writes}")
    return out


def stream_alphabet(ctx, impl, pdu, g, thorough):
    """per-request alphabet: symbol -> frame; built from the request bytes by position (not by the matcher)"""
    sid = pdu[0]
    other = 0x10 if sid != 0x10 else 0x22
    a = {}
    if g is not None:
        a["genuine-pos"] = g
        # foreign positive: the echoed identifier changed where the request has one, else the reply of another service
        if len(g) > 1 and sid in (0x10, 0x11, 0x22, 0x27, 0x28, 0x2E, 0x2F, 0x31, 0x36, 0x3E, 0x85, 0x19, 0x2C):
            c = bytearray(g)
            c[1] ^= 0x01
            a["foreign-pos-echo"] = bytes(c)
    a["foreign-pos-service"] = bytes([other + 0x40, 0x01]) if other == 0x10 else bytes([0x62, 0xF1, 0x90, 0x01])
    a["genuine-neg"] = bytes([0x7F, sid, 0x31])
    a["foreign-neg"] = bytes([0x7F, other, 0x31])
    a["pending-own"] = bytes([0x7F, sid, 0x78])
    a["pending-foreign"] = bytes([0x7F, other, 0x78])
    a["busy-own"] = bytes([0x7F, sid, 0x21])
    a["busy-foreign"] = bytes([0x7F, other, 0x21])
    a["undecodable-neg"] = bytes([0x7F, sid, 0xAA])
    a["silence"] = "T"
    a["eof"] = b""
    if thorough:
        a["undecodable-short"] = bytes([0x7F, sid])
        a["conn-error"] = "C"
        a["foreign-neg-nrc-is-sid"] = bytes([0x7F, other, sid])
        if g is not None and len(g) > 1 and sid in (0x22, 0x2E, 0x2F, 0x31):
            a["undecodable-pos"] = g[:2]
    return a


STREAM_REQS = [   # (kind, constructor) - typed objects, their suppress variants, typed bytes sent raw, opaque raw requests
    ("rdbi", lambda S: S.ReadDataByIdentifierRequest(0xF190)),
    ("dsc", lambda S: S.DiagnosticSessionControlRequest(0x03)),
    ("dsc+suppress", lambda S: S.DiagnosticSessionControlRequest(0x03, suppress_response=True)),
    ("routine", lambda S: S.RoutineControlRequest.parse_dynamic(bytes.fromhex("31011234aa"))),
    ("testerPresent", lambda S: S.TesterPresentRequest()),
    ("wdbi", lambda S: S.WriteDataByIdentifierRequest(0xF190, b"\x01\x02")),
    ("secAccess", lambda S: S.UDSRequest.parse_dynamic(bytes.fromhex("2701"))),
    ("transferData", lambda S: S.TransferDataRequest(0x01, b"\xaa\xbb")),
    ("iocbi", lambda S: S.UDSRequest.parse_dynamic(bytes.fromhex("2f12340301"))),
    ("raw:typed-bytes", lambda S: S.RawRequest(bytes.fromhex("22f190"))),
    ("raw:unknown-service", lambda S: S.RawRequest(bytes.fromhex("bf00"))),
    ("raw:echo-table-service", lambda S: S.RawRequest(bytes.fromhex("2a0102"))),
    ("raw:truncated-typed", lambda S: S.RawRequest(bytes.fromhex("22f1"))),
]


def _okind(txt):
    """outcome without counters: `ret:<k>:<Class>:<bound>` / `refused:<k>:<why>` / ..."""
    return txt.split(" ")[0]


def _oclass(txt):
    o = _okind(txt).split(":")
    if o[0] == "ret":
        return "ret" + ("" if o[-1] == "1" else ":unbound")
    if o[0] == "refused":
        return "refused:" + o[2]
    return ":".join(o[:1] if o[0] in ("missing", "connEscaped") else o)


def run_streams(ctx, impl, rows_by_rsid, only=None):
    """exhaustive over the per-request alphabet up to the tier's length, modulo frames nobody reads: a prefix is extended
    only when the real client or the model consumed all of it (the rest of a longer stream would never be looked at)"""
    from vloop import vrun

    S = impl.S
    thorough = not ctx.quick or ctx.widened
    maxlen = 5 if thorough else 4
    retries = (0, 1, 2) if thorough else (0, 1)
    total = 0
    found = {}
    per_kind = {}
    for kind, mk in STREAM_REQS:
        if only is not None and kind != only:
            continue
        req = mk(S)
        pdu = bytes(req.pdu)
        g = genuine_reply(ctx.rng, S, pdu, rows_by_rsid, maxrec=2)
        alpha = stream_alphabet(ctx, impl, pdu, g, thorough)
        syms = sorted(alpha)
        for mr in retries:
            bad_prefix = set()      # streams on which the two sides already differ: their extensions say nothing new
            level = [()]
            for depth in range(0, maxlen + 1):
                if not level:
                    break
                jobs = [(req, mr, [alpha[x] for x in st]) for st in level]
                iouts, _ = vrun(_stream_batch(impl, jobs))
                lines = []
                for st in level:
                    toks = ["T" if alpha[x] == "T" else "C" if alpha[x] == "C" else hx(alpha[x]) for x in st]
                    lines.append(f"s {mr} {hx(pdu)} {','.join(toks) if toks else '[]'}")
                mouts = ctx.lean(lines)
                nxt = []
                for st, io, mo in zip(level, iouts, mouts):
                    ctx.ev()
                    total += 1
                    mo3 = " ".join(mo.split(" ")[:3])
                    ctx.kind("stream:len=" + str(len(st)), "stream-outcome:" + _oclass(mo3), "stream-req:" + kind.split(":")[0])
                    if st:
                        ctx.nontrivial((pdu, mr, st))
                    if io != mo3:
                        bad_prefix.add(st)
                        if any(st[:i] in bad_prefix for i in range(len(st))):
                            continue
                        k = ("raw" if kind.startswith("raw") else "typed", _oclass(io), _oclass(mo3), _okind(io) == _okind(mo3))
                        if k not in found or len(st) < len(found[k][4]):
                            found[k] = (kind, req, pdu, mr, st, alpha, io, mo)
                    ir = int(io.split("reads=")[1].split(" ")[0])
                    mrd = int(mo3.split("reads=")[1].split(" ")[0])
                    if max(ir, mrd) > len(st) and depth < maxlen:
                        nxt += [st + (x,) for x in syms]
                level = nxt
        per_kind[kind] = len(alpha)
    for (k0, ic, mc, same_out), (kind, req, pdu, mr, st, alpha, io, mo) in sorted(found.items(), key=lambda kv: (len(kv[1][4]), kv[0])):
        frames = [alpha[x] if isinstance(alpha[x], str) else hx(alpha[x]) for x in st]
        sv = (not same_out) and (ic.startswith(("ret", "refused")) or mc.startswith(("ret", "refused")))
        ctx.disagree(f"stream:{k0}:{','.join(st)}:impl={ic}:want={mc}" + ("" if not same_out else ":counters"),
                     f"UDSClient.request({type(req).__name__} {hx(pdu)}, max_retry={mr}) on the reply stream [{', '.join(frames)}] ({', '.join(st)}; silence after): "
                     f"{io}; the composed model (C04 loop over parse_pdu's classification of every frame) says {' '.join(mo.split(' ')[:3])} ({mo.split(' ')[-1]})",
                     {"op": "stream", "kind": kind, "request": hx(pdu), "max_retry": mr, "frames": frames, "symbols": list(st)},
                     impl=io, model=mo, spec_violated=sv, site="UDSClient.request_unsafe / helpers.parse_pdu")
    ctx.traces_validated += total
    ctx.notes["streams"] = total
    ctx.notes["stream_alphabet_sizes"] = per_kind
    ctx.exhaustive_parts.append(f"reply streams through UDSClient.request: {len(per_kind)} request kinds (typed, suppress, raw) x max_retry {list(retries)} x every "
                                f"stream of length <= {maxlen} over the per-request alphabet (genuine / foreign / undecodable / own and foreign pending and busy / "
                                "silence / end of stream" + (" / ConnectionError" if thorough else "") + f"; {min(per_kind.values()) if per_kind else 0}..{max(per_kind.values()) if per_kind else 0} symbols), "
                                "modulo frames neither side reads")


# ------------------------------------------------------------------------------------------------------------------
# 6. the classification helpers on all 256 codes x response kinds
# ------------------------------------------------------------------------------------------------------------------
def impl_helpers(impl, arg, raise_too=True):
    H, E = impl.H, impl.E
    fl = ""
    for f in (H.suggests_service_not_supported, H.suggests_sub_function_not_supported, H.suggests_identifier_not_supported):
        try:
            v = f(arg)
            fl += "1" if v is True else "0" if v is False else "?"
        except Exception as e:  # noqa: BLE001
            fl += f"[{type(e).__name__}]"
    if not raise_too:
        return fl + " -"
    try:
        H.raise_for_error(arg)
        rz = "returns"
    except E.UnexpectedNegativeResponse as e:
        rz = f"raises:{type(e).__name__}:{int(type(e).RESPONSE_CODE)}"
        if e.response is not arg or e.request is not arg.trigger_request:
            rz += ":not-bound-to-exchange"
    except (ValueError, KeyError) as e:
        rz = type(e).__name__
    except Exception as e:  # noqa: BLE001
        rz = f"exc:{type(e).__name__}"
    return fl + " " + rz


def run_helpers(ctx, impl, pool):
    S, C = impl.S, impl.C
    listed = {int(c): c for c in C.UDSErrorCodes}
    cases = []
    for c in range(256):
        cases.append((f"h c {c}", c, False, ("code", c)))
        if c in listed:
            cases.append((f"h c {c}", listed[c], False, ("enum", c)))
            n = S.NegativeResponse(0x3E, listed[c])
            n.trigger_request = S.TesterPresentRequest()
            cases.append((f"h n {c}", n, True, ("neg", c)))
            n2 = S.NegativeResponse(0x3E, listed[c])
            cases.append((f"hu {c}", n2, True, ("neg-unbound", c)))
    seen = set()
    for lab, b in pool:
        if lab.startswith("valid-reply-of") and lab not in seen:
            seen.add(lab)
            try:
                x = S.UDSResponse.parse_dynamic(b)
            except Exception:  # noqa: BLE001
                continue
            x.trigger_request = S.TesterPresentRequest()
            cases.append(("h p 0", x, True, ("pos:" + type(x).__name__, 0)))
    mo = ctx.lean([c[0] for c in cases])
    hfound = {}
    for (line, arg, rz, (what, code)), m in zip(cases, mo):
        ctx.ev()
        ctx.kind("helpers:" + what.split(":")[0])
        iv = impl_helpers(impl, arg, rz)
        if line.startswith("hu"):
            iv = iv.split(" ")[1]
        if iv != m:
            fl_differs = (not line.startswith("hu")) and iv.split(" ")[0] != m.split(" ")[0]
            which = "suggests" if fl_differs else "raise_for_error"
            shape = re.sub(r"raises:\w+:\d+", "raises", iv).replace(" ", "/")
            # one report per (helper, argument kind, shape of the wrong answer): the smallest code stands for the family
            hfound.setdefault((which, what.split(":")[0], shape, m.split(" ")[0] if fl_differs else ""), (line, what, code, iv, m))
    for (which, wk, shape, mfl), (line, what, code, iv, m) in sorted(hfound.items()):
        ctx.disagree(f"helpers:{which}:{wk}:impl={shape}" + (f":want={mfl}" if mfl else ""),
                     f"{which} on {what} (code {code:#04x}): the code gives {iv}, the model over the regenerated tables {m} "
                     "(flags: suggests_service / sub_function / identifier _not_supported; then raise_for_error)",
                     {"op": "helper", "line": line, "what": what, "code": code}, impl=iv, model=m, spec_violated=True,
                     site="helpers.suggests_* / raise_for_error")
    ctx.traces_validated += len(cases)
    ctx.exhaustive_parts.append("suggests_service / sub_function / identifier _not_supported on all 256 bare codes, every UDSErrorCodes member, a bound NegativeResponse "
                                "of every listed code and one positive response of every registry class; raise_for_error on the bound / unbound negatives and the positives")


class _OneReply:
    """transport that answers every request with one scripted reply"""

    def __init__(self, reply):
        self.reply = reply
        self.sent = []

    async def request_unsafe(self, data, timeout=None, tags=None):
        self.sent.append(bytes(data))
        return self.reply

    async def write(self, data, timeout=None, tags=None):
        self.sent.append(bytes(data))
        return len(data)

    async def read(self, timeout=None, tags=None):
        raise TimeoutError()


def client_outcome(impl, loop, req, reply):
    """UDSClient.request_unsafe(req) over a transport that answers `reply` -> outcome text as Impl.parse"""
    from gallia.services.uds.core.client import UDSClient

    E = impl.E
    c = UDSClient(_OneReply(reply), timeout=1.0, max_retry=0)
    try:
        r = loop.run_until_complete(c.request_unsafe(req))
    except E.RequestResponseMismatch:
        return "mismatch"
    except E.MalformedResponse:
        return "malformed"
    except Exception as e:  # noqa: BLE001
        return f"exc:{type(e).__name__}"
    return f"acc:{type(r).__name__}" + ("" if r.trigger_request is req else ":unbound")


def replay(ctx, case):
    impl = Impl()
    S = impl.S
    c = case.get("case", case)
    op = c.get("op")
    if op in ("parse_pdu", "raise_for_error", "matches"):
        pdu, b = bytes.fromhex(c["request"]), bytes.fromhex(c["reply"])
        o = S.UDSRequest.parse_dynamic(pdu)
        if c.get("request_class") == "RawRequest":
            o = S.RawRequest(pdu)
        print("request:", hx(pdu), repr(o))
        print("reply  :", hx(b))
        m = ctx.lean([f"p {hx(pdu)} {hx(b)}"])[0]
        iout, ex = impl.parse(o, b)
        print("impl   : parse_pdu ->", iout, "" if ex is None else f"; raise_for_error/as_exception -> {ex}")
        print("model  :", m, "(outcome, class G=Genuine F=Foreign U=UndecodableSameService)")
        bad = iout != m.split(" ")[0] or (ex not in (None, "ok"))
        if op == "matches":
            mm = ctx.lean([f"m {'1' if isinstance(o, S.RawRequest) else '0'} {hx(pdu)} {hx(b)}"])[0]
            iv = impl.direct(o, b)
            print("impl   : matches ->", iv, " model:", mm)
            bad = bad or iv != mm
        print("verdict:", "differs" if bad else "agrees")
        return bad
    if op == "rawpos":
        q, b = bytes.fromhex(c["request"]), bytes.fromhex(c["reply"])
        m = ctx.lean([f"r {hx(q)} {hx(b)}"])[0]
        iv = "1" if S.RawPositiveResponse(b).matches(S.RawRequest(q)) else "0"
        print(f"RawPositiveResponse({hx(b)}).matches(RawRequest({hx(q)})): impl {iv} model {m}")
        return iv != m
    if op == "stream":
        from vloop import vrun

        req = dict(STREAM_REQS)[c["kind"]](S)
        frames = [f if f in ("T", "C") else bytes.fromhex(f) for f in c["frames"]]
        io = vrun(_stream_batch(impl, [(req, c["max_retry"], frames)]))[0][0]
        toks = [f if isinstance(f, str) else hx(f) for f in frames]
        mo = ctx.lean([f"s {c['max_retry']} {c['request']} {','.join(toks) if toks else '[]'}"])[0]
        print("request:", c["request"], repr(req), "max_retry =", c["max_retry"])
        print("stream :", ", ".join(f"{t} ({n})" for t, n in zip(toks, c.get("symbols", toks))), "then silence")
        print("impl   :", io)
        print("model  :", mo)
        bad = io != " ".join(mo.split(" ")[:3])
        print("verdict:", "differs" if bad else "agrees")
        return bad
    if op == "helper":
        print(case)
        return True
    if op == "conv":
        m = ctx.lean([f"c {c['k']} {'g' if c['qk'] is None else c['qk']} {c['rdid']} {c['qdid']}"])[0]
        print("convenience response", c, "model:", m, "impl:", case.get("impl"))
        return case.get("impl") != m
    print(case)
    return False


MANIFEST = {
    "level_text": ("Lean 4 theorems over the matcher model (parsePdu / matches over the C01 request and C02 response oracles) against a "
                   "byte-level specification of the property's vocabulary (Genuine / Foreign / UndecodableSameService): every genuine reply "
                   "is accepted, every foreign reply refused as mismatch, every undecodable reply of the right service as malformed, the "
                   "three classes partition all non-empty replies, the request's suppress bit is irrelevant, the outcome depends on the "
                   "request only through its bytes; the NRC -> exception-class map regenerated from the live module is total over the "
                   "regenerated UDSErrorCodes and consistently keyed; the echo-length table equals the regenerated one. Tied to the code by a "
                   "correspondence run of the real helpers.parse_pdu (outcome class, response class, raise_for_error / as_exception on "
                   "every accepted negative) over requests of every kind from the C01 generators x structured reply sets (exhaustive per "
                   "kind over response codes, named service ids, first / second reply byte, truncations, bit flips), plus the matches() "
                   "predicates called directly, RawPositiveResponse.matches and the convenience IOCBI responses. "
                   "Composition with the C04 request loop (Model/ClientMatch.lean): every read of UDSClient.request is classified from its bytes by "
                   "parsePdu (own 7F sid 78 = pending, 7F sid 21 = busy, foreign = mismatch, undecodable = malformed); proved for every configuration, "
                   "request and infinite world of write / read / reconnect results: whatever request() returns is the decoded Genuine frame of its last "
                   "read bound to the request (stale_never_returned), every Foreign frame read - also inside the ResponsePending loop, also 7F xx 78 / "
                   "7F xx 21 naming another service - ends the request with RequestResponseMismatch at that read (foreign_frame_ends_request, "
                   "pending_loop_refuses_foreign, only_own_pending_prolongs), undecodable frames with MalformedResponse, a genuine final frame read is "
                   "returned (genuine_final_returned). The suggests_* helpers are exactly the regenerated code lists, nested, subsets of UDSErrorCodes "
                   "(suggests_partition, suggests_exact, suggests_monotone); raise_for_error returns iff the reply is positive and raises the class the "
                   "regenerated map registers for the received code (raise_for_error_exact). Tied by exhaustive reply streams (length <= 4 quick / 5 "
                   "thorough over a 12..16-symbol per-request alphabet, 13 request kinds, max_retry 0..2) through the real UDSClient.request on a scripted "
                   "transport, and the helpers on all 256 codes x argument kinds."),
    "level_note": ("Trusted: Lean kernel (axioms propext, Quot.sound, Classical.choice), the table translator, the harness, the C01 / C02 "
                   "codec oracles (own checks), the C04 loop model (own check). Empty reply / empty request are outside the contract. Exception messages "
                   "are not compared. Regenerated from the AST: suggests_* code lists, helper bodies, every assignment to resp / raw_resp in request_unsafe, "
                   "the statements of the ResponsePending loop, the trigger_request binding of parse_pdu."),
    "technique": "Lean 4 proof (case analysis response kind x request kind over the codec oracles, big-endian lemmas, decide on regenerated tables, composition with the C04 loop through its specification ImpliedX) + differential correspondence against the real matcher, the real client on reply streams and the real helpers",
    "design_ref": "DESIGN.md section 7, C03",
}
