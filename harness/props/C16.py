"""C16 - a random virtual ECU is fully determined by its seed and arguments.

(P)  the Lean model of CPython's set for ints (Model/PySet.lean) against the real `set` of the running interpreter:
     iteration order, len and table size after every operation - exhaustively for all short add/discard sequences over
     small colliding universes and all binary operations on all pairs of small sets, sampled for random / adversarial /
     randomize-shaped programs (harness/c16_pyset.py); the default `optional_services` (a list made from a set of IntEnum
     members) is the list the model computes.
(C1) the real `RandomUDSServer.randomize` runs with `RNG` replaced by a recording subclass; the Lean model
     (Model/Randomize.lean) fed with the recorded draws and choices ALONE - the set iteration order is computed by the
     PySet model - must reproduce `server.services` exactly, consume exactly the recorded number of draws and go through
     the set orders seen in the running frame; the older oracle model fed with the recorded orders is kept as a
     cross-check; the recorded stream must be the stream of `random.Random(str(seed))` (nothing but the seed went into
     the generator); a scripted RNG enumerates every Boolean draw stream on small session universes.  The executable
     well-formedness predicate (Lean) is evaluated on the implementation's model.  Servers are built directly and
     through the real command line (parser -> RngVirtualECUConfig -> RngVirtualECU._server()); the arguments that reach
     the server must be the ones the user wrote, in that order.
(C2) transcripts (model dump + answers to a request history through `UDSServerTransport.handle_request`) of the same
     seed / arguments - given as Python values and as command-line text - from separate interpreter processes with
     different PYTHONHASHSEED, import orders, clock bases and states of the process-global `random` module (left as the fresh
     interpreter seeds it / seeded differently / advanced by different amounts; the checking process itself is two more
     environments) must be byte-identical except security-access seed bytes.  Besides the random histories the transcripts
     are model-directed: for every handler of RandomUDSServer.respond_after_default x every sub-function the model can
     offer, seeds are searched per parameter set (default / dense / mid) until some model offers it, and a second in-process
     instance of that ECU is asked for a request that reaches the positive (random-carrying) branch in that session
     (identifier and payload search guided by the negative response codes); the coverage table (positive answers per
     parameter set x handler x sub-function, recomputed from the live code on every run) is part of the evidence and a
     target without a positive answer is reported as a broken tie.
(A)  AST obligations for the request handlers (gen/c16_handlers.py -> Gen/C16Handlers.lean, theorem handler_rng_sources_agree, and
     again in the harness with the handler named): for every handler reachable from respond_after_default the RNG objects it
     creates and the expressions that seed them, the global names / server attributes it reads, the methods it calls on the
     RNG objects; the source of stateful_rng and of class RNG.
(H)  handler layer (harness/c16_htie.py): RNG is replaced by a recording subclass of itself; every call of
     respond_after_default / update_state on the histories of (C2) and on direct handler calls (all handlers x sessions x
     pending security-access states x requests whose bytes exercise str(bytes)) is replayed through Model/VEcuRng.lean with the
     recorded results as oracle: same answer bytes, same state after, same seed texts in the same order, same kinds of calls on
     every RNG object; the process-global random state is compared before / after every handler call; str(bytes) of the
     interpreter against pyBytesRepr.
"""
import json
import os
import random as _random
import struct
import subprocess
import sys
from pathlib import Path

from common import PY, REPO, setup_repo_import

import c16_transcript as T
import c16_pyset as PS
import c16_htie as HT

ID = "C16"
GENS = ["c16_tables", "c16_handlers"]
PROOF = "Gallia.Proofs.C16"
DRIVER = "c16"
ORACLE = False
ASSUMPTIONS = [
    "session ids in the mandatory/optional lists are in 0..0x7E (larger or negative ids index outside "
    "session_transitions: IndexError / wrap-around; outside the model)",
    "reachability / return-to-default are stated for configurations whose mandatory services contain "
    "DiagnosticSessionControl (the default); without it the user has asked for sessions no request can enter",
    "Model/PySet.lean transcribes CPython 3.12 Objects/setobject.c (probe sequence, freeslot, resize / merge / difference "
    "rules) for ints 0 <= n < 2^61-1, where hash(n) = n; the C source is not on this machine, so the transcription is "
    "validated against the running interpreter on every run (part P) - another interpreter with another table strategy "
    "shows up there as a broken tie; sets of other element types do not occur in randomize (the default optional_services "
    "is a set of IntEnum members whose hash is checked to be the int hash on the live enum)",
    "the two iterated sets of randomize (level_sessions, next_level_sessions) are modelled as PySets; "
    "session_transitions[i] is only measured (len), extended and sorted, and is kept as a sorted list",
    "random.Random (Mersenne Twister) seeded with a str is a function of that str; floats compared with libm pow on both sides",
    "a theorem cannot see another process: that randomize and the request handlers have no input besides (arguments, seeded "
    "streams, session state, request) is a theorem about the models (Model/Randomize, Model/VEcuRng); that the code consults "
    "nothing else is carried (a) for the handlers by the AST obligation (RNG objects, seed expressions, free names, draw calls per "
    "handler; source of stateful_rng / RNG) and the recorded-draw replay of every handler call (seed text, kinds of calls, answer "
    "bytes, state after; global random state untouched), (b) for argument parsing and module state by the cross-process "
    "transcript comparison over the listed environments (PYTHONHASHSEED, import order, clock base, state of the global random "
    "module, order of construction)",
    "handler layer: requests enter the model parsed (C01 models the parser); the default-response chain in front of the handlers "
    "is a parameter of the model (a function of offered services, session, request: C13 / C14 model it); the inactivity reset of "
    "UDSServerTransport.handle_request (reads the clock) is outside the model - the transcripts keep the clock below the timeout; "
    "`security_access_level` is written by update_state and read by no handler, so it is not part of the model state",
    "handler layer: the values a seeded random.Random returns are an oracle (rngOf : seed text -> results of the calls made so "
    "far); an unseeded RNG() (security-access seeds) is a separate fresh stream, different in every process by design; floats "
    "enter as IEEE-754 bit patterns and are compared / rounded (<= p, int(x + 0.5)) in Lean Float exactly as in CPython",
    "model-directed transcripts: the requests are found by asking a second in-process instance of the same virtual ECU; only the "
    "requests go into the history, the answers compared are those of the separately started ECUs. Every handler x sub-function "
    "is reached in some model of the searched seeds (ECUReset 0x01..0x7F, SecurityAccess 0x01..0x7E, RoutineControl 1..3, "
    "ReadDTCInformation 2, the identifier services with a positive identifier / payload), not in every model",
]

HARNESS = Path(__file__).resolve().parent.parent
N_SESS = 0x7F


# ------------------------------------------------------------------------------------------------------------
# recording / scripted RNG
# ------------------------------------------------------------------------------------------------------------
class Recorder:
    def __init__(self, script=None):
        self.ops = []  # ("r", float) | ("c", n, idx)
        self.orders = {}
        self.phase3 = False
        self.script = script  # None | {"b": [bool...], "c": [int...]}
        self.bi = 0
        self.ci = 0

    def observe_frame(self):
        if self.phase3:
            return
        f = sys._getframe(3)
        for _ in range(4):
            if f is None or f.f_code.co_name == "randomize":
                break
            f = f.f_back
        if f is None or f.f_code.co_name != "randomize":
            return
        loc = f.f_locals
        if "session_specific_transitions" in loc:
            self.phase3 = True
            return
        lvl, ls = loc.get("level"), loc.get("level_sessions")
        if isinstance(lvl, int) and isinstance(ls, (set, frozenset, list)) and lvl not in self.orders:
            self.orders[lvl] = [int(x) for x in ls]

    def on_random(self, v):
        self.ops.append(("r", v))
        self.observe_frame()


def make_rng_classes(S, base):
    class RecRNG(base):
        rec = None

        def random(self):
            r = RecRNG.rec
            if r is not None and r.script is not None:
                b = r.script["b"][r.bi] if r.bi < len(r.script["b"]) else False
                r.bi += 1
                v = 0.0 if b else 1.0 - 2.0 ** -53
            else:
                v = super().random()
            if r is not None:
                r.on_random(v)
            return v

        def getrandbits(self, k):  # keeps Random._randbelow on the getrandbits path, as for the unpatched class
            return super().getrandbits(k)

        def choice(self, seq):
            r = RecRNG.rec
            if r is not None and r.script is not None:
                c = r.script["c"][r.ci] if r.ci < len(r.script["c"]) else 0
                r.ci += 1
                x = seq[c % len(seq)]
            else:
                x = super().choice(seq)
            if r is not None:
                r.ops.append(("c", len(seq), list(seq).index(x)))
            return x

    return RecRNG


def fbits(x: float) -> int:
    return struct.unpack("<Q", struct.pack("<d", float(x)))[0]


def nats(xs):
    xs = list(xs)
    return ",".join(str(int(x)) for x in xs) if xs else "-"


class Impl:
    """the real RandomUDSServer under a recording RNG"""

    def __init__(self):
        setup_repo_import()
        import gallia.command  # noqa: F401
        import gallia.services.uds.server as S

        self.S = S
        self.base_rng = S.RNG
        self.Rec = make_rng_classes(S, S.RNG)

    def randomize(self, seed, params, script=None, argv=None):
        """-> dict(dump, services, floats, choices, orders, error); with `argv` the server is built the way the command
        line `gallia script vecu rng ...` builds it (real parser -> RngVirtualECUConfig -> RngVirtualECU._server())"""
        S = self.S
        rec = Recorder(script)
        out = {"error": None}
        try:
            if argv is not None:
                srv, _cfg = T.cli_build(argv)
                P = srv.randomness_parameters
                out["seed"] = srv.seed
            else:
                P = S.RandomUDSServer.RandomnessParameters(**params)
                srv = S.RandomUDSServer(seed, P)
            S.RNG = self.Rec
            self.Rec.rec = rec
            try:
                srv.randomize()
            finally:
                self.Rec.rec = None
                S.RNG = self.base_rng
            out["services"] = {int(s): {int(k): (None if v is None else [int(x) for x in v]) for k, v in d.items()}
                               for s, d in srv.services.items()}
            out["dump"] = T.dump_services(srv.services)
            out["P"] = P
        except Exception as e:  # noqa: BLE001
            out["error"] = type(e).__name__ + ": " + str(e)[:160]
        out["floats"] = [o[1] for o in rec.ops if o[0] == "r"]
        out["choices"] = [(o[1], o[2]) for o in rec.ops if o[0] == "c"]
        out["ops"] = rec.ops
        n_levels = (max(rec.orders) + 1) if rec.orders else 0
        out["orders"] = [rec.orders.get(i, []) for i in range(n_levels)] or [[1]]
        out["orders_seen"] = dict(rec.orders)
        return out


def reference_stream_ok(seed, ops):
    """the recorded stream must be that of random.Random seeded with str(seed) alone"""
    ref = _random.Random()
    ref.seed(str(seed))
    for i, o in enumerate(ops):
        if o[0] == "r":
            if ref.random() != o[1]:
                return i
        else:
            if ref.choice(range(o[1])) != o[2]:
                return i
    return None


def full_params(params):
    d = {"p_session": 0.05, "p_service": 0.2, "p_sub_function": 0.05}
    d.update(params)
    return d


def model_lines(P_lists, probs, orders, choices, floats=None, bools=None, impl_dump=None):
    ms, os_, msv, osv = P_lists
    lines = ["reset",
             f"params {nats(ms)} {nats(os_)} {nats(msv)} {nats(osv)}",
             f"probs {fbits(probs[0])} {fbits(probs[1])} {fbits(probs[2])}",
             "orders " + (";".join(nats(o) for o in orders) if orders else "-"),
             "choices " + nats(c[1] for c in choices)]
    if floats is not None:
        lines.append("fdraws " + nats(int(v * 2 ** 53) for v in floats))
        lines.append("run float")
        lines.append("runpy float")
    else:
        lines.append("bdraws " + ("".join("1" if b else "0" for b in bools) or "-"))
        lines.append("run bool")
        lines.append("runpy bool")
    lines.append("wf " + (impl_dump if impl_dump else "-"))
    return lines


RUN, RUNPY, WF = 6, 7, 8  # offsets of the answers inside one model_lines block


def parse_orders(text):
    return [[int(x) for x in o.split(",")] if o else [] for o in text.split(";")] if text else []


def parse_run(line):
    parts = line.split()
    d = {"dump": parts[0]}
    for p in parts[1:]:
        k, v = p.split("=")
        d[k] = v
    return d


def parse_dump(d):
    out = {}
    if d == "-":
        return out
    for e in d.split(";"):
        s, rest = e.split(":")
        sm = []
        if rest:
            for kv in rest.split(","):
                k, v = kv.split("=")
                sm.append((int(k), None if v == "N" else ([int(x) for x in v.split(".")] if v else [])))
        out[int(s)] = sm
    return out


def diff_component(a, b):
    """first differing component of two dumps, as a short label"""
    A, B = parse_dump(a), parse_dump(b)
    if sorted(A) != sorted(B):
        return "sessions"
    for s in sorted(A):
        ka, kb = [k for k, _ in A[s]], [k for k, _ in B[s]]
        if ka != kb:
            return "service-keys" if sorted(ka) != sorted(kb) else "service-order"
        for (k, va), (_, vb) in zip(A[s], B[s]):
            if va != vb:
                return f"subfns:0x{k:02x}"
    return "same"


# ------------------------------------------------------------------------------------------------------------
# configuration generators
# ------------------------------------------------------------------------------------------------------------
def all_services():
    from gallia.services.uds.core.constants import UDSIsoServices

    return [int(s) for s in UDSIsoServices]


def gen_lists(rng, ALL):
    """(mandatory_sessions, optional_sessions, mandatory_services, optional_services), incl. empty / full / dup / overlap"""
    univ = list(range(N_SESS))
    k = rng.random()
    if k < 0.15:
        ms = []
    elif k < 0.45:
        ms = [1]
    elif k < 0.55:
        ms = univ[:]
    else:
        ms = rng.sample(univ, rng.choice([1, 2, 3, 5, 12, 40]))
    k = rng.random()
    if k < 0.15:
        os_ = []
    elif k < 0.40:
        os_ = [2, 3, 4] + list(range(0x40, 0x7F))
    elif k < 0.50:
        os_ = univ[:]
    else:
        os_ = rng.sample(univ, rng.choice([1, 2, 4, 8, 20, 60]))
        if rng.random() < 0.3:
            os_ += rng.sample(os_, min(len(os_), 2))  # duplicates
        if ms and rng.random() < 0.3:
            os_ += rng.sample(ms, min(len(ms), 2))  # overlap with the mandatory list
    k = rng.random()
    if k < 0.12:
        msv = []
    elif k < 0.55:
        msv = [0x10]
    elif k < 0.65:
        msv = ALL[:]
    else:
        msv = rng.sample(ALL, rng.choice([1, 2, 4, 9]))
        if rng.random() < 0.6 and 0x10 not in msv:
            msv.insert(rng.randrange(len(msv) + 1), 0x10)
        if rng.random() < 0.2:
            msv += rng.sample(msv, 1)
    k = rng.random()
    if k < 0.15:
        osv = []
    elif k < 0.40:
        osv = None  # the class default
    elif k < 0.50:
        osv = ALL[:]
    else:
        osv = rng.sample(ALL, rng.choice([1, 3, 8, 20]))
        if rng.random() < 0.25:
            osv += rng.sample(osv, 1)
    return ms, os_, msv, osv


def gen_probs(rng):
    def p(choices):
        c = rng.choice(choices)
        return rng.random() * 1.5 if c == "u" else (10 ** rng.uniform(-4, 0) if c == "log" else c)

    return {"p_session": p([0.0, 1.0, 0.05, 0.05, 0.3, 2.5, 9.0, "u", "log"]),
            "p_service": p([0.0, 1.0, 0.2, 0.2, 0.5, "u", "log"]),
            "p_sub_function": p([0.0, 1.0, 2.0, 0.05, 0.05, 0.3, "u", "log"])}


def mk_params(lists, probs, extra=None):
    ms, os_, msv, osv = lists
    d = {"mandatory_sessions": ms, "optional_sessions": os_, "mandatory_services": msv}
    if osv is not None:
        d["optional_services"] = osv
    d.update(probs)
    if extra:
        d.update(extra)
    return d


# ------------------------------------------------------------------------------------------------------------
# command lines of `gallia script vecu rng` (the list options as TEXT, as a user types them)
# ------------------------------------------------------------------------------------------------------------
CLI_HEAD = ["script", "vecu", "rng", "unix-lines:///tmp/vecu.sock", "--no-volatile-info"]
BATS_SERVICES = ["DiagnosticSessionControl", "EcuReset", "ReadDataByIdentifier", "WriteDataByIdentifier", "RoutineControl",
                 "SecurityAccess", "ReadMemoryByAddress", "WriteMemoryByAddress", "RequestDownload", "RequestUpload",
                 "TesterPresent", "ReadDTCInformation", "ClearDiagnosticInformation", "InputOutputControlByIdentifier"]
CLI_LIST_OPTS = {"--mandatory-sessions": "mandatory_sessions", "--optional-sessions": "optional_sessions",
                 "--mandatory-services": "mandatory_services", "--optional-services": "optional_services"}


def cli_fixed():
    """tests/bats/run_bats.sh, explicit optional lists, defaults"""
    return [
        ("cli:bats", CLI_HEAD + ["--seed", "3", "--mandatory-sessions", "1", "2", "3", "--mandatory-services"] + BATS_SERVICES),
        ("cli:explicit-optionals", CLI_HEAD + ["--seed", "7", "--mandatory-sessions", "1", "3", "--optional-sessions", "0x40", "0x41",
                                               "2", "5", "0x60", "0x7e", "--optional-services", "ReadDataByIdentifier", "TesterPresent",
                                               "EcuReset", "SecurityAccess", "RoutineControl", "CommunicationControl",
                                               "--p-session", "0.5", "--p-service", "0.6", "--p-sub-function", "0.1",
                                               "--p-identifier", "0.5", "--p-correct-payload-format", "0.8"]),
        ("cli:defaults", CLI_HEAD + ["--seed", "11"]),
        ("cli:seed-0", CLI_HEAD + ["--seed", "0", "--optional-sessions", "2", "3", "--p-session", "0.6"]),
    ]


def cli_random(rng):
    from gallia.services.uds.core.constants import UDSIsoServices

    names = [s.name for s in UDSIsoServices if s.name != "NegativeResponse"]
    num = lambda x: rng.choice([str(x), hex(x), f"0x{x:02X}"])  # noqa: E731
    argv = CLI_HEAD + ["--seed", str(rng.choice([rng.randrange(100), rng.randrange(2 ** 40), 0]))]
    ms = [1] + rng.sample(range(2, 0x7F), rng.choice([1, 2, 4]))
    rng.shuffle(ms)
    argv += ["--mandatory-sessions"] + [num(x) for x in ms]
    if rng.random() < 0.8:
        os_ = rng.sample(range(2, 0x7F), rng.choice([2, 3, 6, 12]))
        argv += ["--optional-sessions"] + [num(x) for x in os_]
    msv = ["DiagnosticSessionControl"] + rng.sample([n for n in names if n != "DiagnosticSessionControl"], rng.choice([1, 3, 6]))
    rng.shuffle(msv)
    argv += ["--mandatory-services"] + msv
    if rng.random() < 0.8:
        argv += ["--optional-services"] + rng.sample(names, rng.choice([2, 4, 9]))
    argv += ["--p-session", rng.choice(["0.05", "0.3", "0.8"]), "--p-service", rng.choice(["0.2", "0.6"]),
             "--p-identifier", rng.choice(["0.005", "0.5"])]
    return ("cli:random", argv)


def cli_expected(argv):
    """what the user wrote: seed and the four lists, in the order given"""
    from gallia.services.uds.core.constants import UDSIsoServices

    out = {}
    i = 0
    while i < len(argv):
        a = argv[i]
        if a == "--seed":
            out["seed"] = int(argv[i + 1], 0)
        if a in CLI_LIST_OPTS:
            vals = []
            j = i + 1
            while j < len(argv) and not argv[j].startswith("--"):
                v = argv[j]
                vals.append(int(UDSIsoServices[v]) if v in UDSIsoServices.__members__ else int(v, 0))
                j += 1
            out[CLI_LIST_OPTS[a]] = vals
        i += 1
    return out


# ------------------------------------------------------------------------------------------------------------
# request histories for the transcript comparison
# ------------------------------------------------------------------------------------------------------------
def make_history(rng, services, max_sessions, per_session):
    sessions = sorted(services)
    if 1 not in services:
        return ["1001", "3e00", "22f186"]
    # BFS tree over DSC sub-functions
    parent = {1: None}
    queue = [1]
    while queue:
        a = queue.pop(0)
        for b in (services[a].get(0x10) or []):
            if b in services and b not in parent:
                parent[b] = a
                queue.append(b)

    def path(s):
        p = []
        while s is not None and s != 1:
            p.append(s)
            s = parent[s]
        return ["1001"] + [f"10{x:02x}" for x in reversed(p)]

    visit = [s for s in sessions if s in parent]
    if len(visit) > max_sessions:
        visit = [1] + rng.sample([s for s in visit if s != 1], max_sessions - 1)
    h = []
    rb = lambda n: bytes(rng.randrange(256) for _ in range(n)).hex()  # noqa: E731
    for s in visit:
        h += path(s)
        svcs = services[s]
        reqs = ["3e00", "3e80", "22f186", "22" + rb(2), "22" + rb(2), "107e", "10", "1085", rb(rng.randint(1, 5))]
        for sid, sfs in svcs.items():
            reqs.append(f"{sid:02x}")
            reqs.append(f"{sid:02x}" + rb(rng.randint(1, 4)))
            if sfs:
                sf = rng.choice(sfs)
                reqs.append(f"{sid:02x}{sf:02x}")
                reqs.append(f"{sid:02x}{sf | 0x80:02x}" + rb(rng.randint(0, 2)))
            if sid == 0x27 and sfs:
                for sf in [x for x in sfs if x % 2 == 1][:2]:
                    reqs += [f"27{sf:02x}", f"unlock:{sf + 1:02x}", f"27{sf:02x}", f"27{sf + 1:02x}" + rb(4), f"27{sf + 1:02x}" + rb(3)]
            if sid == 0x27 and sfs:
                # a seed request left pending, then requests whose answers must not depend on the (fresh, random) pending seed
                for sf in [x for x in sfs if x % 2 == 1][:2]:
                    follow = ["1902ff", "1902" + rb(1), "22" + rb(2), "22f186", "3101" + rb(2), "2e" + rb(2) + rb(2), "14ffffff", "1901ff", "190a",
                              "2f" + rb(2) + "03" + rb(1), "1103"]
                    for f in rng.sample(follow, 5):
                        reqs.append(f"seq:27{sf:02x}|{f}")
                    reqs.append(f"seq:27{sf:02x}|3e00|1902ff|3e00|22" + rb(2))
            if sid == 0x31:
                rid = rb(2)
                reqs += [f"3101{rid}", f"3102{rid}", f"3103{rid}", "3101" + rb(2) + rb(2), "3101" + rb(2)]
            if sid == 0x22:
                reqs += ["22" + rb(2) for _ in range(4)] + ["22" + rb(4), "22" + rb(1)]
            if sid == 0x2E:
                did = rb(2)
                reqs += [f"2e{did}" + rb(1), f"2e{did}" + rb(3), "2e" + rb(2) + rb(2)]
            if sid == 0x2F:
                reqs += ["2f" + rb(2) + "03" + rb(1), "2f" + rb(2) + "00", "2f" + rb(2) + "03" + rb(2) + rb(1)]
            if sid == 0x14:
                reqs += ["14ffffff", "14" + rb(3), "14" + rb(3)]
            if sid == 0x19:
                reqs += ["1902ff", "190208", "1902" + rb(1), "190a", "1901ff"]
            if sid == 0x11:
                reqs += ["1104"]
        rng.shuffle(reqs)
        reqs = reqs[:per_session]
        # a SendKey with a 1-2 byte key could equal a fresh seed by chance: make such keys 3 bytes
        reqs = [r + rb(3 - (len(r) // 2 - 2)) if (not r.startswith("unlock:") and r.startswith("27") and 6 <= len(r) <= 8
                                                 and int(r[2:4], 16) % 2 == 0) else r for r in reqs]
        if 0x11 in svcs:
            reqs += ["1101", "3e00", "22f186"]  # reset: back to the default session
        h += reqs
    return h


# ------------------------------------------------------------------------------------------------------------
# model-directed transcripts: requests derived from the built model that reach the positive branch of every handler
# ------------------------------------------------------------------------------------------------------------
# services RandomUDSServer.respond_after_default answers itself (everything else gets a default answer of UDSServer)
HANDLER_SIDS = {0x11: "ecu_reset", 0x27: "security_access", 0x31: "routine_control", 0x22: "read_data_by_identifier",
                0x2E: "write_data_by_identifier", 0x2F: "input_output_control_by_identifier",
                0x14: "clear_diagnostic_information", 0x19: "read_dtc_information"}
DIRECTED_PARAM_SETS = [
    # (name, RandomnessParameters, which targets are searched: "all" = every offered service x sub-function, "handlers" = HANDLER_SIDS)
    ("default", {}, "handlers"),
    ("dense", {"p_service": 1.0, "p_sub_function": 2.0, "p_identifier": 0.5, "p_correct_payload_format": 0.7, "p_dtc_status_mask": 0.5,
               "p_session": 0.4, "optional_sessions": [2, 3, 0x41, 0x60]}, "all"),
    ("mid", {"p_service": 0.6, "p_sub_function": 0.2, "p_identifier": 0.05, "p_correct_payload_format": 0.5, "p_session": 0.3}, "all"),
]


def handler_names_in_code(S):
    """the handlers respond_after_default dispatches to (read from the live source)"""
    import inspect
    import re

    src = inspect.getsource(S.RandomUDSServer.respond_after_default)
    return sorted(set(re.findall(r"return self\.(\w+)\(request\)", src)))


def session_paths(services):
    parent = {1: None}
    queue = [1]
    while queue:
        a = queue.pop(0)
        for b in (services.get(a, {}).get(0x10) or []):
            if b in services and b not in parent:
                parent[b] = a
                queue.append(b)

    def path(s):
        p = []
        while s is not None and s != 1:
            p.append(s)
            s = parent[s]
        return ["1001"] + [f"10{x:02x}" for x in reversed(p)]

    return parent, path


def item_target(item):
    """(sid, sub-function | None) a history item aims at"""
    if item.startswith("unlock:"):
        return 0x27, int(item[7:], 16)
    if item.startswith("seq:"):
        return None
    sid = int(item[:2], 16)
    return sid, (int(item[2:4], 16) & 0x7F if len(item) >= 4 else None)


class Prober:
    """a second instance of the virtual ECU inside this process, used to find - by asking the live code - requests that reach the
    positive branch of a handler in a given session of a given model.  Only the requests found go into the history; what they
    answer in the compared processes is not taken from here."""

    def __init__(self, S, seed, params, rng, cap):
        import asyncio

        self.S, self.rng, self.cap = S, rng, cap
        self.srv = S.RandomUDSServer(seed, S.RandomUDSServer.RandomnessParameters(**params))
        self.loop = asyncio.new_event_loop()
        S.time = T.Clock(0.0)
        self.loop.run_until_complete(self.srv.setup())
        from gallia.transports import TargetURI

        self.tr = S.UDSServerTransport(self.srv, TargetURI("tcp://127.0.0.1:1"))
        self.services = {int(s): {int(k): (None if v is None else [int(x) for x in v]) for k, v in d.items()}
                         for s, d in self.srv.services.items()}
        self.parent, self.path = session_paths(self.services)
        self.sent = 0

    def close(self):
        self.loop.close()

    def ask(self, item):
        self.sent += 1
        try:
            return self.loop.run_until_complete(T._run_history(self.S, self.srv, [item], tr=self.tr))[0]
        except Exception as e:  # noqa: BLE001
            return "EXC:" + type(e).__name__

    def enter(self, s):
        if int(self.srv.state.session) != s:
            for r in self.path(s):
                self.ask(r)
        return int(self.srv.state.session) == s

    def rb(self, n):
        return bytes(self.rng.randrange(256) for _ in range(n)).hex()

    def candidate(self, sid, sf, ident, k):
        """k-th candidate for (sid, sf); `ident`: identifier to keep (when the last answer said that only the format was wrong)"""
        rb = self.rb
        sfx = "" if sf is None else f"{sf:02x}"
        if sid == 0x27:
            return f"27{sfx}" if sf % 2 == 1 else f"unlock:{sfx}"
        if sid == 0x31:
            return f"31{sfx}" + (ident or rb(2)) + rb(self.rng.choice([0, 0, 1, 2, 4]))
        if sid == 0x22:
            return "22" + rb(2)
        if sid == 0x2E:
            return "2e" + (ident or rb(2)) + rb(self.rng.choice([1, 1, 2, 4]))
        if sid == 0x2F:
            return "2f" + (ident or rb(2)) + "03" + rb(self.rng.choice([1, 1, 2, 3]))
        if sid == 0x14:
            return "14" + ("ffffff" if k == 0 else rb(3))
        if sid == 0x19:
            return f"19{sfx}" + ("ff" if k == 0 else rb(1))
        if sid == 0x3E:
            return "3e00"
        if sf is not None:
            return f"{sid:02x}{sfx}" + ("" if k == 0 else rb(self.rng.choice([0, 1, 2, 3])))
        return f"{sid:02x}" + rb(self.rng.choice([0, 1, 2, 3, 4]) if k else 2)

    def find(self, s, sid, sf):
        """-> (history items, positive found?)"""
        pos = f"{sid + 0x40:02x}"
        ident, keep, last_neg = None, 0, None
        n = self.cap if sid in (0x31, 0x22, 0x2E, 0x2F, 0x14, 0x19) else 6
        for k in range(n):
            if not self.enter(s):
                return [], False
            item = self.candidate(sid, sf, ident if keep > 0 else None, k)
            ans = self.ask(item)
            if ans.startswith(pos):
                out = [last_neg] if last_neg else []
                out.append(item)
                if sf is not None and not item.startswith("unlock:") and sid != 0x27:
                    # the same with suppressPosRspMsgIndicationBit: no answer, same state change
                    out += (self.path(s) if sid in (0x10, 0x11) else []) + [item[:2] + f"{sf | 0x80:02x}" + item[4:]]
                if sid in (0x10, 0x11):
                    out += self.path(s)
                return out, True
            last_neg = item
            if ans == f"7f{sid:02x}13" and sid in (0x31, 0x2E, 0x2F):
                if keep <= 0:
                    ident, keep = item[4:8] if sid == 0x31 else item[2:6], 80
                keep -= 1
                if keep == 0:
                    ident = None
            else:
                ident, keep = None, 0
        return ([last_neg] if last_neg else []), False


def directed_config(S, rng, seed, params, wanted, max_sessions, cap):
    """history for one model: for every (session, service, sub-function) of the model that is still `wanted` (None = all), the
    requests found by the prober.  -> (cfg | None, set of targets found positive)"""
    pr = Prober(S, seed, params, rng, cap)
    try:
        visit = [s for s in sorted(pr.services) if s in pr.parent][:max_sessions]
        h, found = [], set()
        for s in visit:
            items = []
            for sid, sfs in pr.services[s].items():
                for sf in ([None] if sfs is None else sfs):
                    if wanted is not None and ((sid, sf) not in wanted or (sid, sf) in found):
                        continue
                    its, ok = pr.find(s, sid, sf)
                    if ok:
                        found.add((sid, sf))
                        items += its
            if items:
                h += pr.path(s) + items
        return ({"seed": seed, "params": params, "history": h} if h else None), found
    finally:
        pr.close()


def directed_configs(ctx, impl):
    """searches seeds per parameter set until every handler x sub-function has a request with a positive answer in some model
    (recomputed from the live code on every run) -> (configs with `directed` = name of the parameter set, search report)"""
    S, rng = impl.S, ctx.rng
    cfgs, report = [], {}
    cap = ctx.pick(4000, 12000)
    for name, params, scope in DIRECTED_PARAM_SETS:
        covered, chosen, tried = set(), 0, 0
        if scope == "handlers":
            # universe of targets the parameter set can offer in the handlers' services
            universe = {(0x11, sf) for sf in range(1, 0x80)} | {(0x27, sf) for sf in range(1, 0x7F)} | \
                       {(0x31, sf) for sf in (1, 2, 3)} | {(0x19, 2)} | {(sid, None) for sid in (0x22, 0x2E, 0x2F, 0x14)}
            n_seeds = ctx.pick(1600, 6000)
        else:
            universe = None
            n_seeds = ctx.pick(2, 6)
        for seed in range(n_seeds):
            tried += 1
            if universe is not None:
                srv = S.RandomUDSServer(seed, S.RandomUDSServer.RandomnessParameters(**params))
                srv.randomize()
                offered = {(int(sid), (None if sfs is None else int(sf))) for d in srv.services.values() for sid, sfs in d.items()
                           for sf in ([None] if sfs is None else sfs)}
                new = (offered & universe) - covered
                if not new:
                    continue
                wanted = new
            else:
                wanted = None
            cfg, found = directed_config(S, rng, seed, params, wanted, ctx.pick(2, 4), cap)
            if cfg is not None and (found - covered or universe is None):
                cfg["directed"] = name
                cfgs.append(cfg)
                chosen += 1
                covered |= found
            if universe is not None and covered >= universe:
                break
        report[name] = {"seeds_tried": tried, "models_used": chosen, "targets_with_positive_request": len(covered),
                        "targets_possible": len(universe) if universe is not None else None}
    S.time = __import__("time").time
    return cfgs, report


def directed_coverage(ctx, cfgs, runs, report):
    """coverage table from the answers of the reference environment: positive answers per parameter set x handler x sub-function"""
    from collections import Counter

    hits = Counter()
    for cfg, r in zip(cfgs, runs):
        if "directed" not in cfg or not r or "answers" not in r:
            continue
        for item, ans in zip(cfg["history"], r["answers"]):
            t = item_target(item)
            if t is None or ans in ("none",) or ans.startswith(("7f", "EXC")):
                continue
            if ans.startswith(f"{t[0] + 0x40:02x}"):
                hits[(cfg["directed"], t[0], t[1] if (t[0] not in (0x22, 0x2E, 0x2F, 0x14)) else None)] += 1
    table = {}
    for name, _p, _scope in DIRECTED_PARAM_SETS:
        row = {}
        for sid in sorted({k[1] for k in hits if k[0] == name}):
            sfs = sorted(k[2] for k in hits if k[0] == name and k[1] == sid and k[2] is not None)
            n = sum(v for k, v in hits.items() if k[0] == name and k[1] == sid)
            label = HANDLER_SIDS.get(sid, "default-answer")
            row[f"0x{sid:02x} {label}"] = {"positive_answers": n, "sub_functions_hit": len(sfs),
                                           "sub_functions": ",".join(f"{x:02x}" for x in sfs) if len(sfs) <= 8 else f"{sfs[0]:02x}..{sfs[-1]:02x}"}
            ctx.dist[f"directed:{name}:0x{sid:02x}:{label}:positive"] += n
            if sid in HANDLER_SIDS:
                for sf in sfs:
                    if sid in (0x11, 0x31, 0x19) or sf <= 2:
                        ctx.dist[f"directed:{name}:0x{sid:02x}/sf=0x{sf:02x}:positive"] += hits[(name, sid, sf)]
        table[name] = row
    ctx.notes["c2_directed"] = {"search": report, "coverage": table}
    # the dimension must really be covered: every handler in every parameter set, every ECUReset sub-function in the dense one
    missing = []
    for name, _p, _scope in DIRECTED_PARAM_SETS:
        for sid in HANDLER_SIDS:
            if not any(k[0] == name and k[1] == sid for k in hits):
                missing.append(f"{name}:0x{sid:02x}")
    for sid, sfs in ((0x11, range(1, 0x80)), (0x31, (1, 2, 3)), (0x27, range(1, 0x7F)), (0x19, (2,))):
        for sf in sfs:
            if not any(hits.get((name, sid, sf)) for name, _p, _s in DIRECTED_PARAM_SETS):
                missing.append(f"any:0x{sid:02x}/0x{sf:02x}")
    return hits, missing


ENVS = [  # (PYTHONHASHSEED, import order, clock base, state of the GLOBAL random module: None = as the fresh interpreter seeds it | [seed, draws])
    ("0", 0, 0.0, [1, 0]), ("1", 1, 1.7e9, [2, 0]), ("4242", 2, 3.1e9, [1, 17]), ("random", 3, 12345.0, None),
    ("7", 2, 9.9e8, [12345, 1000]), ("random", 0, 2.2e9, [0, 3]), ("4294967295", 1, 5.0, None), ("99", 3, 7.7e9, ["vecu", 250]),
]
PARENT_GLOBAL_RANDOM = ([99, 5], [1, 0])  # the two passes of the parent process


def env_dict(env):
    return {"PYTHONHASHSEED": env[0], "import_order": env[1], "clock_base": env[2], "global_random": env[3] if len(env) > 3 else None}


class GlobalRandom:
    """puts the process-global `random` module into a given state and restores the previous one afterwards"""

    def __init__(self, spec):
        self.spec = spec

    def __enter__(self):
        self.saved = _random.getstate()
        T.set_global_random(self.spec)

    def __exit__(self, *a):
        _random.setstate(self.saved)


def run_children(configs, envs):
    job_base = {"configs": configs}
    procs = []
    for k_env, (hs, order, base, *rest) in enumerate(envs):
        env = {**os.environ, "PYTHONHASHSEED": hs, "GALLIA_REPO": str(REPO)}
        env.pop("PYTHONPATH", None)
        p = subprocess.Popen([PY, str(HARNESS / "c16_transcript.py")], stdin=subprocess.PIPE, stdout=subprocess.PIPE,
                             stderr=subprocess.PIPE, env=env, cwd=str(HARNESS))
        n = len(configs)
        perm = list(range(n))
        if k_env % 3 == 1:
            perm.reverse()
        elif k_env % 3 == 2:
            perm = perm[n // 2:] + perm[: n // 2]
        procs.append((p, json.dumps({**job_base, "import_order": order, "clock_base": base, "order": perm,
                                     "global_random": rest[0] if rest else None}).encode()))
    outs = []
    # feed / collect (jobs are small enough for communicate in sequence while all run concurrently)
    import threading

    res = [None] * len(procs)

    def work(i):
        p, data = procs[i]
        o, e = p.communicate(data, timeout=840)
        res[i] = (p.returncode, o, e)

    th = [threading.Thread(target=work, args=(i,)) for i in range(len(procs))]
    for t in th:
        t.start()
    for t in th:
        t.join()
    for (rc, o, e), env in zip(res, envs):
        if rc != 0:
            outs.append({"error": f"child exited {rc}: {e.decode(errors='replace')[-600:]}"})
        else:
            outs.append(json.loads(o.decode()))
    return outs


# ------------------------------------------------------------------------------------------------------------
def check_c1(ctx, impl, cases):
    """cases: list of dict(label, seed, params, script|None). Returns impl results (in slices: bounds memory)."""
    results = []
    for lo in range(0, len(cases), 400):
        results += _check_c1(ctx, impl, cases[lo: lo + 400])
    return results


def _check_c1(ctx, impl, cases):
    batch, index, results = [], [], []
    for c in cases:
        r = impl.randomize(c.get("seed"), c.get("params"), c.get("script"), c.get("argv"))
        results.append(r)
        if r["error"] is not None:
            index.append(None)
            continue
        P = r["P"]
        lists = ([int(x) for x in P.mandatory_sessions], [int(x) for x in P.optional_sessions],
                 [int(x) for x in P.mandatory_services], [int(x) for x in P.optional_services])
        probs = (P.p_session, P.p_service, P.p_sub_function)
        if c.get("argv") is not None:
            exp = cli_expected(c["argv"])
            got = {"seed": r.get("seed"), "mandatory_sessions": lists[0], "optional_sessions": lists[1],
                   "mandatory_services": lists[2], "optional_services": lists[3]}
            for fld, v in exp.items():
                if got[fld] != v:
                    ctx.disagree("c1:cli-arguments-changed:" + fld,
                                 f"the command line gives {fld} = {v} but RandomUDSServer receives {got[fld]}: the arguments of the "
                                 "model are not the arguments the user wrote (order / repetitions changed on the way)",
                                 {"kind": "c1", "argv": c["argv"], "seed": None, "params": None, "script": None},
                                 impl=got[fld], model=v, spec_violated=False, site="RngVirtualECUConfig / cli parser")
        if c.get("script") is not None:
            bools = [v == 0.0 for v in r["floats"]]
            ml = model_lines(lists, probs, r["orders"], r["choices"], bools=bools, impl_dump=r["dump"])
        else:
            ml = model_lines(lists, probs, r["orders"], r["choices"], floats=r["floats"], impl_dump=r["dump"])
        index.append((len(batch), lists))
        batch += ml
    out = ctx.lean(batch)
    for c, r, ix in zip(cases, results, index):
        ctx.ev()
        ctx.kind(c["label"])
        case = {"kind": "c1", "seed": c.get("seed"), "params": c.get("params"), "script": c.get("script")}
        if c.get("argv") is not None:
            case["argv"] = c["argv"]
            c["seed"] = r.get("seed", c.get("seed"))
        if ix is None:
            ctx.disagree("c1:randomize-raises:" + r["error"].split(":")[0],
                         "RandomUDSServer.randomize raises on well-formed arguments: " + r["error"], case,
                         impl=r["error"], model="a model", spec_violated=True, site="RandomUDSServer.randomize")
            continue
        off, lists = ix
        run = parse_run(out[off + RUN])
        runpy = parse_run(out[off + RUNPY])
        wf = dict(kv.split("=") for kv in out[off + WF].split())
        dump = r["dump"]
        n_sess = dump.count(";") + 1 if dump != "-" else 0
        if n_sess >= 2 or dump.count(",") >= 1:
            ctx.nontrivial((c.get("seed"), json.dumps(c.get("params"), sort_keys=True), json.dumps(c.get("script")),
                            json.dumps(c.get("argv"))))
        ctx.kind(f"sessions:{'1' if n_sess == 1 else '2-4' if n_sess <= 4 else '5-20' if n_sess <= 20 else '21+'}",
                 f"choices:{min(len(r['choices']), 3)}{'+' if len(r['choices']) > 3 else ''}",
                 f"levels:{min(len(r['orders']), 4)}",
                 "level-order:" + ("sorted" if all(o == sorted(o) for o in r["orders"]) else "not-sorted"))
        ctx.traces_validated += 1
        # --- specification on the implementation's own model -----------------------------------------------
        dsc_mand = 0x10 in lists[2]
        bad = [k for k in ("msess", "msvc", "default") if wf.get(k) != "1"]
        if dsc_mand:
            bad += [k for k in ("reach", "returns", "dscsess") if wf.get(k) != "1"]
        if bad:
            names = {"msess": "mandatory session missing", "msvc": "mandatory service missing",
                     "default": "default session missing", "reach": "offered session unreachable from the default session",
                     "returns": "offered session cannot return to the default session",
                     "dscsess": "DiagnosticSessionControl sub-function is not an offered session"}
            ctx.disagree("wf:" + "+".join(bad), "model of the virtual ECU is not well-formed: " + ", ".join(names[b] for b in bad),
                         case, impl={"model": dump, "wf": wf}, model={"model": run["dump"]}, spec_violated=True,
                         site="RandomUDSServer.randomize")
        # --- tie: model fed with the recorded draws reproduces the code ------------------------------------
        if c.get("script") is None:
            bad_at = reference_stream_ok(c["seed"], r["ops"])
            if bad_at is not None:
                ctx.disagree("c1:rng-stream-not-from-seed", f"draw {bad_at} of randomize is not the stream of Random(str(seed))",
                             case, impl={"op": list(r["ops"][bad_at])}, model="random.Random(str(seed))",
                             spec_violated=False, site="RNG / RandomUDSServer.randomize")
        # the model as a function of (arguments, draws, choices) alone: CPython's set order is computed (Model/PySet.lean)
        py_orders = parse_orders(runpy.get("orders", ""))
        seen = r.get("orders_seen", {})
        if runpy["dump"] != dump:
            comp = diff_component(runpy["dump"], dump)
            ctx.disagree("c1:pymodel-differs:" + comp,
                         f"model fed with the recorded draws alone (set order computed) does not reproduce server.services ({comp})",
                         case, impl=dump, model=runpy["dump"], spec_violated=False, site="RandomUDSServer.randomize")
        elif int(runpy["draws"]) != len(r["floats"]) or int(runpy["choices"]) != len(r["choices"]):
            ctx.disagree("c1:pymodel-draw-count", "number of draws / choices consumed differs (set order computed)",
                         case, impl={"draws": len(r["floats"]), "choices": len(r["choices"])},
                         model={"draws": runpy["draws"], "choices": runpy["choices"]}, spec_violated=False,
                         site="RandomUDSServer.randomize")
        elif any(lv >= len(py_orders) or py_orders[lv] != o for lv, o in seen.items()):
            lv = min(lv for lv, o in seen.items() if lv >= len(py_orders) or py_orders[lv] != o)
            ctx.disagree("c1:pymodel-level-order", f"iteration order of level_sessions at level {lv} differs from the PySet model",
                         case, impl={"level": lv, "order": seen[lv]},
                         model={"orders": py_orders}, spec_violated=False, site="RandomUDSServer.randomize")
        if any(len(o) > 1 for o in py_orders):
            ctx.kind("pyset-order:" + ("some-level-not-sorted" if any(o != sorted(o) for o in py_orders) else "sorted"))
        if run["dump"] != dump:
            comp = diff_component(run["dump"], dump)
            ctx.disagree("c1:model-differs:" + comp, f"model fed with the recorded draws does not reproduce server.services ({comp})",
                         case, impl=dump, model=run["dump"], spec_violated=False, site="RandomUDSServer.randomize")
        elif int(run["draws"]) != len(r["floats"]) or int(run["choices"]) != len(r["choices"]):
            ctx.disagree("c1:draw-count", "number of draws / choices consumed differs",
                         case, impl={"draws": len(r["floats"]), "choices": len(r["choices"])},
                         model={"draws": run["draws"], "choices": run["choices"]}, spec_violated=False,
                         site="RandomUDSServer.randomize")
        elif run["order"] != "ok" or int(run["levels"]) != len(r["orders"]):
            ctx.disagree("c1:level-sets", "recorded iteration orders are not permutations of the model's level sets",
                         case, impl={"orders": r["orders"]}, model={"levels": run["levels"], "order": run["order"]},
                         spec_violated=False, site="RandomUDSServer.randomize")
    for r in results:  # the recorded streams are not needed any more (memory: thousands of cases x up to 10^5 draws)
        r["n_floats"] = len(r.get("floats", ()))
        r.pop("ops", None)
        r.pop("floats", None)
    return results


def scripted_cases(ctx):
    """every Boolean draw stream (and choice index) on small session universes"""
    cases = []
    small = [
        ([1], [2, 3], [0x10], [], 10),
        ([2], [3], [0x10], [0x3E], 10),
        ([3, 2], [], [0x10, 0x3E], [], 6),
        ([], [2, 1], [0x10], [0x22], 9),
        ([5], [1, 5, 6], [0x3E, 0x10], [0x10], 11),
        ([0, 126], [64], [0x10], [], 8),
        # ids that collide in CPython's 8-entry set table: the second pass walks {9, 17, 2} / {8, 16, 24, 0} in table order
        ([1], [9, 17, 2], [0x10], [], 12),
        ([8], [16, 24, 0, 1], [0x10], [], 11),
    ]
    if not ctx.quick or ctx.widened:
        small += [([1, 2], [3, 4], [0x10], [], 13), ([7, 9, 8], [8], [0x10, 0x31], [0x19], 12)]
    for ms, os_, msv, osv, nbits in small:
        params = mk_params((ms, os_, msv, osv), {"p_session": 0.5, "p_service": 0.5, "p_sub_function": 0.5})
        for bits in range(2 ** nbits):
            b = [(bits >> i) & 1 == 1 for i in range(nbits)]
            for ch in ([0, 0], [1, 2]) if len(ms) > 1 or ms not in ([1], []) else ([0, 0],):
                cases.append({"label": "scripted-exhaustive", "seed": 0, "params": params, "script": {"b": b, "c": ch}})
    ctx.exhaustive_parts.append(
        f"every Boolean draw stream of the first 6..13 draws (rest False) x 2 choice scripts on {len(small)} small "
        f"session/service universes through a scripted RNG ({len(cases)} runs)")
    return cases


def seeded_cases(ctx, ALL):
    rng = ctx.rng
    cases = []
    # defaults, many seeds
    for seed in range(ctx.pick(30, 200)):
        cases.append({"label": "seeded:default-arguments", "seed": seed, "params": {}})
    # extreme probabilities x lists
    for ps in (0.0, 1.0, 50.0):
        for pv in (0.0, 1.0):
            for pf in (0.0, 1.0):
                cases.append({"label": "seeded:p-extremes", "seed": rng.randrange(2 ** 31),
                              "params": {"p_session": ps, "p_service": pv, "p_sub_function": pf}})
    cases.append({"label": "seeded:full-lists", "seed": 5, "params": mk_params(
        (list(range(N_SESS)), list(range(N_SESS)), ALL[:], ALL[:]), {"p_session": 3.0, "p_service": 0.5, "p_sub_function": 0.1})})
    cases.append({"label": "seeded:empty-lists", "seed": 6, "params": mk_params(([], [], [], []), {})})
    cases.append({"label": "seeded:empty-lists", "seed": 6, "params": mk_params(([], [], [0x10], []), {"p_session": 1.0})})
    # session ids that collide in CPython's set tables (equal low bits), generous transition probabilities: level sets of
    # many elements whose iteration order is neither sorted nor insertion order, several resizes
    for _ in range(ctx.pick(250, 2500)):
        low = rng.sample(range(8), rng.choice([1, 2, 3]))
        fam = [x for x in range(N_SESS) if x % 8 in low or (x % 32 == 5 and rng.random() < 0.5)]
        os_ = rng.sample(fam, min(len(fam), rng.choice([3, 5, 8, 14, 30])))
        if rng.random() < 0.3:
            os_ += rng.sample(range(N_SESS), rng.choice([1, 3, 10]))
        ms = rng.choice([[1], [], rng.sample(fam, min(len(fam), 3)), [1] + rng.sample(range(N_SESS), 2)])
        probs = {"p_session": rng.choice([0.2, 0.4, 0.7, 1.0, 1.5, 4.0]), "p_service": rng.choice([0.0, 0.2]),
                 "p_sub_function": rng.choice([0.0, 0.05])}
        cases.append({"label": "seeded:colliding-sessions", "seed": rng.randrange(2 ** 31),
                      "params": mk_params((ms, os_, [0x10], [0x3E, 0x22]), probs)})
    for _ in range(ctx.pick(400, 4000)):
        lists = gen_lists(rng, ALL)
        probs = gen_probs(rng)
        seed = rng.choice([rng.randrange(100), rng.randrange(2 ** 63), 0, -rng.randrange(1000)])
        cases.append({"label": "seeded:random-arguments", "seed": seed, "params": mk_params(lists, probs)})
    return cases


def check_c2(ctx, impl, c1_cases, c1_results, cli_cases=()):
    rng = ctx.rng
    ALL = all_services()
    # configurations: defaults for a few seeds, dense models, models from random arguments
    cfgs = []
    for seed in (0, 1, 2, 3)[: ctx.pick(2, 4)]:
        cfgs.append({"seed": seed, "params": {}})
        cfgs.append({"seed": seed, "params": {"p_identifier": 0.6, "p_correct_payload_format": 0.8, "p_dtc_status_mask": 0.5,
                                              "p_session": 0.3, "p_service": 0.6, "p_sub_function": 0.1}})
    cfgs.append({"seed": 77, "params": {"p_service": 1.0, "p_session": 0.2, "p_identifier": 1.0, "p_correct_payload_format": 1.0,
                                        "optional_sessions": [2, 3, 0x41, 0x42]}})
    picked = [c for c, r in zip(c1_cases, c1_results)
              if c.get("script") is None and r["error"] is None and c["label"] == "seeded:random-arguments"
              and r["n_floats"] < 20000]
    rng.shuffle(picked)
    for c in picked[: ctx.pick(14, 60)]:
        cfgs.append({"seed": c["seed"], "params": {**c["params"], "p_identifier": rng.choice([0.005, 0.5, 1.0]),
                                                   "p_correct_payload_format": rng.choice([0.1, 0.9])}})
    # models whose level sets were walked in an order that is neither sorted nor insertion order (colliding session ids):
    # where a dependence of the set layout on anything but the ints themselves would show between processes
    coll = [c for c, r in zip(c1_cases, c1_results)
            if c["label"] == "seeded:colliding-sessions" and r["error"] is None and r["n_floats"] < 20000
            and any(o != sorted(o) for o in r["orders"])]
    rng.shuffle(coll)
    for c in coll[: ctx.pick(10, 40)]:
        cfgs.append({"seed": c["seed"], "params": dict(c["params"])})
    # the same through the command line: real parser -> RngVirtualECUConfig -> RngVirtualECU._server()
    for _lab, argv in [x for x in cli_cases]:
        cfgs.append({"argv": argv})
    # histories from the in-process model
    S = impl.S
    for cfg in cfgs:
        r = impl.randomize(cfg.get("seed"), cfg.get("params"), None, cfg.get("argv"))
        cfg["history"] = make_history(rng, r.get("services", {}), ctx.pick(4, 8), ctx.pick(24, 60)) if r["error"] is None else ["3e00"]
    # model-directed: requests that reach the positive branch of every handler x sub-function in some model
    handlers = handler_names_in_code(S)
    if handlers != sorted(HANDLER_SIDS.values()):
        ctx.disagree("c2:handlers-changed", "RandomUDSServer.respond_after_default dispatches to other handlers than the ones the "
                     "directed transcripts cover", {"kind": "c2", "env": env_dict(ENVS[0]), "configs": []}, impl=handlers,
                     model=sorted(HANDLER_SIDS.values()), spec_violated=False, site="RandomUDSServer.respond_after_default")
    dcfgs, dreport = directed_configs(ctx, impl)
    cfgs += dcfgs
    envs = ENVS[: ctx.pick(4, 8)]
    outs = run_children(cfgs, envs)

    # this process is two more environments (two states of the global random module, two clock bases)
    def in_process(spec, base):
        res = {"defaults": T.defaults_fingerprint(S), "runs": []}
        with GlobalRandom(spec):
            for cfg in cfgs:
                if "argv" in cfg:  # command lines are compared between the child processes only (their hash seeds are fixed)
                    res["runs"].append(None)
                    continue
                try:
                    res["runs"].append(T.transcript(S, cfg, clock_base=base))
                except Exception as e:  # noqa: BLE001
                    res["runs"].append({"error": type(e).__name__ + ": " + str(e)[:200]})
        return res

    here = in_process(PARENT_GLOBAL_RANDOM[0], 5.0e8)
    here2 = in_process(PARENT_GLOBAL_RANDOM[1], 4.0e9)
    S.time = __import__("time").time
    envs_all = [("parent", "parent", 5.0e8, PARENT_GLOBAL_RANDOM[0]), ("parent", "parent", 4.0e9, PARENT_GLOBAL_RANDOM[1])] + list(envs)
    outs_all = [here, here2] + outs
    ref = outs_all[0]
    _hits, missing = directed_coverage(ctx, cfgs, ref["runs"], dreport)
    if missing:
        ctx.disagree("c2:directed-coverage-missing:" + missing[0].split(":")[1],
                     f"no request with a positive answer found for {len(missing)} handler x sub-function targets ({', '.join(missing[:6])}"
                     f"{' ...' if len(missing) > 6 else ''}): the transcripts no longer reach every random-carrying branch",
                     {"kind": "c2", "env": env_dict(ENVS[0]), "configs": []}, impl=missing[:40], model="every target has a positive answer",
                     spec_violated=False, site="harness/props/C16.py directed_configs")
    n_req = sum(len(c["history"]) for c in cfgs)
    ctx.notes["c2"] = {"configurations": len(cfgs), "requests_per_environment": n_req, "environments": len(envs_all),
                       "command_lines": sum(1 for c in cfgs if "argv" in c),
                       "positive_answers_in_reference": sum(1 for r in ref["runs"] if r for a in r.get("answers", [])
                                                            if a not in ("none",) and not a.startswith("7f") and not a.startswith("EXC")),
                       "exceptions_in_reference": sum(1 for r in ref["runs"] if r for a in r.get("answers", []) if a.startswith("EXC"))}
    first_child = next((o for o in outs if "error" not in o), None)
    for env, o in zip(envs_all[1:], outs_all[1:]):
        envd = env_dict(env)
        if "error" in o:
            ctx.disagree("c2:child-failed", "transcript process failed: " + o["error"][-300:], {"kind": "c2", "env": envd},
                         spec_violated=False, site="harness/c16_transcript.py")
            continue
        ctx.ev(len(cfgs))
        ctx.kind(*[f"xproc:hashseed={env[0]},imports={env[1]},global-random={'fresh' if env[3] is None else 'seed %s+%s draws' % tuple(env[3])}"] * len(cfgs))
        if o["defaults"] != ref["defaults"]:
            fld = next(k for k in ref["defaults"] if ref["defaults"][k] != o["defaults"][k])
            ctx.disagree("c2:default-arguments-differ:" + fld,
                         f"default RandomnessParameters.{fld} differs between processes (argument defaults are part of 'the same arguments')",
                         {"kind": "c2", "env": envd, "configs": []}, impl=o["defaults"][fld], model=ref["defaults"][fld],
                         spec_violated=True, site="RandomUDSServer.RandomnessParameters")
        for k, (cfg, a, b) in enumerate(zip(cfgs, ref["runs"], o["runs"])):
            if "argv" in cfg:
                if first_child is None or o is first_child or b is None:
                    continue
                a = first_child["runs"][k]
                ctx.kind("xproc:command-line")
            ctx.traces_validated += 1
            if a == b:
                continue
            if "argv" in cfg and "error" not in a and "error" not in b and a.get("params") != b.get("params"):
                fld = next(f for f in a["params"] if a["params"][f] != b["params"].get(f))
                visible = a.get("model") != b.get("model") or a.get("answers") != b.get("answers")
                comp = diff_component(a.get("model", "-"), b.get("model", "-"))
                ctx.disagree("c2:cli-arguments-differ:" + fld,
                             f"the same command line hands a different {fld} to RandomUDSServer in another process "
                             f"(PYTHONHASHSEED {envs[0][0]} vs {env[0]})"
                             + (f"; the models differ ({comp})" if comp != "same" else
                                ("; the answers differ" if visible else "; model and answers happen to coincide")),
                             {"kind": "c2", "env": envd, "configs": [{**cfg, "history": [] if comp != "same" else cfg["history"]}]},
                             impl={fld: b["params"][fld], "model": b.get("model", "")[:400]},
                             model={fld: a["params"][fld], "model": a.get("model", "")[:400]}, spec_violated=visible,
                             site="RngVirtualECUConfig / cli parser")
                if visible:
                    continue
            if a.get("model") != b.get("model") or "error" in a or "error" in b:
                comp = diff_component(a.get("model", "-"), b.get("model", "-")) if "error" not in a and "error" not in b else "error"
                ctx.disagree("c2:model-differs:" + comp, "same seed and arguments give a different model in another process",
                             {"kind": "c2", "env": envd, "configs": [{**cfg, "history": []}]},
                             impl=b.get("model", b.get("error")), model=a.get("model", a.get("error")), spec_violated=True,
                             site="RandomUDSServer.randomize")
                continue
            i = next(k for k, (x, y) in enumerate(zip(a["answers"], b["answers"])) if x != y)
            req = cfg["history"][i]
            sid = "27" if req.startswith("unlock:") else ("27+" + req.split("|")[-1][:2] if req.startswith("seq:") else req[:2])
            ctx.disagree("c2:answer-differs:sid=" + sid, f"same seed, arguments and history: answer to request {i} ({req}) differs between "
                         + ("two states of the global random module within one process" if env[0] == "parent" else "processes")
                         + (f" [directed: {cfg['directed']} parameters]" if "directed" in cfg else ""),
                         {"kind": "c2", "env": envd, "configs": [{**cfg, "history": cfg["history"][: i + 1]}]},
                         impl=b["answers"][i], model=a["answers"][i], spec_violated=True, site="RandomUDSServer.respond")
    ctx.sample({"c2_config": {"seed": cfgs[0]["seed"], "params": cfgs[0]["params"], "history_head": cfgs[0]["history"][:12]},
                "answers_head": ref["runs"][0].get("answers", [])[:12]})
    return cfgs


# ------------------------------------------------------------------------------------------------------------
# (P) the Lean model of CPython's set against the real set
# ------------------------------------------------------------------------------------------------------------
def pyset_first_mismatch(ctx, programs):
    """-> per program: None | (index of the first op whose observation differs, impl, model)"""
    batch, spans = [], []
    for ops in programs:
        spans.append((len(batch) + 1, len(ops)))
        batch.append("reset")
        batch += [PS.lean_line(op) for op in ops]
    out = ctx.lean(batch)
    res = []
    for ops, (off, n) in zip(programs, spans):
        exp = PS.run_program(ops)
        hit = None
        for i in range(n):
            got = PS.strip_fill(out[off + i])
            if got != exp[i]:
                hit = (i, exp[i], got)
                break
        res.append(hit)
    return res


def pyset_shrink(ctx, ops):
    """greedy: cut after the first mismatch, then drop single ops while a mismatch remains (two passes, fixed order)"""
    hit = pyset_first_mismatch(ctx, [ops])[0]
    if hit is None:
        return ops, None
    ops = ops[: hit[0] + 1]
    for _ in range(2):
        cands = [ops[:i] + ops[i + 1:] for i in range(len(ops) - 1)]
        if not cands:
            break
        hits = pyset_first_mismatch(ctx, cands)
        better = [(c[: h[0] + 1], h) for c, h in zip(cands, hits) if h is not None]
        if not better:
            break
        ops, hit = min(better, key=lambda ch: (len(ch[0]), json.dumps(ch[0])))
    # shrink list arguments
    for _ in range(2):
        cands = []
        for i, op in enumerate(ops):
            if op[0] in ("from", "update") and len(op[2]) > 1:
                for j in range(len(op[2])):
                    o2 = list(op)
                    o2[2] = op[2][:j] + op[2][j + 1:]
                    cands.append(ops[:i] + [o2] + ops[i + 1:])
        cands = cands[:400]
        if not cands:
            break
        hits = pyset_first_mismatch(ctx, cands)
        better = [(c[: h[0] + 1], h) for c, h in zip(cands, hits) if h is not None]
        if not better:
            break
        ops, hit = min(better, key=lambda ch: (sum(len(o[2]) for o in ch[0] if o[0] in ("from", "update")), json.dumps(ch[0])))
    return ops, hit


def pyset_report(ctx, ops, label):
    ops, hit = pyset_shrink(ctx, ops)
    if hit is None:
        return
    i, impl, model = hit
    ctx.disagree("pyset:model-differs:" + ops[i][0],
                 f"Lean model of CPython's set differs from the real set after op {i} ({ops[i][0]}) [{label}]: iteration order, "
                 "len or table size", {"kind": "pyset", "ops": ops}, impl=impl, model=model, spec_violated=False,
                 site="CPython Objects/setobject.c vs lean/Gallia/Model/PySet.lean")


def check_pyset(ctx):
    rng = ctx.rng
    # --- exhaustive: every add/discard sequence over small colliding universes, compared after every op -------------
    walks = [
        ("mask7", [], [0, 8, 16, 24, 32, 1], ctx.pick(5, 6), ("add", "discard")),       # all collide in the small table; 5th insert resizes
        ("mask31", [0, 1, 2, 3, 4], [32, 64, 96, 22, 23, 54, 5], ctx.pick(4, 5), ("add", "discard")),  # linear-probe window and its edge (i=22/23)
        ("grow", [], [0, 8, 1, 9, 2, 10, 3, 11], ctx.pick(6, 7), ("add",)),                   # insertion orders through the first resize
    ]
    n_nodes = 0
    for name, init, univ, depth, kinds in walks:
        found = False
        for first in [(k, x) for k in kinds for x in univ]:  # one slice of the walk per first op (bounds memory)
            lines, expected, paths = PS.exhaustive_walk(init, univ, depth, kinds, first)
            out = ctx.lean(["reset"] + lines)[1:]
            n_nodes += len(lines) - 1
            ctx.ev(len(lines) - 1)
            ctx.dist["pyset:exhaustive:" + name] += len(lines) - 1
            for k, (o, e) in enumerate(zip(out, expected)):
                if PS.strip_fill(o) != e:
                    pyset_report(ctx, PS.program_of(init, paths, k), "exhaustive:" + name)
                    found = True
                    break
            if found:
                break
    # --- exhaustive: binary operations on every ordered pair of sets built from lists of length <= 3 ------------------
    import itertools

    u2 = [0, 8, 16, 1, 9] + ([24] if not ctx.quick or ctx.widened else [])
    lists = [list(t) for n in range(4) for t in itertools.product(u2, repeat=n)]
    progs = []
    for A in lists:
        for B in lists:
            progs.append([["from", 0, A, 0], ["from", 1, B, 0], ["sub", 2, 0, 1], ["or", 3, 0, 1], ["isub", 0, 1],
                          ["from", 0, A, 0], ["ior", 0, 1], ["copy", 4, 0, 0]])
    for lo in range(0, len(progs), 4000):
        chunk = progs[lo: lo + 4000]
        for ops, hit in zip(chunk, pyset_first_mismatch(ctx, chunk)):
            if hit is not None:
                pyset_report(ctx, ops, "exhaustive:pairs")
                break
    n_pairs = len(progs)
    ctx.ev(n_pairs)
    ctx.dist["pyset:exhaustive:pairs"] += n_pairs
    ctx.exhaustive_parts.append(
        f"PySet vs CPython set: every add/discard sequence of length <= {walks[0][3]} over {walks[0][2]} from set(), of length <= "
        f"{walks[1][3]} over {walks[1][2]} from set(range(5)), every add sequence of length <= {walks[2][3]} over {walks[2][2]} "
        f"({n_nodes} states, list / len / table size compared after every op); a - b, a | b, a -= b, a |= b, copy for every ordered "
        f"pair of sets built from the lists of length <= 3 over {u2} ({n_pairs} pairs)")
    # --- random and adversarial programs ---------------------------------------------------------------------------------
    progs, labels = [], []
    names = list(PS.UNIVERSES)
    for k in range(ctx.pick(240, 4000)):
        u = names[k % len(names)]
        progs.append(PS.random_program(rng, ctx.pick(150, 300), u))
        labels.append("pyset:random:" + u)
    for _ in range(ctx.pick(600, 6000)):
        progs.append(PS.randomize_shaped_program(rng))
        labels.append("pyset:randomize-shaped")
    n_ops = 0
    for lo in range(0, len(progs), 500):
        chunk = progs[lo: lo + 500]
        for ops, lab, hit in zip(chunk, labels[lo: lo + 500], pyset_first_mismatch(ctx, chunk)):
            ctx.ev()
            ctx.kind(lab)
            n_ops += len(ops)
            ctx.nontrivial(("pyset", json.dumps(ops)))
            if hit is not None:
                pyset_report(ctx, ops, lab)
    ctx.traces_validated += len(progs)
    ctx.notes["pyset"] = {"exhaustive_states": n_nodes, "exhaustive_pairs": n_pairs, "random_programs": len(progs),
                          "random_ops": n_ops, "interpreter": sys.version.split()[0]}


def check_default_optional_services(ctx, impl):
    """`RandomnessParameters.optional_services` defaults to list(set(UDSIsoServices) - set(mandatory + [NegativeResponse])):
    a set of IntEnum members (hash = int value) - its order must be the PySet model's"""
    from gallia.services.uds.core.constants import UDSIsoServices

    P = impl.S.RandomUDSServer.RandomnessParameters()
    allsv = [int(x) for x in UDSIsoServices]
    mand = [int(x) for x in P.mandatory_services]
    neg = int(UDSIsoServices.NegativeResponse)
    out = ctx.lean(["reset", f"defopt {nats(allsv)} {nats(mand)} {neg}"])[1]
    real = [int(x) for x in P.optional_services]
    ctx.ev()
    ctx.kind("pyset:default-optional-services")
    hashes_ok = all(hash(x) == int(x) for x in UDSIsoServices)
    if not hashes_ok:
        ctx.disagree("c2:enum-hash-not-int", "UDSIsoServices members do not hash like their int value: the order of the default "
                     "optional_services (a list made from a set) may depend on PYTHONHASHSEED",
                     {"kind": "c2", "env": {"PYTHONHASHSEED": "1", "import_order": 0, "clock_base": 0.0}, "configs": []},
                     impl=[hash(x) for x in UDSIsoServices][:8], model="hash(member) == int(member)", spec_violated=False,
                     site="RandomUDSServer.RandomnessParameters")
    if out != nats(real):
        ctx.disagree("pyset:default-optional-services", "order of the default RandomnessParameters.optional_services differs from "
                     "list(set(UDSIsoServices) - set(mandatory_services + [NegativeResponse])) as computed by the PySet model",
                     {"kind": "pyset", "ops": [["from", 0, allsv, 0], ["from", 1, mand + [neg], 0], ["sub", 2, 0, 1]]},
                     impl=real, model=out, spec_violated=False, site="RandomUDSServer.RandomnessParameters")


def replay_pyset(ctx, c):
    ops = c["ops"]
    exp = PS.run_program(ops)
    out = ctx.lean(["reset"] + [PS.lean_line(op) for op in ops])[1:]
    bad = False
    for op, e, o in zip(ops, exp, out):
        same = PS.strip_fill(o) == e
        bad |= not same
        print(("   " if same else "!! "), json.dumps(op))
        print("      CPython:", e)
        print("      model  :", o)
    return bad


def search(ctx):
    """failing-input search: the widened run without the PySet-vs-CPython part (a difference there is a broken tie, never a
    failing input of the property)"""
    run(ctx, with_pyset=False)


def run(ctx, with_pyset=True):
    impl = Impl()
    ALL = all_services()
    ctx.rule = ("C1: one case = (seed, RandomnessParameters) or (scripted draw stream, arguments); counted as non-trivial when "
                "the resulting model has >= 2 sessions or >= 2 services. C2: one evaluation = one (configuration, environment) transcript")
    if with_pyset:
        check_pyset(ctx)
    check_default_optional_services(ctx, impl)
    cli_cases = cli_fixed() + [cli_random(ctx.rng) for _ in range(ctx.pick(6, 40))]
    cases = scripted_cases(ctx) + seeded_cases(ctx, ALL)  # small universes first: first disagreement per key is small
    cases += [{"label": lab, "argv": argv} for lab, argv in cli_cases]
    results = check_c1(ctx, impl, cases)
    ok = [(c, r) for c, r in zip(cases, results) if r["error"] is None and c.get("script") is None and c.get("argv") is None]
    if ok:
        c, r = ok[0]
        ctx.sample({"seed": c["seed"], "params": c["params"], "draws": r["n_floats"], "orders": r["orders"], "model": r["dump"][:300]})
    # same process, second instance: identical model (cheap sanity before the cross-process comparison)
    for c, r in ok[: ctx.pick(40, 300)]:
        r2 = impl.randomize(c["seed"], c["params"])
        ctx.ev()
        if r2.get("dump") != r["dump"]:
            ctx.disagree("c2:model-differs:in-process", "two servers with the same seed and arguments differ within one process",
                         {"kind": "c1", "seed": c["seed"], "params": c["params"], "script": None}, impl=r2.get("dump"), model=r["dump"],
                         spec_violated=True, site="RandomUDSServer.randomize")
    cfgs = check_c2(ctx, impl, cases, results, cli_cases)
    # handler layer: AST obligations + recorded draws of every handler call against Model/VEcuRng.lean
    HT.check_handlers(ctx, impl.S, impl.base_rng, cfgs or [])


def replay(ctx, case):
    c = case.get("case", case)
    if c.get("kind") == "pyset":
        return replay_pyset(ctx, c)
    impl = Impl()
    if c.get("kind") in ("handler", "ast", "repr"):
        return HT.replay(ctx, impl.S, impl.base_rng, c)
    if c.get("kind") == "c2":
        cfgs = c.get("configs", [])
        env = c["env"]
        hs, gr = str(env["PYTHONHASHSEED"]), env.get("global_random")
        in_parent = hs == "parent"  # the recorded environment was the checking process itself under another global random state
        outs = run_children(cfgs, [("0" if in_parent else hs, 0 if in_parent else env["import_order"], env["clock_base"], gr),
                                   ("0", 0, 0.0, [7, 0])])
        with GlobalRandom(PARENT_GLOBAL_RANDOM[0]):
            here = [T.transcript(impl.S, cfg, clock_base=5.0e8) for cfg in cfgs]
        with GlobalRandom(gr if gr is not None else PARENT_GLOBAL_RANDOM[1]):
            here2 = [T.transcript(impl.S, cfg, clock_base=4.0e9) for cfg in cfgs]
        impl.S.time = __import__("time").time
        print(json.dumps({"configs": cfgs, "this_process": here, "this_process_other_global_random_state": here2,
                          "recorded_env": outs[0], "hashseed0": outs[1]}, indent=1))
        return any(o.get("runs") != here for o in outs) or here2 != here
    r = impl.randomize(c.get("seed"), c.get("params"), c.get("script"), c.get("argv"))
    if r["error"]:
        print("implementation raises:", r["error"])
        return True
    P = r["P"]
    lists = ([int(x) for x in P.mandatory_sessions], [int(x) for x in P.optional_sessions],
             [int(x) for x in P.mandatory_services], [int(x) for x in P.optional_services])
    probs = (P.p_session, P.p_service, P.p_sub_function)
    if c.get("script") is not None:
        ml = model_lines(lists, probs, r["orders"], r["choices"], bools=[v == 0.0 for v in r["floats"]], impl_dump=r["dump"])
    else:
        ml = model_lines(lists, probs, r["orders"], r["choices"], floats=r["floats"], impl_dump=r["dump"])
    out = ctx.lean(ml)
    print("implementation      :", r["dump"])
    print("model (order given) :", out[RUN])
    print("model (draws alone) :", out[RUNPY])
    print("recorded set orders :", r.get("orders_seen"))
    print("wf(impl model)      :", out[WF])
    return (parse_run(out[RUN])["dump"] != r["dump"] or parse_run(out[RUNPY])["dump"] != r["dump"] or "=0" in out[WF])


MANIFEST = {
    "level_text": ("Lean 4 theorems over (1) an executable model of CPython 3.12's set for ints (open addressing, linear probes, "
                   "perturbation, freeslot reuse, fill/used counters, resize, merge, difference; Model/PySet.lean): the recurrence "
                   "i -> 5i+1 mod 2^k visits every residue, hence the probe loops terminate on any table with an unused entry; the "
                   "table invariant (power-of-two size, exact counters, load factor < 3/5, every key where its lookup stops) holds "
                   "after any sequence of add / discard / update / set(iterable) / copy / | / |= / - / -= / resize; iteration yields "
                   "every element exactly once; each operation has the membership law of its mathematical counterpart; and (2) a "
                   "model of RandomUDSServer.randomize that is a function of the arguments, the draw stream and the choice stream "
                   "alone (the iteration order of the code's sets is computed by (1)): it is an instance of the oracle model, so for "
                   "all streams (i.e. all seeds) mandatory sessions and services are present, the default session is present, every "
                   "offered session is reachable from the default session through DiagnosticSessionControl sub-functions and returns "
                   "to it in one step, every DSC sub-function is an offered session; it reads only the prefix of the streams it "
                   "reports as consumed (streams agreeing on that prefix give the same model). Tied to the code by (P) a differential "
                   "test of the set model against the interpreter's set, exhaustive on small universes; (C1) replaying the draws "
                   "recorded from the real randomize through the model with NO recorded set order - exact reproduction of "
                   "server.services, draw / choice counts and the set orders seen in the frame, provenance of the stream from "
                   "str(seed) alone, a scripted RNG enumerating every Boolean draw stream on small universes, servers built directly "
                   "and through the real command line; (C2) byte-identical transcripts (model + answers to request histories via "
                   "UDSServerTransport.handle_request) from separate interpreter processes with different PYTHONHASHSEED, import "
                   "orders, clock bases and states of the global random module (fresh / seeded differently / advanced by different "
                   "amounts, plus two states inside the checking process), arguments given as values and as command-line text, "
                   "security-access seeds masked; the histories are random and model-directed (seed search per parameter set until "
                   "every handler x sub-function of the virtual ECU is offered by some model, then a request with a positive answer "
                   "found by probing the live code; coverage table in the evidence). (3) a model of the per-request RNG discipline "
                   "and of every request handler of RandomUDSServer (Model/VEcuRng.lean): the seed text of stateful_rng / "
                   "add_seeds (server seed, session, str() of the request fields incl. CPython's str(bytes)), the calls each handler "
                   "makes on its RNG objects, the answer built from the results, the pending security-access answer and "
                   "update_state; theorems for every server, oracle, state and history: two virtual ECUs with the same seed and "
                   "arguments whose seeded generators agree answer the same SendKey-free history and the next request identically up "
                   "to the bytes of security-access seeds, whatever the fresh and ambient streams are "
                   "(answer_function_of_seed_state_request, transcript_function_of_seed); every answer except SendKey's sees the "
                   "history through the current session only (answer_independent_of_other_requests_partial, "
                   "answer_independent_of_history_partial); SendKey's answer is a function of session, pending seed and request and "
                   "looks at no stream (sendKey_answer_function_of_pending_seed); no answer, state or draw of any history depends on "
                   "the ambient stream handed to the handlers (global_random_irrelevant); the seed texts of a handler call are a prefix of a "
                   "list computed from server seed, session and request alone, and the call reads the seeded oracle at those texts only "
                   "(seed_texts_function_of_seed_session_request, handler_reads_seeded_streams_of_request_only). Tied by (A) the regenerated AST table of "
                   "RNG objects / seed expressions / free names / draw calls per handler and the source of stateful_rng / RNG "
                   "(handler_rng_sources_agree) and (H) the replay of every recorded handler call (seed texts, kinds of calls, "
                   "answer bytes, state after) through the model."),
    "level_note": ("Trusted: Lean kernel (axioms propext, Quot.sound, Classical.choice), the generated tables, the harness, CPython's "
                   "random.Random, libm pow; the set model is a transcription validated against the running interpreter, not derived "
                   "from the C source. Partial: a theorem cannot see another process - that the request handlers consult nothing but "
                   "seed, session state and request is a theorem about Model/VEcuRng tied to the code by the AST obligation and the "
                   "recorded-draw replay (Mersenne Twister is an oracle: a function of the seed text); that argument parsing and module "
                   "state add nothing is a differential check over the listed environments; the default chain in front of the handlers "
                   "is a parameter (C13/C14), the transport's inactivity timer is outside the handler model; reachability assumes DiagnosticSessionControl among the mandatory services and session ids below "
                   "0x7F; set elements below 2^61-1."),
    "technique": ("Lean 4 proof (full-period lemma, probe-loop invariants, simulation of the set-order-free model by the oracle model, "
                  "invariants over folds, well-founded level loop) + differential test of the set model + recorded-draw replay "
                  "without recorded order + cross-process transcript comparison incl. the command-line path, model-directed "
                  "request histories and differing global-random states + handler model over a seed-text oracle, relational induction over "
                  "histories (states related up to fresh seed bytes), regenerated AST tables of RNG sources, recorded-draw replay of "
                  "every handler call"),
    "design_ref": "DESIGN.md section 7, C16",
}
