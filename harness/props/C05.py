"""C05 - concurrent users of one UDS client.  2..5 real tasks (typed service calls, send_raw(), the cyclic tester-present
worker with its start / stop, reconnects) share one real ECU client over a scripted wire with ONE inbox under virtual
time; the client lock (the client's OWN mutex object, re-classed in place so that the lock class the client chose runs underneath the
instrumentation; the real lock is asked `locked()` once everybody has ended), the transport, asyncio.sleep and create_task are instrumented
from outside.  Two things are
recorded per run and replayed through the Lean models:

  * the event trace (want / got / op / rel / unwait / ended) for the lock-discipline acceptor (Model/ClientConc.lean);
  * the schedule (which task completed which await point, which message the network delivered, where a CancelledError
    was delivered) for the multi-task model (Model/ClientMulti.lean): every observed step must be the enabled next step
    of that task's program - `requestX` over the read / write / reconnect results that task observed -, every message a
    task reads must be the head of the model's shared inbox, and the outcome per caller must be the model's.

Every caller must end with a reply that is not foreign to its request BYTES (Spec/Reply.lean) or with an error, and
nobody may be left waiting forever.

Callers use the whole public surface: read_data_by_identifier, send_raw, ping(), tester_present() and every other public
method with a `suppress_response` option (option off and on; arguments synthesised from the signature, request bytes learnt
from a dry run).  Connection attempts of the scripted wire follow a script and then a default, so the target can refuse k
times and then accept, or stay away for good; BaseTransport.reconnect(timeout) itself is also compared with
Model/TransportReconnect.lean on every short outcome stream."""
import asyncio
import itertools
from collections import deque

from common import setup_repo_import
from vloop import Stall, vrun

ID = "C05"
GENS = ["c05_locks"]
PROOF = "Gallia.Proofs.C05"
DRIVER = "c05"
ASSUMPTIONS = [
    "asyncio.Lock is FIFO, `async with` releases on return, exception and cancellation, a waiter whose Task.cancel() was called is skipped by the lock "
    "from that moment, and CancelledError is raised at the await point the task is suspended in (the acceptor and the schedule replay re-check "
    "this on every run)",
    "cancellation is atomic in the model (delivered at once at the await point); between Task.cancel() and the delivery the real task runs nothing, "
    "which the replay re-checks; clean-up awaits of a task that is being cancelled (wait_for_ecu restarting the worker in its finally block) are "
    "outside the model and not cancelled by the tie",
    "the real scheduler is asyncio's: the theorems cover every schedule, the tie observes the schedules provoked by arrival offsets, reply delays, "
    "write / read / reconnect faults and cancellation at every instrumented await",
    "a reply is told apart from another caller's by C03's matcher only: a late reply to a byte-identical request, and a late NEGATIVE response to a "
    "request of the same service, are indistinguishable from the caller's own (no sequence numbers in UDS); own_reply_or_error carries this as the "
    "hypothesis `Foreign r b` (classify_bytes, same_service_negative_not_foreign make the caveat explicit)",
    "the private, uncalled UDSClient._tester_present(suppress_resp=True) writes without the lock; unlocked_calls_guarded proves from the regenerated "
    "call table that it has no caller",
    "lock use is lexical (`async with self.mutex`) in client.py, ecu.py, transports/base.py: regenerated from the AST (lock_sites_agree); a mutex reached "
    "through another name, by getattr or from another module is outside the table (the dynamic tie still sees its effect)",
    "the transport's own mutex (BaseTransport.reconnect / request) is only taken inside the client lock; the tie runs the real BaseTransport.reconnect, "
    "the model has one lock",
    "callers reach the client through its public coroutine methods only (typed services with their options incl. suppress_response, ping(), send_raw(), "
    "reconnect(), wait_for_ecu(), start / stop of the worker); arguments of the sub-function services are synthesised from the signatures, a method "
    "that refuses them before sending anything is not a user of the client in that case",
    "an unreachable target is a connect() that raises ConnectionRefusedError (also TimeoutError / OSError) on the scripted wire; one connection attempt "
    "takes 50 virtual ms; 'never returns' means: not within 120 virtual seconds after the call (the harness cap), which for the modelled loop "
    "(reconnect_bounded: at most timeout/100 ms + 1 attempts) is far beyond every deadline used",
    "the client mutex is instrumented in place (instance re-classed to a tracing subclass of its own class), so acquire() / release() of whatever "
    "asyncio.Lock subclass the client uses run for real; a mutex that is not an asyncio.Lock is replaced by a traced plain asyncio.Lock (the "
    "regenerated lock-site table reports the changed creation site)",
    "a waiting caller is cancelled by Task.cancel() at its acquire, by an asyncio.wait_for() deadline (deadlines chosen so that they do not coincide "
    "with another event of the run; the caller gives up after the deadline) and by stop_cyclic_tester_present() of a queued worker; a caller "
    "that goes on using the client after its own wait_for() timed out is covered by the model (a cancelled call ends, the next call is a new "
    "round) but not provoked by the tie",
    "ReadMemoryByAddress replies carry neither address nor format identifier: a late reply for the SAME number of bytes is indistinguishable from "
    "the caller's own (rmba_same_size_indistinguishable); for a different number of bytes it is foreign (rmba_cross_is_foreign)",
    "the scripted wire keeps its inbox across reconnect() (a late reply may arrive on the new connection): the adversarial choice; the model's network "
    "may deliver any message at any time anyway",
]

TIMEOUT = 1.0
INTERVAL = 0.35


def ms(x):
    return int(round(x * 1000))


class Tracer:
    def __init__(self):
        self.events = []      # old style: (kind, tid), ops logged when they start
        self.sched = []       # new style: choices, ops logged when they complete
        self.ids = {}
        self.tasks = {}
        self.count = {}       # instrumented awaits entered, per task
        self.cancel_at = None
        self.cancel_req = set()
        self.x_done = set()
        self.rounds = {}      # tid -> list of round dicts
        self.inside = set()   # tids between got and rel
        self.waiting = set()  # tids between want and got
        self.holder = None    # harness' own view of the lock
        self.worker_tids = set()
        self.auto = set()     # tids whose rounds are derived from what they do (wait_for_ecu)
        self.next_tid = 1
        self.orig_sleep = None
        self.main = None      # the harness' own coroutine
        self.misuse = []      # (index into sched, tid, label, holder) wire ops completed by a task that does not hold the lock

    # -- task identities
    def register(self, task, worker=False):
        if task in self.ids:
            return self.ids[task]
        i = self.next_tid
        self.next_tid += 1
        self.ids[task] = i
        self.tasks[i] = task
        self.rounds[i] = []
        if worker:
            self.worker_tids.add(i)
        task.add_done_callback(lambda t, i=i: self._ended(t, i))
        return i

    def tid(self):
        """identity of the current task; a task nobody announced (e.g. an inner task created by shield() / wait_for() /
        create_task() inside the client) gets one on first sight: it has no program in the model, so whatever it does on
        the lock or the transport is reported"""
        t = asyncio.current_task()
        if t is None or t is self.main:
            return None
        if t not in self.ids:
            self.register(t)
        return self.ids[t]

    def _ended(self, t, i):
        if t.cancelled():
            self.delivered(i)
        self.events.append(("ended", i))

    # -- rounds
    def begin_round(self, i, desc):
        if self.rounds[i] and "end" not in self.rounds[i][-1]:
            self.rounds[i][-1]["end"] = len(self.sched)
        r = {"desc": desc, "reads": [], "writes": [], "rcs": [], "complete": False, "begin": len(self.sched)}
        self.rounds[i].append(r)
        return r

    def end_round(self, r):
        r["complete"] = True
        r["end"] = len(self.sched)

    def cur_round(self, i):
        if not self.rounds[i]:
            self.begin_round(i, ("S", 0))
        return self.rounds[i][-1]

    # -- instrumented awaits
    def enter(self, kind):
        """an instrumented await starts in the current task"""
        i = self.tid()
        if i is None:
            return None
        n = self.count[i] = self.count.get(i, 0) + 1
        if self.cancel_at == (i, n):
            self.cancel_req.add(i)
            asyncio.get_event_loop().call_soon(self.cancel_task, self.tasks[i])
        return i

    def cancel_task(self, task):
        """Task.cancel().  A task blocked in lock.acquire() is out of the queue from this moment on as far as the lock is concerned
        (its waiter future is cancelled: release() and the fast path of acquire() skip it), although the task itself
        sees the CancelledError only at its next step - so that is where the cancellation is delivered."""
        i = self.ids.get(task)
        if i is not None and i in self.waiting and not task.done():
            self.note_cancelled_waiter(i)
        return task.cancel()

    def note_cancelled_waiter(self, i):
        if i not in self.x_done:
            self.events.append(("unwait", i))
            self.waiting.discard(i)
            self.delivered(i)

    def old(self, kind):
        i = self.tid()
        if i is not None:
            self.events.append((kind, i))

    def step(self, label):
        """the current task completed the await point `label`"""
        i = self.tid()
        if i is None:
            return
        if label in ("w", "r", "c") and self.holder != i:
            self.misuse.append((len(self.sched), i, label, self.holder))
        self.sched.append(f"r:{i}:{label}")

    def delivered(self, i):
        """CancelledError reached task i"""
        if i not in self.x_done:
            self.x_done.add(i)
            self.sched.append(f"x:{i}")
            self.inside.discard(i)


def make_lock(tr, real=None):
    """the client's OWN mutex, instrumented in place: the tracing class is derived from the class of the lock the client created and the
    instance is re-classed, so whatever that class does in acquire() / release() (inner tasks, polling, logging) runs underneath the
    instrumentation; a mutex that is not an asyncio.Lock (or cannot be re-classed) is replaced by a traced plain asyncio.Lock as before"""
    base = type(real) if isinstance(real, asyncio.Lock) else asyncio.Lock
    cls = _tracing_lock_class(tr, base)
    if isinstance(real, asyncio.Lock) and not real.locked():
        try:
            real.__class__ = cls
            return real
        except TypeError:
            pass
    return _tracing_lock_class(tr, asyncio.Lock)()


def _tracing_lock_class(tr, base):
    class TracingLock(base):
        async def acquire(self):
            i = tr.tid()
            if i in tr.auto:
                tr.begin_round(i, ("?",))
            tr.enter("want")
            tr.old("want")
            tr.step("want")
            tr.waiting.add(i)
            try:
                r = await super().acquire()
            except asyncio.CancelledError:
                if i is not None and i not in tr.x_done:
                    tr.old("unwait")
                    tr.delivered(i)
                tr.waiting.discard(i)
                raise
            tr.waiting.discard(i)
            tr.old("got")
            tr.step("got")
            tr.inside.add(i)
            tr.holder = i
            return r

        async def __aexit__(self, exc_type, exc, tb):
            if exc_type is not None and issubclass(exc_type, asyncio.CancelledError):
                i = tr.tid()
                if i is not None:
                    tr.delivered(i)
                tr.old("rel")
                tr.holder = None
                super().release()
                return None
            self.release()
            return None

        def release(self):
            tr.old("rel")
            tr.step("rel")
            i = tr.tid()
            tr.inside.discard(i)
            tr.holder = None
            super().release()

    return TracingLock


class Net:
    """the medium behind every Wire instance: one inbox; a message is handed to whoever reads next"""

    def __init__(self, tr, plan, rc_script):
        self.tr = tr
        self.plan = plan
        self.inbox = deque()
        self.fault = None
        self.waiters = []
        self.nwrites = {}
        self.rc_script = list(rc_script)
        self.nconnect = 0
        self.rc_default = "o"  # outcome of every connection attempt after the scripted ones ("C": the target stays away)

    def deliver(self, item):
        if isinstance(item, str):
            self.fault = item
        else:
            self.inbox.append(item)
            self.tr.sched.append("d:" + item.hex())
        for f in self.waiters:
            if not f.done():
                f.set_result(None)


def make_wire(tr, net):
    from gallia.transports.base import BaseTransport, TargetURI

    class Wire(BaseTransport, scheme="fake"):
        def __init__(self, target=None):
            super().__init__(target or TargetURI("fake://wire"))

        @classmethod
        async def connect(cls, target, timeout=None):
            tr.enter("c")
            await tr.orig_sleep(0.05)
            k = net.nconnect
            net.nconnect += 1
            res = net.rc_script[k] if k < len(net.rc_script) else net.rc_default
            i = tr.tid()
            if i is not None:
                r = tr.cur_round(i)
                if r["desc"][0] in ("C", "?"):
                    r["desc"] = ("C", res)
                else:
                    r["rcs"].append(res)
            tr.step("c")
            if res == "C":
                raise ConnectionRefusedError("scripted")
            if res == "T":
                raise TimeoutError("scripted")
            if res == "O":
                raise OSError(113, "scripted: no route to host")
            return cls(target if not isinstance(target, str) else TargetURI(target))

        async def close(self):
            tr.old("c")
            self.is_closed = True

        async def write(self, data, timeout=None, tags=None):
            tr.enter("w")
            tr.old("w")
            await tr.orig_sleep(0)
            data = bytes(data)
            k = net.nwrites.get(data, 0)
            net.nwrites[data] = k + 1
            res, replies = net.plan(data, k)
            i = tr.tid()
            if i is not None:
                r = tr.cur_round(i)
                if r["desc"][0] == "?":
                    r["desc"] = ("R", data.hex(), ms(TIMEOUT), 0, None if timeout is None else ms(timeout), 0)
                r["writes"].append(res)
            tr.step("w")
            if res == "C":
                raise ConnectionResetError("scripted")
            if res == "T":
                raise TimeoutError("scripted")
            loop = asyncio.get_event_loop()
            for delay, reply in replies:
                loop.call_later(delay, net.deliver, reply)
            return len(data)

        async def read(self, timeout=None, tags=None):
            tr.enter("r")
            tr.old("r")
            loop = asyncio.get_event_loop()
            deadline = None if timeout is None else loop.time() + timeout
            i = tr.tid()

            def done(item):
                if i is not None:
                    tr.cur_round(i)["reads"].append(item)
                tr.step("r")

            while True:
                if net.fault is not None:
                    f, net.fault = net.fault, None
                    if f == "!E":
                        done("e")
                        return b""
                    done("c")
                    raise ConnectionResetError("scripted")
                if net.inbox:
                    b = net.inbox.popleft()
                    done(b.hex())
                    return b
                if deadline is not None and loop.time() >= deadline:
                    done("t")
                    raise TimeoutError("scripted: nothing received")
                fut = loop.create_future()
                h = None
                if deadline is not None:
                    h = loop.call_at(deadline, lambda: fut.done() or fut.set_result(None))
                net.waiters.append(fut)
                try:
                    await fut
                finally:
                    if h is not None:
                        h.cancel()
                    net.waiters.remove(fut)

    return Wire()


def did_pdu(did):
    return bytes([0x22, did >> 8, did & 0xFF])


def reply_script(kind, pdu):
    """-> (write result, [(delay, message | fault marker)]) for one transmission of `pdu`"""
    if pdu[0] == 0x22:
        pos = bytes([0x62, pdu[1], pdu[2], 0xAB])
        other = bytes([0x62, pdu[1], pdu[2] ^ 0x80, 0xCD])
    elif pdu[0] == 0x23 and len(pdu) >= 2:
        # ReadMemoryByAddress: addressAndLengthFormatIdentifier (low nibble: bytes of the address, high nibble: bytes of the size), address, size;
        # the positive reply carries exactly `size` bytes (taken from the address, so replies to different requests differ), nothing is echoed
        al, sl = pdu[1] & 0x0F, pdu[1] >> 4
        addr = int.from_bytes(pdu[2: 2 + al], "big")
        size = min(int.from_bytes(pdu[2 + al: 2 + al + sl], "big"), 64)
        pos = bytes([0x63]) + bytes(((addr >> 8) + (addr & 0xFF) + k) & 0xFF for k in range(size))
        other = bytes([0x63]) + bytes([0xCD] * (size + 1))
    else:
        # positive reply of a sub-function service: the sub-function is echoed WITHOUT the suppressPosRspMsgIndication bit, then the identifier
        pos = bytes([(pdu[0] + 0x40) & 0xFF]) + bytes([b & 0x7F for b in pdu[1:2]]) + pdu[2:4]
        other = bytes([(pdu[0] + 0x41) & 0xFF]) + pdu[1:2]
    sid = pdu[0]
    pend = bytes([0x7F, sid, 0x78])
    table = {
        "imm": ("o", [(0.01, pos)]),
        "slow": ("o", [(0.3, pos)]),
        "pend": ("o", [(0.01, pend), (0.4, pend), (0.8, pos)]),
        "timeout": ("o", []),
        "late": ("o", [(TIMEOUT + 0.3, pos)]),
        "error": ("o", [(0.01, "!C")]),
        "eof": ("o", [(0.02, "!E")]),
        "neg": ("o", [(0.02, bytes([0x7F, sid, 0x31]))]),
        "busy": ("o", [(0.02, bytes([0x7F, sid, 0x21]))]),
        "penderr": ("o", [(0.01, pend), (0.3, "!C")]),
        "foreign": ("o", [(0.02, other)]),
        "wfaultC": ("C", []),
        "wfaultT": ("T", []),
    }
    return table[kind]


OLD_KINDS = ["imm", "pend", "timeout", "late", "error", "neg"]
NEW_KINDS = ["slow", "eof", "busy", "penderr", "foreign", "wfaultC", "wfaultT"]
RETRYABLE = ("timeout", "late", "error", "eof", "busy", "penderr", "wfaultC", "wfaultT")


# ---------------------------------------------------------------------------- the public service methods and their options
# api of a call: "typed" (read_data_by_identifier), "raw" (send_raw), "ping" (ECU.ping), or "svc:<method>:<0|1>": any public coroutine method
# of the client that has a `suppress_response` option, called with that option off / on; the other arguments are synthesised from the
# signature (ints and bytes from the call's number), the request bytes are learnt from a dry run on a throw-away client.

_SVC_CACHE = {}
_PDU_CACHE = {}


def svc_methods():
    """names of the public coroutine methods of ECU with a `suppress_response` parameter whose other parameters can be synthesised"""
    if "names" not in _SVC_CACHE:
        import inspect
        from gallia.services.uds.ecu import ECU
        names = []
        for name, fn in inspect.getmembers(ECU, inspect.iscoroutinefunction):
            if name.startswith("_") or not {"suppress_response", "config"} <= set(inspect.signature(fn).parameters):
                continue
            if svc_args(name, 0x1235) is not None:
                names.append(name)
        _SVC_CACHE["names"] = sorted(names)
    return _SVC_CACHE["names"]


def svc_args(name, did):
    import inspect
    from gallia.services.uds.ecu import ECU
    kw = {}
    for n, p in inspect.signature(getattr(ECU, name)).parameters.items():
        if n in ("self", "config", "suppress_response") or p.default is not inspect.Parameter.empty:
            continue
        a = str(p.annotation)
        if "int" in a:
            kw[n] = (did & 0x3F) | 1
        elif "bytes" in a:
            kw[n] = bytes([did & 0xFF])
        elif "bool" in a:
            kw[n] = False
        else:
            return None
    return kw


def invoke(client, api, did, pdu, cfg):
    """the coroutine of one call through the public API"""
    if api == "raw":
        return client.send_raw(pdu, config=cfg)
    if api == "typed":
        return client.read_data_by_identifier(did, config=cfg)
    if api == "ping":
        return client.ping(config=cfg)
    if api.startswith("rmba:"):  # rmba:<format identifier | none>:<address>:<size>: the same service with explicit, possibly non-minimal options
        _, alfid, addr, size = api.split(":")
        return client.read_memory_by_address(int(addr), int(size), None if alfid == "none" else int(alfid), config=cfg)
    _, name, sup = api.split(":")
    return getattr(client, name)(**svc_args(name, did), suppress_response=(sup == "1"), config=cfg)


async def call_pdu(api, did):
    """request bytes of the call: known for typed / raw, otherwise the first transmission of a dry run on a throw-away client (no lock, no
    tracer involved; must run before asyncio.sleep / create_task are instrumented)"""
    if api in ("typed", "raw"):
        return did_pdu(did)
    key = (api, did)
    if key not in _PDU_CACHE:
        from gallia.services.uds.core.client import UDSRequestConfig
        from gallia.services.uds.ecu import ECU
        from gallia.transports.base import BaseTransport, TargetURI

        class Dry(BaseTransport, scheme="dry"):
            def __init__(self):
                super().__init__(TargetURI("dry://x"))
                self.w = []

            @classmethod
            async def connect(cls, target, timeout=None):
                return cls()

            async def close(self):
                pass

            async def write(self, data, timeout=None, tags=None):
                self.w.append(bytes(data))
                return len(data)

            async def read(self, timeout=None, tags=None):
                raise TimeoutError("dry")

        d = Dry()
        try:
            await invoke(ECU(d, timeout=0.01, max_retry=0), api, did, b"", UDSRequestConfig(max_retry=0))
        except Exception:
            pass
        _PDU_CACHE[key] = d.w[0] if d.w else None
    return _PDU_CACHE[key]


def classify_exc(e, G):
    if isinstance(e, G["MissingResponse"]):
        return "missing:1" if isinstance(e.__cause__, ConnectionError) else "missing:0"
    if isinstance(e, G["IllegalResponse"]):
        return "illegal"
    if isinstance(e, RuntimeError) and "ResponsePending" in str(e):
        return "stuck"
    if isinstance(e, ConnectionError):
        return "raw:C"
    if isinstance(e, TimeoutError):
        return "raw:T"
    if isinstance(e, OSError):
        return "raw:O"
    return "exc:" + type(e).__name__


async def scenario(spec, cancel_at):
    """spec: {"tasks": [task, ...], "worker": bool, "worker_scripts": [...], "rc": "oC.."}
    task: ("req", offset, [(api, did, script, max_retry), ...]) | ("reconnect", offset)
    api: typed | raw;  script: kind or list of kinds per transmission"""
    from gallia.services.uds.core.client import UDSRequestConfig
    from gallia.services.uds.core.exception import IllegalResponse, MissingResponse
    from gallia.services.uds.ecu import ECU

    G = {"MissingResponse": MissingResponse, "IllegalResponse": IllegalResponse}
    tr = Tracer()
    tr.main = asyncio.current_task()
    tr.cancel_at = cancel_at
    tr.orig_sleep = asyncio.sleep
    orig_sleep, orig_create_task = asyncio.sleep, asyncio.create_task
    scripts_by_pdu = {}
    wscripts = list(spec.get("worker_scripts") or ["imm"])

    pdus = {}
    for d in spec["tasks"]:
        if d[0] in ("req", "reqd"):
            for api, did, _script, _m in d[-1]:
                pdus[(api, did)] = await call_pdu(api, did)

    def plan(pdu, k):
        if pdu == b"\x3e\x00":
            kind = wscripts[min(k, len(wscripts) - 1)]
            return reply_script(kind, pdu)
        s = scripts_by_pdu.get(pdu)
        if s is None:
            return ("o", [])
        kind = s if isinstance(s, str) else s[min(k, len(s) - 1)]
        return reply_script(kind, pdu)

    net = Net(tr, plan, spec.get("rc", ""))
    net.rc_default = spec.get("rc_default") or "o"
    wire = make_wire(tr, net)
    ecu = ECU(wire, timeout=TIMEOUT, max_retry=0)
    ecu.mutex = make_lock(tr, getattr(ecu, "mutex", None))
    if spec.get("believed_session"):
        ecu.state.session = spec["believed_session"]
        ecu.state.security_access_level = spec.get("believed_level")

    async def traced_sleep(delay, result=None):
        i = tr.tid()
        if i is None:
            return await orig_sleep(delay, result)
        if i in tr.worker_tids and i not in tr.inside:
            tr.begin_round(i, ("W", ms(delay)))
        elif i in tr.auto and i not in tr.inside:
            cur = tr.rounds[i][-1] if tr.rounds[i] else None
            if not (cur is not None and cur["desc"][0] == "A" and not cur.get("slept")):
                tr.begin_round(i, ("S", ms(delay)))
            else:
                cur["slept"] = True
        tr.enter("s")
        r = await orig_sleep(delay, result)
        tr.step(f"s{ms(delay)}")
        return r

    def traced_create_task(coro, **kw):
        t = orig_create_task(coro, **kw)
        if getattr(getattr(coro, "cr_code", None), "co_name", "") == "_tester_present_worker":
            w = tr.register(t, worker=True)
            i = tr.tid()
            if i is not None:
                if i in tr.auto:
                    tr.begin_round(i, ("A", w))
                r = tr.cur_round(i)
                if r["desc"][0] == "A":
                    r["desc"] = ("A", w)
                tr.step(f"spawn{w}")
        return t

    results = {}   # tid -> list of (round index, result)
    reqs = {}      # (tid, round index) -> request bytes

    async def caller(offset, calls, deadline=None):
        i = tr.register(asyncio.current_task())
        results[i] = []
        await orig_sleep(offset)
        for api, did, script, max_retry in calls:
            pdu = pdus[(api, did)]
            if pdu is None:  # the method refuses the synthesised arguments before anything is sent: not a call
                continue
            r = tr.begin_round(i, ("R", pdu.hex(), ms(TIMEOUT), 0, None, max_retry))
            n = len(tr.rounds[i]) - 1
            reqs[(i, n)] = pdu
            cfg = UDSRequestConfig(max_retry=max_retry)
            try:
                if deadline is None:
                    resp = await invoke(ecu, api, did, pdu, cfg)
                else:  # asyncio.wait_for(): the deadline cancels this very task at whatever await it is suspended in
                    resp = await asyncio.wait_for(invoke(ecu, api, did, pdu, cfg), deadline)
                results[i].append((n, ("reply", resp.pdu.hex()) if resp is not None else ("none",)))
            except asyncio.CancelledError:
                results[i].append((n, ("cancelled",)))
                raise
            except TimeoutError as e:
                if deadline is not None and i in tr.x_done:  # the deadline's cancellation was delivered inside the call: the caller gives up
                    results[i].append((n, ("cancelled", "wait_for-deadline")))
                    return
                results[i].append((n, (classify_exc(e, G),)))
            except Exception as e:
                results[i].append((n, (classify_exc(e, G),)))
            tr.end_round(r)

    async def reconnecter(offset):
        i = tr.register(asyncio.current_task())
        results[i] = []
        await orig_sleep(offset)
        r = tr.begin_round(i, ("C", "o"))
        try:
            await ecu.reconnect()
            results[i].append((0, ("ok",)))
        except asyncio.CancelledError:
            results[i].append((0, ("cancelled",)))
            raise
        except Exception as e:
            results[i].append((0, (classify_exc(e, G),)))
        tr.end_round(r)

    callers_done = asyncio.Event()

    async def controller():
        i = tr.register(asyncio.current_task())
        results[i] = []
        r = tr.begin_round(i, ("A", 0))
        await ecu.start_cyclic_tester_present(INTERVAL)
        tr.end_round(r)
        if spec.get("stop_at") is not None:  # the worker is stopped in the middle of the run (it may be waiting for the client just then)
            await orig_sleep(spec["stop_at"])
        else:
            await callers_done.wait()
            await orig_sleep(0.5)
        w = tr.ids.get(ecu.tester_present_task, 0)
        r = tr.begin_round(i, ("Z", w))
        await ecu.stop_cyclic_tester_present()
        tr.end_round(r)

    orig_stop = ecu.stop_cyclic_tester_present

    async def traced_stop():
        i = tr.tid()
        w = tr.ids.get(ecu.tester_present_task, 0)
        live = i is not None and ecu.tester_present_task is not None
        if live:
            if i in tr.auto:
                tr.begin_round(i, ("Z", w))
            tr.step(f"stop{w}")
            if w in tr.waiting:  # cancel() is the next thing stop_cyclic_tester_present() does, without suspending
                tr.note_cancelled_waiter(w)
        await orig_stop()
        if live:
            tr.step(f"join{w}")

    ecu.stop_cyclic_tester_present = traced_stop

    async def ecu_waiter(offset):
        """ECU.wait_for_ecu(): stops the worker, pings every 0.5 s (reconnecting through the lock after a lost connection), restarts the worker"""
        i = tr.register(asyncio.current_task())
        tr.auto.add(i)
        results[i] = []
        await orig_sleep(offset)
        try:
            ok = await ecu.wait_for_ecu(timeout=10)
            results[i].append((0, ("wfe", ok)))
        except asyncio.CancelledError:
            results[i].append((0, ("cancelled",)))
            raise
        except Exception as e:
            results[i].append((0, (classify_exc(e, G),)))

    asyncio.sleep = traced_sleep
    asyncio.create_task = traced_create_task
    try:
        ctl = None
        if spec.get("worker"):
            ctl = asyncio.ensure_future(controller())
        for d in spec["tasks"]:
            if d[0] in ("req", "reqd"):
                for api, did, script, _m in d[-1]:
                    if pdus[(api, did)] is not None:
                        scripts_by_pdu[pdus[(api, did)]] = script
        tasks = []
        for d in spec["tasks"]:
            if d[0] in ("req", "reqd") and all(pdus[(api, did)] is None for api, did, _s, _m in d[-1]):
                continue  # every call of this task is refused by the method itself before anything is sent: not a user of the client
            if d[0] == "req":
                tasks.append(asyncio.ensure_future(caller(d[1], d[2])))
            elif d[0] == "reqd":
                tasks.append(asyncio.ensure_future(caller(d[1], d[3], deadline=d[2])))
            elif d[0] == "wfe":
                tasks.append(asyncio.ensure_future(ecu_waiter(d[1])))
            else:
                tasks.append(asyncio.ensure_future(reconnecter(d[1])))
        done, pending = await asyncio.wait(tasks, timeout=120) if tasks else (set(), set())
        stuck = len(pending)
        stuck_tids = sorted(tr.ids[t] for t in pending if t in tr.ids)
        lock_at_cap = (tr.holder, sorted(tr.waiting))
        for t in pending:
            tr.cancel_task(t)
        callers_done.set()
        if ctl is not None:
            d2, p2 = await asyncio.wait([ctl], timeout=30)
            if p2:
                stuck += 1
                tr.cancel_task(ctl)
            # a worker that outlives its controller (controller cancelled by the harness) is stopped here
            wt = ecu.tester_present_task
            if wt is not None and not wt.done():
                tr.cancel_task(wt)
                await asyncio.wait([wt], timeout=5)
        await orig_sleep(0.01)
        locked_end = bool(ecu.mutex.locked())  # the REAL lock object, asked directly once everybody has ended
    finally:
        asyncio.sleep = orig_sleep
        asyncio.create_task = orig_create_task
    return {"locked_end": locked_end, "events": tr.events, "sched": tr.sched, "rounds": tr.rounds, "results": results, "reqs": reqs, "stuck": stuck,
            "stuck_tids": stuck_tids, "lock_at_cap": lock_at_cap,
            "count": dict(tr.count), "workers": sorted(tr.worker_tids), "misuse": tr.misuse, "auto": sorted(tr.auto)}


def _fmt(events):
    return " ".join(f"{k}:{t}" for k, t in events)


def _opt(x):
    return "none" if x is None else str(x)


def round_token(r):
    d = r["desc"]
    rds = ",".join(r["reads"]) or "-"
    wrs = "".join(r["writes"]) or "-"
    rcs = "".join(r["rcs"]) or "-"
    if d[0] == "R":
        return f"R/{d[1]}/{d[2]}/{d[3]}/{_opt(d[4])}/{_opt(d[5])}/{rds}/{wrs}/{rcs}"
    if d[0] == "W":
        return f"W/{d[1]}/{ms(TIMEOUT)}/{rds}/{wrs}"
    if d[0] == "C":
        return f"C/{d[1]}"
    if d[0] == "?":  # acquired (or still waiting) when it was cancelled: nothing of the call was seen
        return f"R/3e00/{ms(TIMEOUT)}/0/500/0/-/-/-"
    return f"{d[0]}/{d[1]}"


def model_lines(run):
    """driver lines for one recorded run"""
    lines = ["reset"]
    tids = sorted(run["rounds"])
    for i in tids:
        rs = run["rounds"][i]
        worker = i in run["workers"]
        toks = [round_token(r) for r in rs] or (["W/%d/%d/-/-" % (ms(INTERVAL), ms(TIMEOUT))] if worker else ["S/0"])
        lines.append(f"task {i} {0 if worker else 1} {1 if worker else 0} " + " ".join(toks))
    lines.append("sched " + " ".join(run["sched"]))
    return lines, tids


def gen_specs(ctx):
    rng = ctx.rng
    specs = []
    did = [0x1000]

    def fresh():
        did[0] += 1
        return did[0]

    def call(kind, max_retry=None, api="typed"):
        if max_retry is None:
            max_retry = 1 if kind in ("timeout", "error") else 0
        script = kind if max_retry == 0 else [kind, "imm"]
        return (api, fresh(), script, max_retry)

    # (1) all ordered pairs of the round-1 scripts for two callers x 3 arrival patterns x worker on/off
    for a, b in itertools.product(OLD_KINDS, OLD_KINDS):
        for offs in [(0.0, 0.0), (0.0, 0.2), (0.3, 0.0)]:
            for tpw in (False, True):
                did[0] = 0x1000
                specs.append({"tasks": [("req", offs[0], [call(a, 0)]), ("req", offs[1], [call(b)])], "worker": tpw})
    ctx.exhaustive_parts.append("all ordered pairs of the 6 reply scripts (immediate, pending, timeout, late reply after the timeout, read error, "
                                "negative) for two callers x 3 arrival patterns x tester-present worker on/off")
    # (2) the widened alphabet: every new script against every old one, both orders, worker on
    for a in NEW_KINDS:
        for b in OLD_KINDS:
            for first in (0, 1):
                did[0] = 0x1100
                pair = [call(a, 1 if a in RETRYABLE else 0), call(b, 0)]
                if first:
                    pair.reverse()
                specs.append({"tasks": [("req", 0.0, [pair[0]]), ("req", 0.1, [pair[1]])], "worker": True, "rc": "o"})
    # reconnect failures inside the retry loop and in reconnect() itself, racing with requests
    for a in ("error", "eof", "wfaultC", "penderr"):
        for rc in ("C", "T", "O", "oC"):
            for b in ("imm", "pend", "late"):
                did[0] = 0x1200
                specs.append({"tasks": [("req", 0.0, [call(a, 2)]), ("req", 0.05, [call(b, 0)]), ("reconnect", 0.1)],
                              "worker": rc == "C", "rc": rc})
    # the same with a client that has left the default session earlier (state carried between calls: hooks that run on a reconnect and
    # look at the tracked session / security level run while the reconnecting caller holds the client)
    for a in ("error", "eof", "penderr"):
        for rc in ("o", "oC", "C"):
            did[0] = 0x1280
            specs.append({"tasks": [("req", 0.0, [call(a, 2)]), ("req", 0.05, [call("imm", 0)]), ("reconnect", 0.1), ("req", 0.3, [call("imm", 0)])],
                          "worker": rc != "C", "rc": rc, "believed_session": 3, "believed_level": 1 if rc == "o" else None})
    ctx.exhaustive_parts.append("every script of the widened alphabet (slow reply, end of stream, busy, connection loss while pending, foreign reply, "
                                "write fault ConnectionError / TimeoutError) x every old script x both arrival orders; connection loss with retry x "
                                "reconnect outcome (refused, timeout, OSError, second one refused) x competing caller x explicit reconnect()")
    # (3) reply crossing: the first caller's reply is still in flight when the client is handed over; typed / raw / mixed
    for api_a, api_b in itertools.product(("typed", "raw"), repeat=2):
        for a in ("late", "slow", "pend"):
            for b in ("imm", "slow", "pend", "timeout", "late"):
                for tpw in (False, True):
                    did[0] = 0xF100
                    specs.append({"tasks": [("req", 0.0, [call(a, 0, api_a)]), ("req", 0.05, [call(b, 0, api_b)])], "worker": tpw,
                                  "cross": True})
    ctx.exhaustive_parts.append("reply crossing: first caller {late, slow, pending} x second caller {immediate, slow, pending, timeout, late} x "
                                "{typed, send_raw}^2 (same service, different identifiers) x worker on/off, each also with the first caller "
                                "cancelled at every await")
    # (3b) wait_for_ecu(): stops the worker, pings, reconnects through the lock after a lost connection, restarts the worker
    for ws in (["imm"], ["error", "imm"], ["timeout", "imm"], ["eof", "error", "imm"], ["wfaultC", "imm"]):
        for b in ("imm", "pend", "late", "error"):
            for tpw in (False, True):
                for off in (0.0, 0.4):
                    did[0] = 0x1300
                    specs.append({"tasks": [("wfe", off), ("req", 0.1, [call(b, 1 if b == "error" else 0)]), ("req", 0.6, [call("imm", 0, "raw")])],
                                  "worker": tpw, "worker_scripts": ws, "rc": "o"})
    ctx.exhaustive_parts.append("ECU.wait_for_ecu() (stop worker, ping every 0.5 s, reconnect() through the lock after a lost connection, restart "
                                "worker) x 5 ping scripts x 4 competing caller scripts x worker on/off x 2 offsets")
    # (3c) the public service methods with their non-default options next to an exchange in flight: tester_present(suppress_response=True /
    # False), ping(), and every public method with a `suppress_response` option (both values), called by a keep-alive task K while the exchange of
    # A is open (request written, final reply not yet delivered - incl. a ResponsePending extension), plus a third caller C
    tp_apis = ["svc:tester_present:1", "svc:tester_present:0", "ping"]
    for a in ("pend", "slow", "late", "imm"):
        for kapi in tp_apis:
            for ks in ("timeout", "neg", "imm"):
                for koff in (0.0, 0.05, 0.5):
                    for tpw in (False, True):
                        did[0] = 0x1400
                        specs.append({"tasks": [("req", 0.0, [call(a, 0)]), ("req", koff, [call(ks, 0, kapi)]), ("req", 0.1, [call("imm", 0)])],
                                      "worker": tpw, "worker_scripts": [ks, "imm"]})
    for name in svc_methods():
        for sup in (0, 1):
            for a in ("pend", "slow"):
                did[0] = 0x1480
                ks = "timeout" if sup else "imm"
                specs.append({"tasks": [("req", 0.0, [call(a, 0)]), ("req", 0.05, [call(ks, 0, f"svc:{name}:{sup}")]), ("req", 0.1, [call("imm", 0)])],
                              "worker": False})
    ctx.exhaustive_parts.append("public service options next to an exchange in flight: first caller {pending, slow, late, immediate} x keep-alive caller "
                                "{tester_present(suppress_response=True), tester_present(), ping()} x its reply {silence, negative, positive} x 3 "
                                "arrival offsets x worker on/off x a third caller; every public method with a suppress_response option "
                                f"({len(svc_methods())} methods) x option off/on x first caller {{pending, slow}}")
    # (3d) reconnects against a target whose connect FAILS: refused k times then accepted, refused forever; explicit reconnect() and the automatic
    # reconnect of a request with max_retry > 0 after a lost connection; a second user shares the client (and the worker)
    for rc, rcd in (("C", "o"), ("CC", "o"), ("CCC", "o"), ("", "C"), ("o", "C"), ("T", "C"), ("O", "C")):
        for b in ("imm", "pend", "timeout"):
            for tpw in (False, True):
                did[0] = 0x1500
                specs.append({"tasks": [("reconnect", 0.0), ("req", 0.05, [call(b, 0)])], "worker": tpw, "rc": rc, "rc_default": rcd})
                for a in ("error", "eof", "wfaultC", "penderr"):
                    for m in (1, 2):
                        if tpw and m == 2:
                            continue
                        did[0] = 0x1500
                        specs.append({"tasks": [("req", 0.0, [call(a, m)]), ("req", 0.05, [call(b, 0)])], "worker": tpw, "rc": rc, "rc_default": rcd})
    ctx.exhaustive_parts.append("unreachable target: connect refused 1..3 times then accepted / refused forever (also after one success, a timeout, an "
                                "OSError) x {explicit reconnect(), automatic reconnect of a request with max_retry 1, 2 after read error / end of stream / "
                                "write fault / loss while pending} x second caller {immediate, pending, timeout} x worker on/off")
    # (3e) a caller that WAITS for the client behind another task's long exchange is cancelled - Task.cancel() (the enumeration below cancels every
    # task of these sets at every await, so also B and C while they wait), an asyncio.wait_for() deadline (firing while B waits / while B holds), the
    # worker being stopped while it is queued - and further callers follow (C queued behind it, D arriving after everything): all must progress
    end_a = {"slow": 0.3, "pend": 0.8, "late": TIMEOUT, "timeout": TIMEOUT}
    for a in ("slow", "pend", "late", "timeout"):
        for mode in ("cancel", "deadline-wait", "deadline-hold", "stop"):
            for tpw in (False, True):
                if mode == "stop" and not tpw:
                    continue
                did[0] = 0x1600
                a_off = 0.1 if mode == "stop" else 0.0
                ta = [("req", a_off, [call(a, 0)])]
                if mode == "cancel":
                    ta.append(("req", 0.05, [call("imm", 0)]))
                elif mode == "deadline-wait":
                    ta.append(("reqd", 0.05, 0.137, [call("imm", 0)]))
                elif mode == "deadline-hold":
                    ta.append(("reqd", 0.05, end_a[a] - 0.05 + 0.137, [call("slow", 0)]))
                ta.append(("req", 0.2, [call("imm", 0, "raw")]))
                ta.append(("req", a_off + end_a[a] + 0.9, [call("imm", 0), call("imm", 0)]))
                sp = {"tasks": ta, "worker": tpw, "wcancel": True}
                if mode == "stop":
                    sp["stop_at"] = 0.38  # the worker asked for the client at 0.35 and is queued behind A (and C)
                specs.append(sp)
    ctx.exhaustive_parts.append("cancellation of a WAITING caller: first caller {slow, pending, late, timeout} holds the client x the queued caller is ended "
                                "by {Task.cancel() at every await of every task, wait_for() deadline while waiting, wait_for() deadline while holding, "
                                "stop of the queued tester-present worker} x worker on/off, followed by a caller queued behind it and a later caller "
                                "with two calls")
    # (3f) late-reply crossing between requests of the SAME service that differ only in their parameters and are built with explicit options:
    # ReadMemoryByAddress with the default (minimal) and explicit, non-minimal address-and-length format identifiers, different addresses / sizes;
    # nothing in the reply but what the codec's own matching looks at (the number of bytes) tells the replies apart
    def rcall(kind, alfid, addr, size, max_retry=0):
        return (f"rmba:{'none' if alfid is None else alfid}:{addr}:{size}", fresh(), kind if max_retry == 0 else [kind, "imm"], max_retry)

    for fa, fb in ((None, None), (0x24, 0x24), (0x44, 0x44), (0x24, 0x44), (0x12, None), (0x14, 0x24)):
        for (sa, sb) in ((4, 8), (8, 3), (4, 4)):
            for a in ("late", "slow", "pend"):
                for b in ("imm", "slow", "pend", "timeout", "late"):
                    for tpw in ((False, True) if fa == fb else (False,)):
                        did[0] = 0x1700
                        specs.append({"tasks": [("req", 0.0, [rcall(a, fa, 0x1000, sa)]), ("req", 0.05, [rcall(b, fb, 0x2000, sb)])],
                                      "worker": tpw, "cross": tpw})
    ctx.exhaustive_parts.append("reply crossing within ONE service with explicit options: read_memory_by_address with address_and_length_format_identifier "
                                "{default, 0x24, 0x44, 0x24 vs 0x44, 0x12 vs default, 0x14 vs 0x24} x sizes {4 vs 8, 8 vs 3, 4 vs 4} x first caller {late, "
                                "slow, pending} x second caller {immediate, slow, pending, timeout, late}")
    # (4) 3..5 tasks sampled, two calls per task possible
    allk = OLD_KINDS + NEW_KINDS
    for _ in range(ctx.pick(300, 1500)):
        n = rng.randint(3, 5)
        did[0] = 0x2000
        ts = []
        worker = False
        for i in range(n):
            r = rng.random()
            if r < 0.72:
                calls = [call(rng.choice(allk), rng.choice([0, 0, 1, 2]), rng.choice(["typed", "typed", "raw"]))
                         for _ in range(rng.choice([1, 1, 2]))]
                ts.append(("req", rng.choice([0.0, 0.0, 0.1, 0.2, 0.5]), calls))
            elif r < 0.88:
                ts.append(("reconnect", rng.choice([0.0, 0.05, 0.3])))
            else:
                worker = True
        if not ts:
            ts.append(("req", 0.0, [call("imm", 0)]))
        specs.append({"tasks": ts, "worker": worker or rng.random() < 0.3,
                      "worker_scripts": [rng.choice(["imm", "imm", "timeout", "error", "neg", "wfaultC"]) for _ in range(3)],
                      "rc": "".join(rng.choice("oooC") for _ in range(4))})
    # (5) the same sampling over the whole public surface: any service method with its suppress_response option on or off, ping(), requests with
    # retries, explicit reconnects, a target that may stay away
    svc = svc_methods()
    for _ in range(ctx.pick(150, 1000)):
        n = rng.randint(2, 4)
        did[0] = 0x3000
        ts = [("req", 0.0, [call(rng.choice(["pend", "slow", "late", "imm", "penderr"]), rng.choice([0, 0, 1]))])]
        for i in range(n):
            r = rng.random()
            off = rng.choice([0.0, 0.02, 0.05, 0.3, 0.5, 0.9])
            if r < 0.4:
                api = rng.choice(tp_apis)
                ts.append(("req", off, [call(rng.choice(["timeout", "timeout", "neg", "imm", "pend"]), rng.choice([0, 0, 1]), api)]))
            elif r < 0.8:
                sup = rng.choice([0, 1])
                ts.append(("req", off, [call(rng.choice(["timeout", "neg", "imm", "pend", "error"]) if sup else rng.choice(allk),
                                             rng.choice([0, 0, 1]), f"svc:{rng.choice(svc)}:{sup}")]))
            else:
                ts.append(("reconnect", off))
        specs.append({"tasks": ts, "worker": rng.random() < 0.4, "worker_scripts": [rng.choice(["imm", "timeout", "neg"]) for _ in range(2)],
                      "rc": "".join(rng.choice("ooC") for _ in range(rng.randint(0, 3))), "rc_default": rng.choice("oooC")})
    return specs


def run(ctx):
    setup_repo_import()
    import gallia.command  # noqa: F401
    ctx.rule = ("one case = (2..5 tasks: typed and raw requests with reply scripts immediate / slow / pending / timeout / late-after-timeout / read "
                "error / end of stream / negative / busy / loss while pending / foreign / write faults, retries with reconnect outcomes, the "
                "tester-present worker with start and stop, explicit reconnects; arrival offsets; optional cancellation of one task at its n-th "
                "instrumented await); distinct = distinct schedule; non-trivial = at least two tasks contend for the client")
    specs = gen_specs(ctx)
    cases = [(sp, None) for sp in specs]
    # cancellation at every instrumented await (lock acquire, write, read, backoff sleep, reconnect, the worker's interval sleep, start's sleep(0))
    stride = ctx.pick(4, 1)
    cancel_specs = [sp for k, sp in enumerate(specs) if sp.get("cross") or sp.get("wcancel") or k % stride == 0]
    for sp in cancel_specs:
        try:
            base, _ = vrun(scenario(sp, None), horizon=1e5)
        except (Stall, Exception):
            continue
        for t, n in sorted(base["count"].items()):
            if sp.get("cross") and t != (3 if sp.get("worker") else 1):
                continue  # crossing cases: the first caller only (the general enumeration covers everybody)
            if t in base["auto"]:
                continue  # wait_for_ecu() runs clean-up awaits (restart of the worker) while it is being cancelled: outside the model
            for j in range(1, min(n, ctx.pick(10, 16)) + 1):
                cases.append((sp, (t, j)))
    ctx.exhaustive_parts.append("cancellation of each task at each of its first 10 (thorough: 16) instrumented awaits (lock acquire, write, read, "
                                "backoff sleep, reconnect, interval sleep) for the covered task sets")

    infos, _outs = evaluate(ctx, cases)
    run_transport_reconnect(ctx)
    ctx.traces_validated += 2 * len(infos)
    if infos:
        for k in (0, len(infos) // 2, -1):
            case, r = infos[k][0], infos[k][1]
            ctx.sample({"spec": case["spec"], "cancel_at": case["cancel_at"], "sched": " ".join(r["sched"])[:1200]})


def evaluate(ctx, cases):
    """cases: [(spec, cancel_at)] -> (infos, outs): every case is run under virtual time, its event trace and its schedule are replayed through
    the Lean models and judged (ctx.disagree); outs[k] = the driver's lines for infos[k] (acceptor line, multi-task lines, foreign lines)"""
    lines, infos = [], []
    for sp, cancel_at in cases:
        ctx.ev()
        ctx.kind(f"tasks={len(sp['tasks']) + (1 if sp.get('worker') else 0)}", "cancel" if cancel_at else "no-cancel")
        case = {"spec": sp, "cancel_at": cancel_at}
        try:
            r, _vt = vrun(scenario(sp, cancel_at), horizon=1e5)
        except Stall as e:
            ctx.disagree("conc:stall", f"scenario never finishes: {e}", case, spec_violated=True, site="UDSClient._request / reconnect (lock not released?)")
            continue
        events = r["events"]
        if r["stuck"]:
            holder, waiting = r["lock_at_cap"]
            ctx.disagree("conc:caller-blocked-forever",
                         f"{r['stuck']} caller(s) (tasks {r['stuck_tids']}) got neither a reply nor an error within 120 virtual seconds; at that time the "
                         f"client lock was held by task {holder} and waited for by {waiting}; schedule starts: " + " ".join(r["sched"][:24])
                         + " ... ends: " + " ".join(r["sched"][-8:]),
                         {**case, "sched_head": " ".join(r["sched"][:60])}, impl=_fmt(events)[-600:], spec_violated=True, site="UDSClient._request / reconnect (lock not released?)")
            continue
        if r["locked_end"]:
            ctx.disagree("conc:lock-still-held-at-end",
                         "every task has ended (reply, error or cancellation) but the client's own mutex still reports locked(): somebody who is "
                         "not a caller any more holds it, the next user would block for ever; schedule ends: " + " ".join(r["sched"][-16:]),
                         {**case, "sched_head": " ".join(r["sched"][:60])}, impl=_fmt(events)[-600:], spec_violated=True,
                         site="UDSClient.mutex (acquire / release of the lock class the client uses)")
            continue
        ml, tids = model_lines(r)
        start = len(lines)
        lines.append("accept " + _fmt(events))
        lines.extend(ml)
        fl = []
        for i, rs in sorted(r["results"].items()):
            for n, res in rs:
                if res[0] == "reply" and (i, n) in r["reqs"]:
                    fl.append((i, n, res[1]))
                    lines.append(f"foreign {r['reqs'][(i, n)].hex()} {res[1]}")
        infos.append((case, r, start, len(ml), tids, fl))
        ctx.nontrivial(" ".join(r["sched"]))
    out = ctx.lean(lines)
    outs = []
    for case, r, start, nml, tids, fl in infos:
        events = r["events"]
        outs.append(out[start: start + 1 + nml + len(fl)])
        judge_old(ctx, case, events, out[start])
        mo = out[start + 1: start + 1 + nml]
        fo = out[start + 1 + nml: start + 1 + nml + len(fl)]
        # own reply or error, on the request BYTES
        for (i, n, rep), cls in zip(fl, fo):
            if cls != "genuine":
                ctx.disagree("conc:foreign-reply-delivered",
                             f"caller {i} (request {r['reqs'][(i, n)].hex()}) was handed {rep}, which is {cls} to that request", case,
                             impl={"request": r["reqs"][(i, n)].hex(), "reply": rep, "sched": " ".join(r["sched"])[-1500:]}, model=cls,
                             spec_violated=(cls == "foreign"), site="UDSClient.request_unsafe / helpers.parse_pdu")
        judge_serial(ctx, case, r)
        judge_multi(ctx, case, r, mo, tids)
    return infos, outs


def judge_old(ctx, case, events, o):
    if not o.startswith("ok"):
        idx = int(o.split()[1]) if o.split()[1].isdigit() else -1
        ev = events[idx] if 0 <= idx < len(events) else ("?", 0)
        what = {"w": "write", "r": "read", "c": "reconnect"}.get(ev[0], ev[0])
        key = f"conc:rejected:{what}-outside-own-lock" if ev[0] in ("w", "r", "c") else f"conc:rejected:{what}"
        ctx.disagree(key, f"event {idx} ({what} by task {ev[1]}) violates the locking discipline: " + _fmt(events[max(0, idx - 6): idx + 1]),
                     {**case, "trace": _fmt(events)[:3000]}, impl=_fmt(events[: idx + 1])[-800:], model=o, spec_violated=True,
                     site="UDSClient / ECU: transport used without holding the client lock, or lock not handed over")
    elif "holder=none" not in o or not o.endswith("waiters="):
        ctx.disagree("conc:lock-still-held-at-end", "after all tasks ended the client lock is still held or waited for: " + o, case,
                     impl=_fmt(events)[-600:], model=o, spec_violated=True, site="UDSClient._request / reconnect")


def judge_serial(ctx, case, r):
    """the property's first sentence, read off the wire alone: between the first transmission of a call and its end (reply,
    error, or the cancellation of the caller) no other task transmits - whatever the lock events say"""
    sched = r["sched"]
    for i, rs in r["rounds"].items():
        for n, rd in enumerate(rs):
            if rd["desc"][0] not in ("R", "W"):
                continue
            b = rd["begin"]
            e = rd.get("end", len(sched))
            for j in range(b, e):  # the caller's cancellation ends the exchange
                if sched[j] == f"x:{i}" or (i in r["auto"] and sched[j] == f"r:{i}:rel"):
                    e = j  # (calls made inside wait_for_ecu() are not delimited by the harness: they end with their release)
                    break
            fw = next((j for j in range(b, e) if sched[j] == f"r:{i}:w"), None)
            if fw is None:
                continue
            for j in range(fw + 1, e):
                p = sched[j].split(":")
                if p[0] == "r" and p[2] == "w" and int(p[1]) != i:
                    ctx.disagree("conc:exchange-interleaved",
                                 f"task {p[1]} transmitted while the exchange of task {i} (call {n}, {rd['desc'][:2]}) was still open "
                                 f"(first transmission at step {fw}, end at step {e}): " + " ".join(sched[max(fw - 2, 0): j + 1])[-900:],
                                 {**case, "sched": " ".join(sched)[:3000]}, impl=" ".join(sched[fw: j + 1])[-900:], spec_violated=True,
                                 site="UDSClient._request / request_unsafe: the client is not held for the whole exchange")
                    return


def judge_multi(ctx, case, r, mo, tids):
    sched = r["sched"]
    task_out = {}
    for i, o in zip(tids, mo[1:-1]):
        if not o.startswith("ok"):
            ctx.disagree("multi:bad-task-line", f"driver refused the program of task {i}: {o}", case, model=o, spec_violated=False)
            return
        task_out[i] = o[3:].split(";")
    o = mo[-1]
    head = o.split()[0]
    if head in ("label", "disabled"):
        idx = int(o.split()[1])
        ch = sched[idx] if idx < len(sched) else "?"
        parts = ch.split(":")
        tid = int(parts[1]) if len(parts) > 1 and parts[1].isdigit() else 0
        mis = [m for m in r["misuse"] if m[0] <= idx]
        ctxt = " ".join(sched[max(0, idx - 8): idx + 1])
        if mis:
            _k, mt, lab, holder = mis[0]
            what = {"w": "write", "r": "read", "c": "reconnect"}[lab[0]]
            ctx.disagree(f"conc:rejected:{what}-outside-own-lock",
                         f"task {mt} completed a {what} while the client lock was held by {holder}: " + ctxt, {**case, "sched": " ".join(sched)[:3000]},
                         impl=ctxt, model=o, spec_violated=True,
                         site="UDSClient / ECU: transport used without holding the client lock, or lock not handed over")
        elif head == "label":
            want = o.split("model=")[1]
            obs = parts[2] if len(parts) > 2 else "?"
            ctx.disagree(f"multi:step:{obs.rstrip('0123456789')}-where-model-{want.rstrip('0123456789')}",
                         f"step {idx}: task {tid} completed `{obs}` where its program (requestX over the results it observed) continues with `{want}`: " + ctxt,
                         {**case, "sched": " ".join(sched)[:3000]}, impl=ctxt, model=o, spec_violated=False,
                         site="UDSClient.request_unsafe / ECU._tester_present_worker vs Model/ClientMulti.lean")
        else:
            kind = "cancel" if ch.startswith("x:") else (parts[2] if len(parts) > 2 else ch)
            ctx.disagree(f"multi:disabled:{kind.rstrip('0123456789')}",
                         f"step {idx} (`{ch}`) is not enabled in the model (lock not free / inbox head is not what the task read / task not there): " + ctxt,
                         {**case, "sched": " ".join(sched)[:3000]}, impl=ctxt, model=o, spec_violated=False,
                         site="asyncio.Lock hand-over / shared inbox vs Model/ClientMulti.lean")
        return
    if head != "ok":
        ctx.disagree("multi:bad-sched-line", f"driver: {o}", case, model=o, spec_violated=False)
        return
    lock, _, tstates = o[3:].partition(" | ")
    if "holder=none" not in lock or "waiters= " not in lock + " ":
        ctx.disagree("conc:lock-still-held-at-end", "after all tasks ended the client lock is still held or waited for (multi-task model): " + lock, case,
                     impl=" ".join(sched)[-600:], model=o, spec_violated=True, site="UDSClient._request / reconnect")
    st = {}
    for tok in tstates.split():
        i, _, rest = tok.partition("=")
        ph, ab, rnd, rds = rest.split(":")
        st[int(i)] = (ph, ab, int(rnd), rds)
    for i in tids:
        ph = st.get(i, ("?",))[0]
        if ph != "done":
            ctx.disagree("multi:task-not-done", f"task {i} ended in reality but is `{ph}` in the model after the whole schedule", {**case, "sched": " ".join(sched)[:3000]},
                         impl=" ".join(sched)[-600:], model=o, spec_violated=False)
            return
    # outcome per completed request round
    for i, rs in r["results"].items():
        for n, res in rs:
            rd = r["rounds"][i][n] if n < len(r["rounds"][i]) else None
            if rd is None or rd["desc"][0] != "R" or res[0] == "cancelled":
                continue
            m = task_out[i][n] if n < len(task_out.get(i, [])) else "?"
            if m.startswith("reply:"):
                k = int(m.split(":")[1])
                exp = ("reply", rd["reads"][k]) if k < len(rd["reads"]) else ("reply", "?")
            elif m.startswith("illegal:"):
                exp = ("illegal",)
            elif m.startswith("rcfail:"):
                exp = ("raw:" + m.split(":")[2],)
            else:
                exp = (m,)
            if tuple(res) != exp:
                got_foreign = res[0] == "reply" and m.startswith("illegal")
                ctx.disagree(f"multi:outcome:{res[0]}-where-model-{exp[0]}",
                             f"caller {i} call {n} (request {rd['desc'][1]}) ended with {res} where the model of request() over the same reads "
                             f"{rd['reads']} / writes {rd['writes']} / reconnects {rd['rcs']} ends with {m}", {**case, "sched": " ".join(sched)[:3000]},
                             impl=res, model=m, spec_violated=got_foreign, site="UDSClient.request_unsafe")
    # reconnect() callers
    for i, rs in r["results"].items():
        for n, res in rs:
            rd = r["rounds"][i][n] if n < len(r["rounds"][i]) else None
            if rd is not None and rd["desc"][0] == "C" and res[0] != "cancelled":
                exp = "ok" if rd["desc"][1] == "o" else "raw:" + rd["desc"][1]
                if res[0] != exp:
                    ctx.disagree("multi:reconnect-outcome", f"reconnect() of task {i} ended with {res}, transport said {rd['desc'][1]}", case, impl=res, model=exp,
                                 spec_violated=False)


# ------------------------------------------------------------------ BaseTransport.reconnect(timeout) against a target whose connect fails

RC_CONNECT = 0.05
RC_CAP = 120.0


async def rc_scenario(timeout, outs, dflt):
    """the real BaseTransport.reconnect(timeout) over a transport whose k-th connection attempt ends as scripted (o accepted, C refused,
    T TimeoutError, O OSError; `dflt` for every later one) -> (result, completed attempts, elapsed virtual ms); capped at RC_CAP virtual seconds"""
    from gallia.transports.base import BaseTransport, TargetURI
    st = {"n": 0}

    class Flaky(BaseTransport, scheme="flaky"):
        @classmethod
        async def connect(cls, target, timeout=None):
            await asyncio.sleep(RC_CONNECT)
            k = st["n"]
            st["n"] += 1
            res = outs[k] if k < len(outs) else dflt
            if res == "C":
                raise ConnectionRefusedError("scripted")
            if res == "T":
                raise TimeoutError("scripted")
            if res == "O":
                raise OSError(113, "scripted: no route to host")
            return cls(target if not isinstance(target, str) else TargetURI(target))

        async def close(self):
            self.is_closed = True

        async def write(self, data, timeout=None, tags=None):
            raise NotImplementedError

        async def read(self, timeout=None, tags=None):
            raise NotImplementedError

    t = Flaky(TargetURI("flaky://target"))
    loop = asyncio.get_event_loop()
    t0 = loop.time()
    task = asyncio.ensure_future(t.reconnect(timeout))
    _done, pending = await asyncio.wait([task], timeout=RC_CAP)
    if pending:
        task.cancel()
        await asyncio.wait([task])
        return ("never-returns", st["n"], ms(RC_CAP))
    el = ms(loop.time() - t0)
    try:
        task.result()
        return ("connected", st["n"], el)
    except ConnectionError:
        return ("C", st["n"], el)
    except TimeoutError:
        return ("T", st["n"], el)
    except OSError:
        return ("O", st["n"], el)
    except Exception as e:
        return ("exc:" + type(e).__name__, st["n"], el)


def run_transport_reconnect(ctx):
    """every outcome stream of length <= 3 over {accepted, refused, TimeoutError, OSError} x what follows {accepted, refused forever} x
    timeout {None (what the client passes), 5 deadlines}: result, number of attempts and elapsed time must be the model's"""
    cases = []
    for tmo in (None, 0.12, 0.25, 0.52, 1.01, 1.99):  # deadlines that do not coincide with the end of an attempt or of a retry sleep
        for dflt in "oC":
            for n in range(4):
                for outs in itertools.product("oCTO", repeat=n):
                    cases.append((tmo, "".join(outs), dflt))
    lines = [f"trc {'none' if t is None else ms(t)} {ms(RC_CONNECT)} {d} {o or '-'}" for t, o, d in cases]
    out = ctx.lean(lines)
    for (tmo, outs, dflt), mo in zip(cases, out):
        ctx.ev()
        ctx.kind("transport-reconnect", "no-timeout" if tmo is None else "deadline")
        case = {"transport_reconnect": {"timeout": tmo, "outcomes": outs, "later": dflt, "connect_s": RC_CONNECT}}
        try:
            impl, _vt = vrun(rc_scenario(tmo, outs, dflt), horizon=1e5)
        except Stall as e:
            impl = ("stall", 0, 0)
        m = mo.split()
        model = ("T" if m[0] == "deadline" else m[0], int(m[1]), int(m[2])) if len(m) == 3 and m[1].isdigit() else (mo, 0, 0)
        if tuple(impl) != model:
            ctx.disagree(f"reconnect:transport:{impl[0]}-where-model-{model[0]}",
                         f"BaseTransport.reconnect(timeout={tmo}) against connection outcomes {outs or '-'} then {dflt} forever (one attempt takes "
                         f"{RC_CONNECT}s): real code -> {impl} (result, attempts, ms; capped at {RC_CAP:.0f} virtual seconds), model -> {model} "
                         f"[{mo}]", case, impl=list(impl), model=mo, spec_violated=False, site="BaseTransport.reconnect vs Model/TransportReconnect.lean")
        ctx.nontrivial(f"trc {tmo} {outs} {dflt}")
    ctx.traces_validated += len(cases)
    ctx.exhaustive_parts.append("BaseTransport.reconnect(timeout): every connection-outcome stream of length <= 3 over {accepted, refused, TimeoutError, "
                                "OSError} x {accepted, refused forever} afterwards x timeout {None, 0.12, 0.25, 0.52, 1.01, 1.99 s}: result, attempts, time")


def search(ctx):
    ctx.widened = True
    run(ctx)


# ------------------------------------------------------------------------------------------------- replay of one recorded case

_CLAUSES = [
    (("conc:rejected:", "conc:exchange-interleaved"),
     "exchanges are serialised: between the transmission of a request and the delivery of its final reply - including responsePending "
     "extensions and retries - no other request is transmitted on that transport (every wire operation is made by the task that holds the client lock)"),
    (("conc:foreign-reply-delivered", "multi:outcome:reply-where-model-illegal"),
     "every caller receives either the reply to its own request or an error, never a reply that belongs to a different request"),
    (("conc:stall", "conc:caller-blocked-forever", "conc:lock-still-held-at-end"),
     "a caller that is cancelled or fails releases the client so the others make progress (nobody is left waiting, the lock is free at the end)"),
]


def _clause(key):
    for prefixes, text in _CLAUSES:
        if key.startswith(prefixes):
            return text
    return ""


def _spec_from_json(sp):
    """the spec as the generator made it (json turned tuples into lists; scenario() only indexes and unpacks, so lists do)"""
    sp = dict(sp)
    sp["tasks"] = [tuple(d) for d in sp.get("tasks", [])]
    return sp


def _fmt_task(d):
    if d[0] in ("req", "reqd"):
        calls = ", ".join(f"{api} {did_pdu(did).hex() if api in ('typed', 'raw') else '(arguments from %#x)' % did} script={script} max_retry={mr}"
                          for api, did, script, mr in d[-1])
        return f"caller at +{d[1]}s" + (f" under asyncio.wait_for(..., {d[2]})" if d[0] == "reqd" else "") + f": {calls}"
    return {"wfe": "wait_for_ecu()", "reconnect": "reconnect()"}.get(d[0], d[0]) + f" at +{d[1]}s"


def replay(ctx, payload):
    """re-run one recorded case (task set with reply scripts, worker scripts, reconnect outcomes, optional cancellation point): the real ECU
    client under virtual time, its event trace through the lock-discipline acceptor and its schedule through the multi-task model; prints both
    sides; 1 when a clause of the property or the tie still fails on this case"""
    from lib import replaylib
    setup_repo_import()
    import gallia.command  # noqa: F401
    import sys
    mod = sys.modules[__name__]
    finding, origin = replaylib.pick(payload)
    replaylib.header(payload, finding, origin)
    if finding is None:
        return int(replaylib.obligations(mod, payload))
    case = finding["case"]
    if "transport_reconnect" in case:
        tc = case["transport_reconnect"]
        tmo, outs, dflt = tc["timeout"], tc["outcomes"], tc["later"]
        print(f"case    : BaseTransport.reconnect(timeout={tmo}); connection attempts end as {outs or '-'} (o accepted, C refused, T TimeoutError, "
              f"O OSError), every later one as {dflt}; one attempt takes {RC_CONNECT}s")
        try:
            impl, _vt = vrun(rc_scenario(tmo, outs, dflt), horizon=1e5)
        except Stall as e:
            impl = ("stall", 0, 0)
        mo = ctx.lean([f"trc {'none' if tmo is None else ms(tmo)} {ms(RC_CONNECT)} {dflt} {outs or '-'}"])[0]
        print(f"impl : (result, completed attempts, elapsed virtual ms) = {tuple(impl)}   [capped at {RC_CAP:.0f} virtual seconds]")
        print(f"model: {mo}")
        m = mo.split()
        model = ("T" if m[0] == "deadline" else m[0], int(m[1]), int(m[2])) if len(m) == 3 and m[1].isdigit() else (mo, 0, 0)
        if tuple(impl) != model:
            ctx.disagree(f"reconnect:transport:{impl[0]}-where-model-{model[0]}", f"real code -> {tuple(impl)}, model -> {model}", case,
                         impl=list(impl), model=mo, spec_violated=False, site="BaseTransport.reconnect vs Model/TransportReconnect.lean")
        return replaylib.verdict(ctx, finding, _clause)
    spec = _spec_from_json(case["spec"])
    cancel_at = tuple(case["cancel_at"]) if case.get("cancel_at") else None
    print("case    : " + "; ".join(_fmt_task(d) for d in spec["tasks"]))
    print(f"          tester-present worker: {'on, ping scripts ' + str(spec.get('worker_scripts') or ['imm']) if spec.get('worker') else 'off'}"
          f"; reconnect outcomes: {spec.get('rc') or '-'}, every later connection attempt: {spec.get('rc_default') or 'o'}; "
          + (f"task {cancel_at[0]} cancelled at its instrumented await no. {cancel_at[1]}" if cancel_at else "no cancellation"))
    infos, outs = evaluate(ctx, [(spec, cancel_at)])
    if infos:
        _case, r, _start, nml, tids, fl = infos[0]
        o = outs[0]
        print("impl : schedule : " + " ".join(r["sched"])[:3000])
        print("impl : lock/wire: " + _fmt(r["events"])[:3000])
        for i, rs in sorted(r["results"].items()):
            for n, res in rs:
                req = r["reqs"].get((i, n))
                print(f"impl : task {i} call {n}" + (f" (request {req.hex()})" if req else "") + f" -> {' '.join(map(str, res))}")
        if r["misuse"]:
            print("impl : wire operations completed without holding the lock: " + ", ".join(f"step {k}: task {t} `{lab}` (holder {h})" for k, t, lab, h in r["misuse"][:10]))
        print("model: acceptor : " + o[0][:600])
        for i, ln in zip(tids, o[2: nml]):
            print(f"model: task {i} program outcome per call: {ln[:400]}")
        print("model: schedule : " + o[nml][:1200])
        for (i, n, rep), cls in zip(fl, o[1 + nml:]):
            print(f"model: reply {rep} to request {r['reqs'][(i, n)].hex()} of task {i}: {cls}")
    else:
        # the run never finishes / leaves callers blocked: the check reports that without going to the model; show what there is
        try:
            r, _vt = vrun(scenario(spec, cancel_at), horizon=1e5)
        except Stall as e:
            r = None
            print(f"impl : the scenario never finishes under virtual time: {e}")
        if r is not None:
            print(f"impl : {r['stuck']} task(s) still blocked 120 virtual seconds after everybody else finished (cancelled by the harness)")
            print("impl : schedule : " + " ".join(r["sched"])[:3000])
            print("impl : lock/wire: " + _fmt(r["events"])[:3000])
            for i, rs in sorted(r["results"].items()):
                for n, res in rs:
                    print(f"impl : task {i} call {n} -> {' '.join(map(str, res))}")
            o = ctx.lean(["accept " + _fmt(r["events"])])[0]
            print("model: acceptor on that trace (incl. the harness' cancellations): " + o[:600])
        print("model: in every schedule of the multi-task model a caller that ends, fails or is cancelled hands the lock over and every waiter gets it "
              "(progress_multi, handover_on_cancel, fifo_fairness): no run leaves a caller blocked")
    return replaylib.verdict(ctx, finding, _clause)


MANIFEST = {
    "level_text": ("Lean 4 theorems over a multi-task operational semantics (Model/ClientMulti.lean): each task runs the C04 model of request() "
                   "(`requestX`: acquire, every write / read / backoff sleep / reconnect incl. responsePending polls and retries, release) over its "
                   "own script, reconnect(), the tester-present worker loop, or any sequence of such calls with start / stop of the worker "
                   "(scanner main task, wait_for_ecu); a scheduler interleaves tasks at await points, delivers messages into ONE shared inbox (a "
                   "late reply goes to whoever reads next and is classified by C03's parsePdu against the reader's own request) and delivers "
                   "cancellation at any await; asyncio.Lock.release() is modelled without owner check. For every schedule and script: "
                   "wire_is_serial + events_are_the_wire, wire_op_by_holder, worker_only_via_lock, release_only_by_holder, own_reply_or_error (a reply "
                   "foreign to the caller's request is never its result; it ends the request with IllegalResponse), progress_multi / "
                   "handover_on_cancel, fifo_fairness, cancel_safe, stop_terminates, callers_are_bracketed, and the 12 theorems of the lock-discipline "
                   "acceptor, which the operational model refines (events_accepted); unbracketed_release_breaks_exclusion shows the bracketing is "
                   "necessary. Every `async with <mutex>` / acquire / release / mutex creation site and every call into the unlocked client / "
                   "transport methods of client.py, ecu.py, transports/base.py is regenerated from the AST (lock_sites_agree, "
                   "unlocked_calls_guarded). Tied to the code by schedule replay: the real ECU client with an instrumented lock, wire (one inbox), "
                   "asyncio.sleep and create_task runs 2..5 real tasks (typed and send_raw callers, worker with start / stop, reconnect(), "
                   "wait_for_ecu()) under virtual time; every completed await point must be the next step of that task's program in the model "
                   "(requestX over the results the task observed), every message read must be the head of the model's inbox, the outcome per "
                   "caller must be the model's; independently of the model each caller must get a reply genuine to its request BYTES or an error, "
                   "no task may transmit while another task's exchange is open on the wire, and nobody may stay blocked. The callers cover the "
                   "public surface: tester_present / ping and every public method with a suppress_response option (off and on) next to an exchange "
                   "in flight (incl. a ResponsePending extension); the late-reply schedules also run between two ReadMemoryByAddress requests built "
                   "with default and explicit (0x24, 0x44, mixed) address-and-length format identifiers and different sizes, where only the "
                   "codec's own matching tells the replies apart (rmba_cross_is_foreign, rmba_same_size_indistinguishable). The client's own "
                   "mutex object is instrumented in place and asked locked() at the end; a caller WAITING for it behind a long exchange is "
                   "cancelled (Task.cancel at every await of every task, wait_for deadline while waiting / holding, stop of the queued worker) "
                   "with a queued and a later caller behind it, all of which must progress. Reconnects run against a target that refuses k times and then accepts or stays "
                   "away for good (explicit reconnect() and the automatic reconnect of a retried request, with a second user and the worker); "
                   "Model/TransportReconnect.lean models BaseTransport.reconnect(timeout) - one attempt without a timeout, a 100 ms retry loop under a "
                   "deadline - with reconnect_without_timeout_single_attempt, reconnect_bounded, reconnect_unreachable_target_fails for every stream "
                   "of connection outcomes, compared with the real method on all outcome streams of length <= 3 x 6 timeouts."),
    "level_note": ("Partial: the theorems hold for every schedule, the tie only observes the schedules the harness provokes; cancellation is atomic "
                   "in the model. Trusted: Lean kernel, asyncio.Lock / Task.cancel semantics (re-checked by the replay), the harness "
                   "instrumentation (lock subclass, scripted wire with one inbox, patched asyncio.sleep / create_task / stop_cyclic_tester_present)."),
    "technique": ("Lean 4 proof (invariants over a multi-task step function composed from the C04 client model, the C03 matcher and an owner-less "
                  "lock; refinement to the lock-discipline acceptor; AST-regenerated lock-site and call tables) + schedule replay of the real "
                  "client under enumerated scripts, arrival orders and cancellation at every instrumented await"),
    "design_ref": "DESIGN.md section 7, C05",
}
