"""C05 - concurrent users of one UDS client.  2..5 real tasks (service calls, the cyclic tester-present worker,
reconnects) share one real ECU client over a scripted wire under virtual time; the client lock and the transport are
instrumented from outside (TracingLock, Wire).  The recorded event trace must be accepted by the Lean lock-discipline
model (Model/ClientConc.lean: every transport op by the lock holder, FIFO hand-over, release on every exit), every caller
must end with its own reply or an error, and nobody may be left waiting forever."""
import asyncio
import itertools

from common import setup_repo_import
from vloop import Stall, vrun

ID = "C05"
GENS = []
PROOF = "Gallia.Proofs.C05"
DRIVER = "c05"
ASSUMPTIONS = [
    "asyncio.Lock is FIFO and `async with` releases on return, exception and cancellation (the trace acceptor re-checks this on every run)",
    "the real scheduler is asyncio's: the theorems cover every schedule, the tie observes the schedules provoked by arrival offsets, reply delays and cancellation at every traced event",
    "a late reply to an earlier request is indistinguishable from the caller's own only when the requests are byte-identical; callers use distinct identifiers",
    "the private, uncalled UDSClient._tester_present(suppress_resp=True) writes without the lock; it has no caller in gallia and is not a public coroutine",
]

TIMEOUT = 1.0


class Tracer:
    def __init__(self):
        self.events = []  # (kind, tid)
        self.ids = {}
        self.count = {}
        self.cancel_at = None  # (tid, n)
        self.tasks = {}

    def tid(self):
        t = asyncio.current_task()
        if t not in self.ids:
            self.ids[t] = len(self.ids) + 1
            self.tasks[self.ids[t]] = t
            t.add_done_callback(lambda _t, i=self.ids[t]: self.events.append(("ended", i)))
        return self.ids[t]

    def log(self, kind):
        i = self.tid()
        self.events.append((kind, i))
        n = self.count[i] = self.count.get(i, 0) + 1
        if self.cancel_at == (i, n):
            asyncio.get_event_loop().call_soon(self.tasks[i].cancel)


def make_lock(tr):
    class TracingLock(asyncio.Lock):
        async def acquire(self):
            tr.log("want")
            try:
                r = await super().acquire()
            except asyncio.CancelledError:
                tr.log("unwait")
                raise
            tr.log("got")
            return r

        def release(self):
            tr.log("rel")
            super().release()

    return TracingLock()


def make_wire(tr, scripts):
    from gallia.transports.base import BaseTransport, TargetURI

    class Wire(BaseTransport, scheme="fake"):
        def __init__(self):
            super().__init__(TargetURI("fake://wire"))
            self.inbox = asyncio.Queue()
            self.nwrites = {}

        @classmethod
        async def connect(cls, target, timeout=None):
            raise NotImplementedError

        async def close(self):
            self.is_closed = True

        async def reconnect(self, timeout=None):
            tr.log("c")
            await asyncio.sleep(0.05)
            return self

        async def write(self, data, timeout=None, tags=None):
            tr.log("w")
            data = bytes(data)
            k = self.nwrites.get(data, 0)
            self.nwrites[data] = k + 1
            loop = asyncio.get_event_loop()
            for delay, reply in scripts(data, k):
                loop.call_later(delay, self.inbox.put_nowait, reply)
            return len(data)

        async def read(self, timeout=None, tags=None):
            tr.log("r")
            item = await asyncio.wait_for(self.inbox.get(), timeout)
            if item == b"!":
                raise ConnectionResetError("scripted")
            return item

    return Wire()


def reply_script(kind, did):
    pos = bytes([0x62, did >> 8, did & 0xFF, 0xAB])
    pend = bytes([0x7F, 0x22, 0x78])
    return {
        "imm": [(0.01, pos)],
        "pend": [(0.01, pend), (0.4, pend), (0.8, pos)],
        "timeout": [],
        "late": [(TIMEOUT + 0.3, pos)],
        "error": [(0.01, b"!")],
        "neg": [(0.02, bytes([0x7F, 0x22, 0x31]))],
    }[kind]


async def scenario(spec, cancel_at):
    """spec: list of (kind, offset, script, max_retry); kind in req/tp/reconnect"""
    from gallia.services.uds.core.client import UDSRequestConfig
    from gallia.services.uds.ecu import ECU

    tr = Tracer()
    tr.cancel_at = cancel_at
    dids = {}
    scripts_by_pdu = {}

    def scripts(pdu, k):
        if pdu == b"\x3e\x00":
            return [(0.01, b"\x7e\x00")]
        s = scripts_by_pdu.get(pdu)
        if s is None:
            return []
        kind = s if isinstance(s, str) else s[min(k, len(s) - 1)]
        return reply_script(kind, (pdu[1] << 8) | pdu[2])

    wire = make_wire(tr, scripts)
    ecu = ECU(wire, timeout=TIMEOUT, max_retry=0)
    ecu.mutex = make_lock(tr)
    results = {}

    async def req(i, did, max_retry):
        tr.tid()
        try:
            r = await ecu.read_data_by_identifier(did, config=UDSRequestConfig(max_retry=max_retry))
            results[i] = ("resp", r.pdu.hex())
        except asyncio.CancelledError:
            results[i] = ("cancelled",)
            raise
        except Exception as e:
            results[i] = ("exc", type(e).__name__)

    async def reconnect(i):
        tr.tid()
        try:
            await ecu.reconnect()
            results[i] = ("ok",)
        except asyncio.CancelledError:
            results[i] = ("cancelled",)
            raise
        except Exception as e:
            results[i] = ("exc", type(e).__name__)

    tasks = []
    tp = False
    for i, (kind, offset, script, max_retry) in enumerate(spec):
        if kind == "req":
            did = 0x1000 + i
            dids[i] = did
            scripts_by_pdu[bytes([0x22, did >> 8, did & 0xFF])] = script

            async def starter(i=i, did=did, offset=offset, max_retry=max_retry):
                await asyncio.sleep(offset)
                await req(i, did, max_retry)

            tasks.append(asyncio.ensure_future(starter()))
        elif kind == "reconnect":
            async def starter(i=i, offset=offset):
                await asyncio.sleep(offset)
                await reconnect(i)

            tasks.append(asyncio.ensure_future(starter()))
        elif kind == "tp":
            tp = True
    if tp:
        await ecu.start_cyclic_tester_present(0.35)
    done, pending = await asyncio.wait(tasks, timeout=60) if tasks else (set(), set())
    stuck = len(pending)
    for t in pending:
        t.cancel()
    if tp:
        await asyncio.sleep(0.5)
        await ecu.stop_cyclic_tester_present()
    await asyncio.sleep(0.01)
    return tr.events, results, dids, stuck


def _fmt(events):
    m = {"want": "want", "got": "got", "rel": "rel", "unwait": "unwait", "ended": "ended", "w": "w", "r": "r", "c": "c"}
    return " ".join(f"{m[k]}:{t}" for k, t in events)


def run(ctx):
    setup_repo_import()
    import gallia.command  # noqa: F401
    rng = ctx.rng
    ctx.rule = ("one case = (2..5 tasks: requests with reply scripts immediate / pending / timeout / late-after-timeout / error / negative, "
                "the tester-present worker, reconnects; arrival offsets; optional cancellation of one task at its n-th traced event); "
                "distinct = distinct event trace; non-trivial = at least two tasks contend for the client")
    kinds = ["imm", "pend", "timeout", "late", "error", "neg"]
    specs = []
    # all ordered pairs of scripts for 2 requesters, three arrival patterns, with/without worker
    for a, b in itertools.product(kinds, kinds):
        for offs in [(0.0, 0.0), (0.0, 0.2), (0.3, 0.0)]:
            for tpw in (False, True):
                sp = [("req", offs[0], a, 0), ("req", offs[1], b, 1 if b in ("timeout", "error") else 0)]
                if tpw:
                    sp.append(("tp", 0, None, 0))
                specs.append(sp)
    ctx.exhaustive_parts.append("all ordered pairs of the 6 reply scripts for two callers x 3 arrival patterns x tester-present worker on/off")
    # 3..5 tasks sampled
    for _ in range(ctx.pick(60, 600)):
        n = rng.randint(3, 5)
        sp = []
        for i in range(n):
            r = rng.random()
            if r < 0.75:
                sp.append(("req", rng.choice([0.0, 0.0, 0.1, 0.2, 0.5]), rng.choice(kinds), rng.choice([0, 0, 1, 2])))
            elif r < 0.9:
                sp.append(("reconnect", rng.choice([0.0, 0.05, 0.3]), None, 0))
            else:
                sp.append(("tp", 0, None, 0))
        specs.append(sp)
    cases = []
    for sp in specs:
        cases.append((sp, None))
    # cancellation at every traced event of every task for a covering subset of specs
    cancel_specs = specs[:: ctx.pick(9, 2)]
    for sp in cancel_specs:
        try:
            (events, _r, _d, _s), _ = vrun(scenario(sp, None), horizon=1e5)
        except Stall:
            continue
        per_task = {}
        for k, t in events:
            if k != "ended":
                per_task[t] = per_task.get(t, 0) + 1
        for t, n in per_task.items():
            for j in range(1, min(n, 12) + 1):
                cases.append((sp, (t, j)))
    ctx.exhaustive_parts.append("cancellation of each task at each of its first 12 traced events (want/got/write/read/reconnect/release) for the covered task sets")

    lines, infos = [], []
    for sp, cancel_at in cases:
        ctx.ev()
        ctx.kind(f"tasks={len(sp)}", "cancel" if cancel_at else "no-cancel")
        case = {"tasks": [[k, o, s, m] for k, o, s, m in sp], "cancel_at": cancel_at}
        try:
            (events, results, dids, stuck), _vt = vrun(scenario(sp, cancel_at), horizon=1e5)
        except Stall as e:
            ctx.disagree("conc:stall", f"scenario never finishes: {e}", case, spec_violated=True, site="UDSClient._request / reconnect (lock not released?)")
            continue
        if stuck:
            ctx.disagree("conc:caller-blocked-forever", f"{stuck} caller(s) still blocked 60 virtual seconds after everybody else finished",
                         case, impl=_fmt(events)[-600:], spec_violated=True, site="UDSClient._request / reconnect (lock not released?)")
            continue
        # own reply or error
        for i, did in dids.items():
            r = results.get(i)
            if r and r[0] == "resp":
                got = bytes.fromhex(r[1])
                if not (got[0] == 0x7F and got[1] == 0x22) and not (got[0] == 0x62 and ((got[1] << 8) | got[2]) == did):
                    ctx.disagree("conc:foreign-reply-delivered", f"caller {i} (identifier {did:#x}) was handed {r[1]}", case, impl=r,
                                 spec_violated=True, site="UDSClient.request_unsafe / parse_pdu")
        lines.append("accept " + _fmt(events))
        infos.append((case, events))
        ctx.nontrivial(_fmt(events))
    out = ctx.lean(lines)
    for (case, events), o in zip(infos, out):
        if not o.startswith("ok"):
            idx = int(o.split()[1]) if o.split()[1].isdigit() else -1
            ev = events[idx] if 0 <= idx < len(events) else ("?", 0)
            what = {"w": "write", "r": "read", "c": "reconnect"}.get(ev[0], ev[0])
            key = f"conc:rejected:{what}-outside-own-lock" if ev[0] in ("w", "r", "c") else f"conc:rejected:{what}"
            ctx.disagree(key, f"event {idx} ({what} by task {ev[1]}) violates the locking discipline: " + _fmt(events[max(0, idx - 6): idx + 1]),
                         {**case, "trace": _fmt(events)[:3000]}, impl=_fmt(events[: idx + 1])[-800:], model=o, spec_violated=True,
                         site="UDSClient / ECU: transport used without holding the client lock, or lock not handed over")
        elif "holder=none" not in o or not o.endswith("waiters="):
            ctx.disagree("conc:lock-still-held-at-end", "after all tasks ended the client lock is still held or waited for: " + o, case,
                         impl=_fmt(events)[-600:], model=o, spec_violated=True, site="UDSClient._request / reconnect")
    ctx.traces_validated += len(lines)
    if infos:
        ctx.sample({"tasks": infos[0][0]["tasks"], "trace": _fmt(infos[0][1])})
        ctx.sample({"tasks": infos[-1][0]["tasks"], "cancel_at": infos[-1][0]["cancel_at"], "trace": _fmt(infos[-1][1])})


MANIFEST = {
    "level_text": ("Lean 4 theorems over a lock-discipline acceptor for event traces of any number of tasks: every transport operation is by the "
                   "lock holder (ops_by_holder), no foreign operation between obtaining and releasing the client (exclusive), FIFO grant, a "
                   "release always hands over to the longest waiter and every reachable state can progress (progress, release_hands_over), a "
                   "cancelled waiter cannot obtain the client, an ended task holds nothing - for every schedule. Tied to the code by trace "
                   "validation: the real ECU client with an instrumented asyncio.Lock and wire runs 2..5 real tasks (service calls, tester-present "
                   "worker, reconnect) under virtual time with every pair of reply scripts and cancellation at every traced event; each trace must "
                   "be accepted by the model, each caller gets its own reply or an error, nobody stays blocked."),
    "level_note": ("Partial: the theorems hold for every schedule, the tie only observes the schedules the harness provokes. Trusted: Lean kernel, "
                   "asyncio.Lock semantics (re-checked by the acceptor), the harness instrumentation (lock subclass, wire)."),
    "technique": "Lean 4 proof (invariants over an event acceptor, all schedules) + trace validation of the real client under enumerated schedules and cancellation points",
    "design_ref": "DESIGN.md section 7, C05",
}
