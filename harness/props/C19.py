"""C19 - line transports: real LinesTransportMixin (tcp-lines / unix-lines) over an in-memory StreamReader and the
real TCPUDSServerTransport.handle_client, against Model/Lines.lean (the oracle) and Model/LinesExec.lean (whole executions:
client operation sequences, server loop with end reasons, both directions composed)."""
import asyncio

from common import hx, setup_repo_import
from vloop import MemWriter, Stall, vrun

ID = "C19"
GENS = ["c19_lines"]
PROOF = "Gallia.Proofs.C19"
DRIVER = "c19"
ORACLE = True
ASSUMPTIONS = [
    "asyncio.StreamReader.readline consumes nothing until it can return and returns the unterminated tail at EOF; "
    "wait_for cancels the pending readline without consuming anything (checked on every run by the operation-sequence scripts)",
    "the StreamReader is modelled without its line-length limit: neither side passes a `limit` (regenerated from the AST, "
    "obligation code_facts_agree), the asyncio default (65536) covers every message up to 32767 bytes (limits_cover_property_range); "
    "longer lines (ValueError from readline, buffer cleared) are outside the model",
    "client side: str.strip() on non-ASCII whitespace after the UTF-8 decode (NBSP, U+2028 ...) is outside the model; the server "
    "decodes strictly as ASCII and is modelled on all bytes",
    "feed after end-of-stream cannot happen on a real stream (feed_data asserts) and is ignored by the model; a write on a closed "
    "StreamWriter is outside the model (scripts never write after close)",
    "request() = write; read is modelled sequentially; that the transport mutex makes the pair atomic among concurrent users is "
    "C05's subject - here only: the mutex is free again after every request, also a timed-out one",
    "the handler behind the server loop is a parameter of the theorems (answer / no answer / raise); the tie runs the real "
    "UDSServerTransport.handle_request over a scripted respond() and over a real RandomUDSServer; handle_request's 10 s inactivity "
    "reset is not exercised",
    "empty messages are outside the property (lengths 1..4095): an empty request line reaches handle_request(b\"\"), which raises "
    "(IndexError on pdu[0] in respond), and thereby ends the server loop - modelled (server_empty_line_ends) and tied, not a finding",
    "after the loop has ended handle_client logs sum(response_times) / len(response_times): ZeroDivisionError for a connection on "
    "which no request was handled; outside the property (the loop has ended), counted in the evidence notes",
    "kernel TCP / unix-socket segmentation and flow control are represented by feed_data chunking and in-memory pipes with seeded "
    "piece sizes and virtual delays; a writer above its high-water mark by a scripted StreamWriter whose drain() blocks between `stall` and "
    "`resume` (what was handed to write() counts as queued); close() while the writer is stalled is not scripted in memory - that is what "
    "the real-socket runs cover (tail of a burst in the write buffer at close(), peer reading up to 5 s late)",
    "real sockets: the peer's pause (2.5 s quick; 0.2 / 1.2 / 2.5 / 5 s thorough) stands for 'the peer picks the data up later'; an "
    "implementation whose close() gives up only after more than 5 s is not distinguished from one that waits",
]


def _msgs(rng, n, maxlen):
    out = []
    for _ in range(n):
        k = rng.choice([1, 1, 2, 3, 4, 7, 8, 64, rng.randint(1, maxlen)])
        out.append(bytes(rng.randrange(256) for _ in range(k)))
    return out


def _splits(rng, stream: bytes, mode):
    n = len(stream)
    if mode == "whole" or n < 2:
        return [stream]
    if isinstance(mode, int):
        return [stream[:mode], stream[mode:]]
    k = rng.randint(1, min(8, n - 1))
    cuts = sorted(rng.sample(range(1, n), k))
    return [stream[a:b] for a, b in zip([0] + cuts, cuts + [n])]


async def _client_ops(cls, scheme, ops):
    """ops: list of ('feed', bytes) | ('eof',) | ('read', timeout) -> results per op"""
    from gallia.transports.base import TargetURI

    reader = asyncio.StreamReader()
    writer = MemWriter()
    tr = cls(TargetURI(f"{scheme}://127.0.0.1:1"), reader, writer)
    res = []
    for op in ops:
        if op[0] == "feed":
            reader.feed_data(op[1])
            res.append("ok")
        elif op[0] == "eof":
            reader.feed_eof()
            res.append("ok")
        elif op[0] == "write":
            try:
                n = await tr.write(op[1], timeout=1.0)
                res.append(hx(writer.data))
            except Exception as e:  # noqa: BLE001 - a message of 1..4095 bytes that cannot be written is a delivery failure
                res.append(f"write-refused:{type(e).__name__}")
            writer.chunks.clear()
        else:
            try:
                d = await tr.read(timeout=op[1])
                res.append("eos" if d == b"" else "msg " + d.hex())
            except (TimeoutError, asyncio.TimeoutError):
                res.append("pending")
            except Exception as e:  # binascii.Error, UnicodeDecodeError, ValueError (line too long)
                res.append("bad")
    return res


def _model_lines(ops):
    lines = ["reset"]
    for op in ops:
        if op[0] == "feed":
            lines.append("feed " + hx(op[1]))
        elif op[0] == "eof":
            lines.append("eof")
        elif op[0] == "write":
            lines.append("enc " + hx(op[1]))
        else:
            lines.append("read")
    return lines


def _classify(ops, i, impl, model):
    """canonical key for a client-side disagreement at op i"""
    eof_before = any(o[0] == "eof" for o in ops[:i])
    if eof_before and model[i] == "eos" and impl[i].startswith("msg"):
        return "lines-client:unterminated-tail-at-eof-returned-as-message"
    if model[i] == "pending":
        return "lines-client:blocked-read-returned:" + impl[i].split()[0]
    if ops[i][0] == "write":
        return "lines-client:write-bytes-differ"
    return f"lines-client:{model[i].split()[0]}-vs-{impl[i].split()[0]}"


def _eval_client_scripts(ctx, scripts):
    """scripts: (label, cls, scheme, ops) -> [(impl results, oracle results)]; differences are recorded with ctx.disagree"""
    # run implementation
    impl_results = []
    for label, cls, scheme, ops in scripts:
        try:
            r, _vt = vrun(_client_ops(cls, scheme, ops))
        except Stall:
            r = ["stall"]
        impl_results.append(r)
    # run model (one batch)
    batch = []
    index = []
    for label, cls, scheme, ops in scripts:
        ml = _model_lines(ops)
        index.append((len(batch), len(ml)))
        batch += ml
    out = ctx.lean(batch)
    models = []
    for (label, cls, scheme, ops), r, (off, n) in zip(scripts, impl_results, index):
        mo = ["eos" if x == "msg -" else x for x in out[off + 1: off + n]]  # API level: b"" is end-of-stream
        models.append(mo)
        ctx.ev()
        ctx.kind(f"client:{label}")
        ctx.nontrivial((scheme, repr(ops)))
        if r != mo:
            i = next((k for k in range(min(len(r), len(mo))) if r[k] != mo[k]), 0)
            # shrink: drop ops after the first differing one
            key = _classify(ops, i, r + ["?"] * len(ops), mo)
            ctx.disagree(key, f"{scheme} read/write differs from the line oracle at op {i}: impl={r[i] if i < len(r) else '?'} oracle={mo[i]}",
                         {"side": "client", "scheme": scheme, "ops": [[o[0]] + [x.hex() if isinstance(x, bytes) else x for x in o[1:]] for o in ops[: i + 1]]},
                         impl=r[: i + 1], model=mo[: i + 1], spec_violated=True, site="LinesTransportMixin.read/write")
    return list(zip(impl_results, models))


def _make_serve(_srv):
    """-> serve(chunks, eof_tail, kind): the real line loop (started through its own run()) around the real handle_request over a scripted
    respond(), fed `chunks`, then EOF -> (bytes written, loop ended before EOF?, requests handed over)"""
    from gallia.services.uds.server import TCPUDSServerTransport

    class _Reply:
        def __init__(self, pdu):
            self.pdu = pdu

    class _ScriptedServer:
        """stands in for the UDSServer behind the transport: no reply to requests whose first byte is a multiple of 4, otherwise
        the reversed request plus a counter byte"""

        class _State:
            def reset(self):
                pass

        def __init__(self, owner):
            self.owner = owner
            self.state = self._State()

        async def respond(self, request):
            m = bytes(request.pdu)
            if m[0] % 4 == 0:
                return None
            return _Reply(m[::-1] + bytes([self.owner.cur % 256]))

    class T(TCPUDSServerTransport):
        def __init__(self):
            self.n = 0
            self.cur = 0
            self.server = _ScriptedServer(self)
            self.last_time_active = _srv.time()

        async def handle_request(self, m):
            n = self.n
            self.n += 1
            if len(m) == 0:
                return bytes([n % 256]), 0.0
            # the real UDSServerTransport.handle_request (request parsing, reply / no-reply hand-over to the line loop)
            self.cur = n
            return await _srv.UDSServerTransport.handle_request(self, m)

    # The server is started through its own run() so that the stream parameters it asks asyncio for (e.g. a line
    # length limit) are the ones its handler really gets; asyncio.start_server / start_unix_server are replaced by a
    # recorder that hands back the callback and the keyword arguments.
    from gallia.services.uds.server import UnixUDSServerTransport
    from gallia.transports.base import TargetURI

    class _FakeServer:
        async def __aenter__(self):
            return self

        async def __aexit__(self, *a):
            return False

        async def serve_forever(self):
            await asyncio.Event().wait()

    async def _capture(transport_cls, uri):
        got = {}

        async def fake_start(cb, *a, **k):
            got["cb"] = cb
            got["limit"] = k.get("limit")
            return _FakeServer()

        o1, o2 = _srv.asyncio.start_server, _srv.asyncio.start_unix_server
        _srv.asyncio.start_server = fake_start
        _srv.asyncio.start_unix_server = fake_start
        try:
            class TT(T, transport_cls):
                def __init__(self):
                    T.__init__(self)
                    self.target = TargetURI(uri)
            t = TT()
            task = asyncio.ensure_future(t.run())
            for _ in range(5):
                await asyncio.sleep(0)
            task.cancel()
            try:
                await task
            except BaseException:
                pass
        finally:
            _srv.asyncio.start_server, _srv.asyncio.start_unix_server = o1, o2
        return t, got

    async def serve(chunks, eof_tail, kind=0):
        t, got = await _capture(*[(TCPUDSServerTransport, "tcp-lines://127.0.0.1:20162"), (UnixUDSServerTransport, "unix-lines:///tmp/verif-c19.sock")][kind])
        handler = got.get("cb", t.handle_client)
        reader = asyncio.StreamReader(limit=got["limit"]) if got.get("limit") else asyncio.StreamReader()
        writer = MemWriter()
        task = asyncio.ensure_future(handler(reader, writer))
        for c in chunks:
            reader.feed_data(c)
            for _ in range(3):
                await asyncio.sleep(0)
        await asyncio.sleep(0.01)
        done_early = task.done()
        reader.feed_eof()
        try:
            await asyncio.wait_for(task, 1.0)
        except ZeroDivisionError:
            pass  # average of an empty list after the loop ended; outside the property
        except Exception:
            pass
        return writer.data, done_early, t.n

    return serve


def _eval_server_bursts(ctx, serve, srv_cases):
    """srv_cases: (stream, chunks, tail) -> [((written, handled), oracle line)]"""
    batch = ["serve " + hx(s) for s, _, _ in srv_cases]
    out = ctx.lean(batch)
    res = []
    for (stream, chunks, tail), mo in zip(srv_cases, out):
        (written, done_early, n), _vt = vrun(serve(chunks, tail, kind=len(stream) % 2))
        w_m, err_m, left_m, n_m = mo.split()
        res.append(((hx(written), n), mo))
        ctx.ev()
        ctx.kind("server:burst" + ("+partial-tail" if tail else ""))
        ctx.nontrivial(("srv", stream, tuple(chunks)))
        # before EOF: replies so far must equal the oracle's; the partial tail must not have been answered
        if hx(written) != w_m or (int(n) != int(n_m) and not tail):
            ctx.disagree("lines-server:replies-differ" + (":unterminated-tail-answered-at-eof" if tail and int(n) == int(n_m) + 1 else ""),
                         "server loop output differs from the line oracle",
                         {"side": "server", "stream": stream.hex(), "chunks": [c.hex() for c in chunks], "tail": tail.hex(), "kind": ["tcp", "unix"][len(stream) % 2]},
                         impl={"written": hx(written), "handled": n}, model=mo, spec_violated=True,
                         site="TCPUDSServerTransport.handle_client")
        elif tail and int(n) != int(n_m):
            ctx.disagree("lines-server:unterminated-tail-handled-at-eof",
                         "server loop handles an unterminated request tail at EOF as a request",
                         {"side": "server", "stream": stream.hex(), "chunks": [c.hex() for c in chunks], "tail": tail.hex(), "kind": ["tcp", "unix"][len(stream) % 2]},
                         impl={"written": hx(written), "handled": n}, model=mo, spec_violated=True,
                         site="TCPUDSServerTransport.handle_client")
    return res


def run(ctx):
    setup_repo_import()
    from gallia.services.uds.server import TCPUDSServerTransport
    from gallia.transports.tcp import TCPLinesTransport
    from gallia.transports.unix import UnixLinesTransport
    import gallia.services.uds.server as _srv
    import types
    _srv.traceback = types.SimpleNamespace(print_exc=lambda *a, **k: None)  # keep the server loop's stderr quiet

    rng = ctx.rng
    ctx.rule = ("op scripts (feed chunk / eof / read with timeout / write) over an in-memory StreamReader for both "
                "line transports; server loop fed request bursts; distinct = distinct (transport, op script) whose "
                "stream holds >= 1 complete message; non-trivial = has a split inside a line, a coalesced burst, a "
                "timeout on a partial line or an EOF")
    scripts = []  # (label, cls, scheme, ops)
    variants = [(TCPLinesTransport, "tcp-lines"), (UnixLinesTransport, "unix-lines")]

    def add(label, ops):
        for cls, scheme in variants:
            scripts.append((label, cls, scheme, ops))

    # 1. exhaustive: every single split point of short streams, read attempted after every chunk
    short_sets = [[b"\x3e\x00"], [b"\x10\x01", b"\x22\xf1\x90"], [b"\x0a", b"\x0d\x0a\x20"], [bytes([0xFF] * 5)]]
    for ms in short_sets:
        stream = b"".join(m.hex().encode() + b"\n" for m in ms)
        for cut in range(0, len(stream) + 1):
            ops = [("feed", stream[:cut])] if cut else []
            ops += [("read", 0.5)]
            if cut < len(stream):
                ops += [("feed", stream[cut:])]
            ops += [("read", 0.5)] * (len(ms) + 1)
            add("single-split-exhaustive", ops)
            # EOF after the prefix: nothing but complete lines may be delivered
            ops2 = ([("feed", stream[:cut])] if cut else []) + [("eof",)] + [("read", 0.5)] * (len(ms) + 1)
            add("eof-at-every-offset", ops2)
    ctx.exhaustive_parts.append("every single split point and every EOF offset of 4 short message bursts")

    # 2. seeded: bursts, multi-splits, timeouts at prefixes, long messages
    n_rand = ctx.pick(150, 1500)
    for _ in range(n_rand):
        ms = _msgs(rng, rng.randint(1, 6), ctx.pick(300, 4095))
        stream = b"".join(m.hex().encode() + b"\n" for m in ms)
        chunks = _splits(rng, stream, rng.choice(["whole", "multi", "multi", rng.randrange(len(stream))]))
        ops = []
        for c in chunks:
            if c:
                ops.append(("feed", c))
            for _ in range(rng.choice([0, 1, 1, 2])):
                ops.append(("read", rng.choice([0.1, 1.0])))
        if rng.random() < 0.4:
            ops.append(("eof",))
        ops += [("read", 0.2)] * (len(ms) + 1)
        add("seeded-burst", ops)
    # 3. 4095-byte message and write direction
    big = bytes(rng.randrange(256) for _ in range(4095))
    add("max-length", [("write", big), ("feed", big.hex().encode()[:4000]), ("read", 1.0),
                       ("feed", big.hex().encode()[4000:] + b"\n"), ("read", 1.0)])
    for _ in range(ctx.pick(20, 200)):
        m = _msgs(rng, 1, 64)[0]
        add("write", [("write", m)])
    # 4. malformed (ASCII only): upper case, whitespace padding, odd length, foreign characters
    for line in [b"3E00\n", b"  3e00 \r\n", b"3e0\n", b"zz\n", b"3e 00\n", b"\t10\x0b\x0c01\n", b"\x1c3e\x1f\n"]:
        add("malformed-or-padded", [("feed", line), ("read", 0.5), ("read", 0.5)])
    for _ in range(ctx.pick(40, 400)):
        line = bytes(rng.choice(b"0123456789abcdefABCDEF \t\rxg") for _ in range(rng.randint(0, 9))) + b"\n"
        add("malformed-or-padded", [("feed", line), ("read", 0.5)])

    impl_results = [r for r, _mo in _eval_client_scripts(ctx, scripts)]
    ctx.sample({"scheme": scripts[0][2], "ops": [[o[0]] + [x.hex() if isinstance(x, bytes) else x for x in o[1:]] for o in scripts[5][3]],
                "impl": impl_results[5]})
    ctx.traces_validated += len(scripts)

    # --- server loop ---------------------------------------------------------------------------
    serve = _make_serve(_srv)

    srv_cases = []
    for _ in range(ctx.pick(120, 1200)):
        ms = _msgs(rng, rng.randint(1, 8), ctx.pick(100, 4095))
        stream = b"".join(m.hex().encode() + b"\n" for m in ms)
        tail = b"" if rng.random() < 0.7 else rng.choice([b"3e", b"3e0", b"1"])
        chunks = _splits(rng, stream + tail, rng.choice(["whole", "multi", "multi"]))
        srv_cases.append((stream + tail, chunks, tail))
    for line in [b"3e00\nzz\n3e00\n", b"3E00\r\n1001\n"]:
        srv_cases.append((line, [line], b""))
    for size in (2048, 2049, 4095):  # long requests: the hex line is twice as long as the message
        m = bytes([0x36]) + bytes(rng.randrange(256) for _ in range(size - 1))
        line = m.hex().encode() + b"\n" + b"3e00\n"
        srv_cases.append((line, _splits(rng, line, "multi"), b""))
        srv_cases.append((line + b"3e00\n", _splits(rng, line + b"3e00\n", "multi"), b""))  # other parity -> other server kind
    _eval_server_bursts(ctx, serve, srv_cases)
    ctx.traces_validated += len(srv_cases)

    # --- whole executions (operation sequences, write side, server loop with end reasons, both directions) ---
    _run_client_sequences(ctx, variants)
    _run_write_side(ctx, variants)
    _run_flow_sequences(ctx, variants)
    _run_server_sequences(ctx, _srv)
    _run_exchange(ctx, _srv, variants)
    _run_real_sockets(ctx)



# =================================================================================================
# whole executions: Model/LinesExec.lean (cstep / crun, srvLoop / srvFeed / srvEof, exchange)
# =================================================================================================

def _rs_message(seed, i, n):
    """message i of a real-socket burst: n bytes, all byte values, reproducible from the case"""
    import random as _random
    return _random.Random(f"C19:rs:{seed}:{i}").randbytes(n)


async def _real_socket_burst(kind, spec):
    """one real connection (localhost TCP / unix socket): the client made by its own connect() writes a burst and calls close(); the peer
    starts reading only `pause` seconds after it accepted.  spec: {"messages": [hex...]} (a fixed burst) or {"fill": {"seed", "len", "extra",
    "cap"}} (messages of `len` bytes until the tail of the burst stays in the client's user-space write buffer - the kernel buffers and the
    peer's StreamReader are full -, then `extra` more), "pause".  -> (messages written (write() returned normally), what the peer read)"""
    import os
    import shutil
    import socket
    import tempfile

    from gallia.transports.base import TargetURI
    from gallia.transports.tcp import TCPLinesTransport
    from gallia.transports.unix import UnixLinesTransport

    pause = spec["pause"]
    got = []
    done = asyncio.Event()

    async def handler(r, w):
        await asyncio.sleep(pause)   # a peer that is busy: everything is written (and the sender closes) before it reads
        try:
            while True:
                line = await r.readline()
                if not line.endswith(b"\n"):
                    got.append("eos" if line == b"" else f"tail {len(line)} bytes")
                    break
                got.append("msg " + line.strip().decode())
        except Exception as e:  # noqa: BLE001
            got.append("exc:" + type(e).__name__)
        done.set()
        w.close()

    sent = []
    td = tempfile.mkdtemp(prefix="verif-c19-", dir="/var/tmp")
    try:
        if kind == "tcp-lines":
            srv = await asyncio.start_server(handler, "127.0.0.1", 0)
            if "fill" in spec:  # small kernel buffers keep the burst that fills them small (inherited by the accepted socket)
                srv.sockets[0].setsockopt(socket.SOL_SOCKET, socket.SO_RCVBUF, 65536)
            port = srv.sockets[0].getsockname()[1]
            tr = await TCPLinesTransport.connect(TargetURI(f"tcp-lines://127.0.0.1:{port}"))
        else:
            path = os.path.join(td, "s.sock")
            srv = await asyncio.start_unix_server(handler, path)
            tr = await UnixLinesTransport.connect(TargetURI(f"unix-lines://{path}"))
        try:
            if "fill" in spec:
                f = spec["fill"]
                sock = tr.writer.get_extra_info("socket")
                if sock is not None and kind == "tcp-lines":
                    sock.setsockopt(socket.SOL_SOCKET, socket.SO_SNDBUF, 65536)
                extra = None
                while len(sent) < f["cap"] and (extra is None or extra > 0):
                    m = _rs_message(f["seed"], len(sent), f["len"])
                    await asyncio.wait_for(tr.write(m), 10 + pause)
                    sent.append(m)
                    if extra is not None:
                        extra -= 1
                    elif tr.writer.transport.get_write_buffer_size() > 0:
                        await asyncio.sleep(0.05)  # the peer's stream reader takes what it has room for
                        if tr.writer.transport.get_write_buffer_size() > 0:
                            extra = f["extra"]
                queued = tr.writer.transport.get_write_buffer_size()
            else:
                for h in spec["messages"]:
                    m = bytes.fromhex(h)
                    await tr.write(m)
                    sent.append(m)
                queued = tr.writer.transport.get_write_buffer_size()
            try:
                await asyncio.wait_for(tr.close(), 20 + pause)
            except (TimeoutError, asyncio.TimeoutError):
                got.append("close-never-returned")
        except Exception as e:  # noqa: BLE001
            got.append("client-exc:" + type(e).__name__)
            queued = -1
        try:
            await asyncio.wait_for(done.wait(), 20 + pause)
        except (TimeoutError, asyncio.TimeoutError):
            got.append("peer-never-saw-the-end")
        srv.close()
    finally:
        shutil.rmtree(td, ignore_errors=True)
    return sent, got, queued


def _eval_real_socket_bursts(ctx, cases):
    """cases: (kind, spec); all connections of one call run concurrently in one (real-time) loop -> [(sent, got, queued)]"""
    async def all_():
        return await asyncio.gather(*[_real_socket_burst(kind, spec) for kind, spec in cases])

    loop = asyncio.new_event_loop()
    try:
        runs = loop.run_until_complete(all_())
    finally:
        loop.close()
    for (kind, spec), (sent, got, queued) in zip(cases, runs):
        want = ["msg " + m.hex() for m in sent] + ["eos"]
        late = "fill" in spec
        ctx.ev()
        ctx.kind(f"real-socket:{kind}" + (f":burst-beyond-kernel-buffers:peer-reads-after-{spec['pause']}s" if late else ""))
        ctx.nontrivial(("real-socket", kind, late, spec["pause"]))
        if late:
            ctx.notes.setdefault("real-socket-late-reader", {})[f"{kind}:{spec['pause']}"] = {
                "messages": len(sent), "bytes_in_client_write_buffer_at_close": queued}
        if got != want:
            i = next((k for k, (a, b) in enumerate(zip(got, want)) if a != b), min(len(got), len(want)))
            n_ok = len([g for g in got if g.startswith("msg")])
            case = {"side": "real-socket", "scheme": kind, "pause": spec["pause"], "written": len(sent),
                    "bytes_in_client_write_buffer_at_close": queued}
            case.update({"fill": spec["fill"]} if late else {"messages": spec["messages"]})
            ctx.disagree(f"lines-real-socket:{kind}:messages-lost-at-close" + (":tail-still-in-write-buffer" if late else ""),
                         f"{kind} over a real socket: {len(sent)} messages written (every write() returned normally), then close(); the peer "
                         f"(reading after {spec['pause']} s) got {n_ok} of them and then `{_short(got[i], 60) if i < len(got) else 'nothing'}` where "
                         f"message {i} / end-of-stream was due",
                         case, impl={"read_by_peer": n_ok, "then": [_short(g, 60) for g in got[i: i + 2]]},
                         model={"read_by_peer": len(sent), "then": ["eos"]}, spec_violated=True, site="TCPTransport / UnixTransport connect / close")
    return runs


async def _real_socket_failed_write(kind, spec):
    """one real connection; the peer (raw asyncio streams) does not read, the client writes messages of `len` bytes with a timeout until a
    write cannot be flushed in time (kernel buffers full, writer above its high-water mark); the peer sends M1; the client issues a
    request - by the transport's timeout or under the caller's own deadline (`how`) - whose write half cannot finish; the peer then reads
    everything the client wrote and sends M2; the client reads three times.  -> dict of observations"""
    import os
    import shutil
    import socket
    import tempfile

    from gallia.transports.base import TargetURI
    from gallia.transports.tcp import TCPLinesTransport
    from gallia.transports.unix import UnixLinesTransport

    accepted = asyncio.Queue()

    async def on_connect(r, w):
        await accepted.put((r, w))

    m1, m2, req = _rs_message(spec["seed"], 1, spec["len"]), _rs_message(spec["seed"], 2, 9), _rs_message(spec["seed"], 3, 2)
    obs = {"written": [], "request": None, "peer_read": [], "reads": []}
    td = tempfile.mkdtemp(prefix="verif-c19-", dir="/var/tmp")
    try:
        if kind == "tcp-lines":
            srv = await asyncio.start_server(on_connect, "127.0.0.1", 0)
            srv.sockets[0].setsockopt(socket.SOL_SOCKET, socket.SO_RCVBUF, 65536)
            tr = await TCPLinesTransport.connect(TargetURI(f"tcp-lines://127.0.0.1:{srv.sockets[0].getsockname()[1]}"))
            tr.writer.get_extra_info("socket").setsockopt(socket.SOL_SOCKET, socket.SO_SNDBUF, 65536)
        else:
            path = os.path.join(td, "s.sock")
            srv = await asyncio.start_unix_server(on_connect, path)
            tr = await UnixLinesTransport.connect(TargetURI(f"unix-lines://{path}"))
        pr, pw = await asyncio.wait_for(accepted.get(), 5)
        try:
            filler = _rs_message(spec["seed"], 0, spec["len"])
            stalled = False
            for _ in range(spec["cap"]):
                obs["written"].append(filler)
                try:
                    await tr.write(filler, timeout=0.3)
                except (TimeoutError, asyncio.TimeoutError):
                    stalled = True
                    break
            obs["stalled"] = stalled
            pw.write(m1.hex().encode() + b"\n")
            await pw.drain()
            await asyncio.sleep(0.1)
            obs["written"].append(req)
            try:
                if spec["how"] == "transport-timeout":
                    d = await tr.request(req, timeout=0.5)
                else:
                    d = await asyncio.wait_for(tr.request(req, timeout=None), 0.5)
                obs["request"] = _res(d)
            except (TimeoutError, asyncio.TimeoutError):
                obs["request"] = "write-timeout" if stalled else "pending"
            except Exception as e:  # noqa: BLE001
                obs["request"] = "exc:" + type(e).__name__
            # the peer catches up: everything the client wrote (also the lines of the writes that timed out: they are queued), in order
            for _ in range(len(obs["written"])):
                try:
                    line = await asyncio.wait_for(pr.readline(), 5)
                except (TimeoutError, asyncio.TimeoutError):
                    break
                if not line.endswith(b"\n"):
                    break
                obs["peer_read"].append(line.strip().decode())
            pw.write(m2.hex().encode() + b"\n")
            await pw.drain()
            for _ in range(3):
                try:
                    obs["reads"].append(_res(await tr.read(timeout=1.0)))
                except (TimeoutError, asyncio.TimeoutError):
                    obs["reads"].append("pending")
                except Exception as e:  # noqa: BLE001
                    obs["reads"].append("exc:" + type(e).__name__)
            obs["mutex_locked"] = tr.mutex.locked()
            pw.close()
            await asyncio.wait_for(tr.close(), 10)
        except Exception as e:  # noqa: BLE001
            obs["harness_exc"] = f"{type(e).__name__}:{e}"
        srv.close()
    finally:
        shutil.rmtree(td, ignore_errors=True)
    obs["want_reads"] = ["msg " + m1.hex(), "msg " + m2.hex(), "pending"]
    return obs


def _eval_real_socket_failed_writes(ctx, cases):
    async def all_():
        return await asyncio.gather(*[_real_socket_failed_write(kind, spec) for kind, spec in cases])

    loop = asyncio.new_event_loop()
    try:
        runs = loop.run_until_complete(all_())
    finally:
        loop.close()
    for (kind, spec), o in zip(cases, runs):
        ctx.ev()
        ctx.kind(f"real-socket:{kind}:request-write-half-fails:{spec['how']}")
        ctx.nontrivial(("real-socket-failed-write", kind, spec["how"]))
        ops = [f"write x{len(o['written']) - 1} ({spec['len']} bytes each, timeout 0.3) until one times out", "peer sends M1",
               f"request ({spec['how']} 0.5)", "peer reads everything", "peer sends M2", "read 1.0", "read 1.0", "read 1.0"]
        case = {"side": "real-socket-failed-write", "scheme": kind, "spec": spec, "ops": ops}
        want_peer = [m.hex() for m in o["written"]]
        if "harness_exc" in o or not o.get("stalled"):
            ctx.notes[f"real-socket-failed-write:{kind}:{spec['how']}"] = "precondition not reached: " + str(o.get("harness_exc", "no write ever timed out"))
            continue
        if o["request"] != "write-timeout":
            ctx.disagree(f"lines-real-socket:{kind}:request-on-stalled-writer-returned:{o['request'].split()[0]}",
                         f"{kind} over a real socket: a request whose line cannot be flushed (peer not reading) gave {_short(o['request'], 60)}",
                         case, impl=_short(o["request"], 80), model="write-timeout", spec_violated=False, site="BaseTransport.request_unsafe")
        if o["peer_read"] != want_peer:
            ctx.disagree(f"lines-real-socket:{kind}:peer-did-not-get-what-was-written", f"{kind} over a real socket: the client handed {len(want_peer)} "
                         f"messages to write() (the last ones timed out in drain() and stay queued), the peer read {len(o['peer_read'])}",
                         case, impl=len(o["peer_read"]), model=len(want_peer), spec_violated=True, site="LinesTransportMixin.write")
        if o["reads"] != o["want_reads"]:
            i = next(k for k in range(3) if o["reads"][k: k + 1] != o["want_reads"][k: k + 1])
            ctx.disagree(f"lines-real-socket:{kind}:after-failed-write-half:{o['want_reads'][i].split()[0]}-vs-{(o['reads'][i: i + 1] or ['?'])[0].split()[0]}",
                         f"{kind} over a real socket: after a request whose write half failed ({spec['how']}) the peer's messages [M1, M2] were read as "
                         f"{[_short(x, 30) for x in o['reads']]} (first difference at read {i})",
                         case, impl=[_short(x, 60) for x in o["reads"]], model=[_short(x, 60) for x in o["want_reads"]], spec_violated=True,
                         site="BaseTransport.request / request_unsafe")
        elif o.get("mutex_locked"):
            ctx.disagree(f"lines-real-socket:{kind}:mutex-left-locked", "transport mutex still held after the failed request", case, impl="locked",
                         model="free", spec_violated=True, site="BaseTransport.request")
    return runs


def _run_real_sockets(ctx):
    """what in-memory streams cannot show: what the kernel and the stream writer do with data that is still unread / unsent when the sender
    closes.  Over a real localhost TCP connection and a real unix socket the client writes a burst and closes while the peer has not read
    yet; the peer must still read every message, then a clean end-of-stream (a connection that is reset or aborted on close loses them).
    (a) a small burst (fits the kernel buffers), peer reads after 0.15 s; (b) a burst of 4095-byte messages that goes beyond the kernel
    buffers and the peer's StreamReader, so that its tail is still in the client's user-space write buffer at close(), and a peer that starts
    reading only after a pause longer than any plausible bound an implementation may put on its shutdown."""
    rng = ctx.rng
    msgs = [bytes([rng.randrange(256) for _ in range(rng.choice([1, 2, 7, 300]))]) for _ in range(20)]
    cases = [(kind, {"messages": [m.hex() for m in msgs], "pause": 0.15}) for kind in ("tcp-lines", "unix-lines")]
    for pause in ctx.pick([2.5], [0.2, 1.2, 2.5, 5.0]):
        for kind in ("tcp-lines", "unix-lines"):
            cases.append((kind, {"fill": {"seed": f"{ctx.seed}:{kind}:{pause}", "len": 4095, "extra": 4, "cap": 4000}, "pause": pause}))
    _eval_real_socket_bursts(ctx, cases)
    # (c) an exchange whose write half fails under real flow control while the peer's messages are available / arrive later
    _eval_real_socket_failed_writes(ctx, [(kind, {"seed": f"{ctx.seed}:fw:{kind}:{how}", "len": 4095, "cap": 4000, "how": how})
                                          for kind in ("tcp-lines", "unix-lines") for how in ("transport-timeout", "caller-deadline")])


class _CountWriter(MemWriter):
    """MemWriter that counts close() calls"""

    def __init__(self):
        super().__init__()
        self.close_calls = 0

    def close(self):
        self.close_calls += 1
        super().close()

    # flow control: while `stalled`, drain() does not return (the peer does not read, the writer is above its high-water mark);
    # what was handed to write() stays queued and counts as written (it goes out when the peer reads again)
    stalled = False
    _resumed = None

    def stall(self):
        self.stalled = True
        self._resumed = asyncio.Event()

    def resume(self):
        self.stalled = False
        if self._resumed is not None:
            self._resumed.set()

    async def drain(self):
        while self.stalled:
            await self._resumed.wait()
        await super().drain()


def _res(d):
    return "eos" if d == b"" else "msg " + d.hex()


async def _connect(cls, scheme, writer):
    """the client made by its own connect(): asyncio.open_connection / open_unix_connection are replaced by a stub that
    builds the StreamReader with the `limit` connect() asks for (asyncio's default when it passes none)"""
    from gallia.transports.base import TargetURI

    made = {}

    async def fake_open(*a, **k):
        made["reader"] = asyncio.StreamReader(limit=k["limit"]) if k.get("limit") else asyncio.StreamReader()
        return made["reader"], writer

    o1, o2 = asyncio.open_connection, asyncio.open_unix_connection
    asyncio.open_connection = fake_open
    asyncio.open_unix_connection = fake_open
    try:
        uri = f"{scheme}://127.0.0.1:1" if scheme.startswith("tcp") else f"{scheme}:///tmp/verif-c19-client.sock"
        tr = await cls.connect(TargetURI(uri))
    finally:
        asyncio.open_connection, asyncio.open_unix_connection = o1, o2
    return tr, made["reader"]


def _in_range(ops):
    """whether everything the script sends / delivers stays within the property's message lengths (1..4095 bytes)"""
    if any(len(o[1]) > 4095 for o in ops if o[0] in ("write", "request")):
        return False
    return max((len(l) for l in b"".join(o[1] for o in ops if o[0] == "feed").split(b"\n")), default=0) <= 2 * 4095 + 2


async def _client_seq(cls, scheme, ops):
    """ops: ('feed', bytes) | ('eof',) | ('read', timeout) | ('write', bytes) | ('request', bytes, timeout) | ('close',)
    -> one canonical result string per op, in the format of the driver"""
    from gallia.transports.base import TargetURI

    writer = _CountWriter()
    tr, reader = await _connect(cls, scheme, writer)
    res = []
    for op in ops:
        before = len(writer.data)
        try:
            if op[0] == "feed":
                reader.feed_data(op[1])
                res.append("ok")
            elif op[0] == "eof":
                reader.feed_eof()
                res.append("ok")
            elif op[0] == "stall":
                writer.stall()
                res.append("ok")
            elif op[0] == "resume":
                writer.resume()
                res.append("ok")
            elif op[0] == "write":
                try:
                    n = await tr.write(op[1], timeout=1.0)
                    res.append(f"wrote {n} {hx(writer.data[before:])}")
                except (TimeoutError, asyncio.TimeoutError) as e:
                    # under flow control the write times out in drain(); the line is queued
                    res.append(f"{'write-timeout' if writer.stalled else 'write-refused:TimeoutError'} {hx(writer.data[before:])}")
                except Exception as e:  # noqa: BLE001 - a message that cannot be written is a delivery failure
                    res.append(f"write-refused:{type(e).__name__} {hx(writer.data[before:])}")
            elif op[0] == "request":
                try:
                    if op[2] is not None and (len(op[1]) + len(res)) % 2 == 1:
                        # the caller's own deadline around request() instead of the transport's timeout parameter: the same
                        # operation for the model - what did not arrive in time is not consumed and stays for the next read
                        d = await asyncio.wait_for(tr.request(op[1], timeout=None), op[2])
                    else:
                        d = await tr.request(op[1], timeout=op[2])
                    r = _res(d)
                except (TimeoutError, asyncio.TimeoutError):
                    # on a stalled writer the request cannot get past its write half (drain() blocks): it fails there
                    r = "write-timeout" if writer.stalled else "pending"
                except Exception as e:  # noqa: BLE001
                    r = "bad" if len(writer.data) > before else f"write-refused:{type(e).__name__}"
                res.append(f"{hx(writer.data[before:])} {r}")
            elif op[0] == "close":
                c0 = writer.close_calls
                await tr.close()
                res.append(f"closed {writer.close_calls - c0}")
            else:
                try:
                    d = await tr.read(timeout=op[1])
                    res.append(_res(d))
                except (TimeoutError, asyncio.TimeoutError):
                    res.append("pending")
                except Exception:  # noqa: BLE001 - binascii.Error, UnicodeDecodeError, ValueError
                    res.append("bad")
        except Exception as e:  # noqa: BLE001
            res.append(f"exc:{type(e).__name__}")
    # the transport mutex must be free again after every request (also after a timed-out one)
    if tr.mutex.locked():
        res.append("mutex-left-locked")
    return res


def _seq_lines(ops):
    lines = ["reset"]
    for op in ops:
        if op[0] in ("feed", "write", "request"):
            lines.append(f"{op[0]} {hx(op[1])}")
        elif op[0] == "eof":
            lines.append("eof")
        elif op[0] in ("close", "stall", "resume"):
            lines.append(op[0])
        else:
            lines.append("read")
    return lines


def _api(x):
    """API level: a line that decodes to b"" and end-of-stream both give b"" """
    return x.replace("msg -", "eos")


def _ops_json(ops):
    return [[o[0]] + [x.hex() if isinstance(x, bytes) else x for x in o[1:]] for o in ops]


def _seq_key(ops, i, impl, model):
    op = ops[i][0]
    eof_before = any(o[0] == "eof" for o in ops[:i])
    iw, mw = impl.split(), model.split()
    if op in ("read", "request"):
        ir, mr = (iw[-2] if iw[-2:-1] == ["msg"] else iw[-1]), (mw[-2] if mw[-2:-1] == ["msg"] else mw[-1])
        if op == "request" and iw[0] != mw[0]:
            return "lines-client-seq:request-wrote-other-bytes"
        if mr == "write-timeout":
            return "lines-client-seq:request-on-stalled-writer-returned:" + ir
        st, failed_before = False, False
        for o in ops[:i]:
            st = True if o[0] == "stall" else False if o[0] == "resume" else st
            failed_before = failed_before or (st and o[0] in ("write", "request"))
        if failed_before:
            # a read after an exchange whose write half failed under flow control
            return f"lines-client-seq:after-failed-write-half:{mr}-vs-{ir}"
        if eof_before and mr == "eos" and ir == "msg":
            return "lines-client:unterminated-tail-at-eof-returned-as-message"
        if mr == "pending":
            return "lines-client-seq:blocked-read-returned:" + ir
        if mr == "msg" and ir == "msg":
            later = any(o[0] == "read" for o in ops[:i])
            return "lines-client-seq:wrong-message" + (":after-earlier-read" if later else "")
        return f"lines-client-seq:{mr}-vs-{ir}"
    if op == "write":
        return "lines-client-seq:write-bytes-differ" if iw[0] == "wrote" else "lines-client-seq:" + iw[0]
    return f"lines-client-seq:{op}:{model}-vs-{impl}".replace(" ", "_")


def _run_scripts(ctx, scripts, label_prefix, site):
    """scripts: (label, cls, scheme, ops); all run inside ONE virtual-time loop, compared op by op with crun"""
    async def all_(part):
        out = []
        for _label, cls, scheme, ops in part:
            try:
                out.append(await asyncio.wait_for(_client_seq(cls, scheme, ops), 120.0))  # virtual seconds: a hang is a result
            except (TimeoutError, asyncio.TimeoutError):
                out.append(["hang"])
            except Exception as e:  # noqa: BLE001
                out.append([f"exc:{type(e).__name__}"])
        return out

    impl = []
    for a in range(0, len(scripts), 400):  # a fresh loop per part keeps the virtual clock small (timer resolution)
        try:
            impl += vrun(all_(scripts[a:a + 400]))[0]
        except Stall:
            impl += [["stall"]] * len(scripts[a:a + 400])
    batch, index = [], []
    for _label, _cls, _scheme, ops in scripts:
        ml = _seq_lines(ops)
        index.append((len(batch), len(ml)))
        batch += ml
    out = ctx.lean(batch)
    models = []
    for (label, _cls, scheme, ops), r, (off, n) in zip(scripts, impl, index):
        mo = [_api(x) for x in out[off + 1: off + n]]
        models.append(mo)
        ctx.ev()
        ctx.kind(f"{label_prefix}:{label}")
        ctx.nontrivial((scheme, repr(ops)))
        if r != mo:
            i = next((k for k in range(min(len(r), len(mo))) if r[k] != mo[k]), min(len(r), len(mo)))
            if r in (["hang"], ["stall"]) or r[:1] == ["exc:"]:
                ctx.disagree("lines-client-seq:script-" + r[0], f"{scheme}: the operation sequence does not come back",
                             {"side": "client-seq", "scheme": scheme, "ops": _ops_json(ops)}, impl=r, model=mo,
                             spec_violated=_in_range(ops), site=site)
                continue
            if i >= len(ops):
                ctx.disagree("lines-client-seq:" + (r[-1] if r else "no-result"), f"{scheme}: after the script: {r[-1:]}",
                             {"side": "client-seq", "scheme": scheme, "ops": _ops_json(ops)}, impl=r, model=mo,
                             spec_violated=True, site=site)
                continue
            key = _seq_key(ops, i, r[i], mo[i])
            # the property speaks about messages of 1..4095 bytes and about read / write; longer messages and close() are
            # modelled (the code has no limit of its own) but a difference there alone does not falsify the property
            in_prop = _in_range(ops[: i + 1]) and ops[i][0] != "close"
            ctx.disagree(key, f"{scheme} operation sequence differs from the client machine at op {i} ({ops[i][0]}): impl={r[i]} model={mo[i]}",
                         {"side": "client-seq", "scheme": scheme, "ops": _ops_json(ops[: i + 1])},
                         impl=r[: i + 1], model=mo[: i + 1], spec_violated=in_prop, site=site)
    ctx.traces_validated += len(scripts)
    return impl, models


def _run_client_sequences(ctx, variants):
    """every operation sequence up to a length bound over a small alphabet: chunks that split a hex digit pair, split the
    newline off, carry several lines, a line plus a partial one, CRLF, an undecodable line; read (timeout) and eof at
    every position"""
    chunks = [b"3", b"e", b"\n", b"10\n2", b"2\r\n3E\n", b"zz\n"]
    syms = [("feed", c) for c in chunks] + [("read", 0.25), ("eof",)]
    L = ctx.pick(5, 6)
    seqs = [[]]
    frontier = [[]]
    for _ in range(L):
        nxt = []
        for s in frontier:
            ended = any(o[0] == "eof" for o in s)
            for sym in syms:
                if ended and sym[0] in ("feed", "eof"):
                    continue
                nxt.append(s + [sym])
        seqs += nxt
        frontier = nxt
    scripts = []
    for k, s in enumerate(seqs):
        cls, scheme = variants[k % 2]  # both transports share the mixin: alternate, the seeded part below runs both
        scripts.append(("exhaustive", cls, scheme, s + [("read", 0.25)] * 4))
    ctx.exhaustive_parts.append(f"every client operation sequence of length <= {L} over {len(chunks)} chunks (split hex digit, split newline, "
                                f"several lines per chunk, line + partial line, CRLF / upper case, undecodable line) + read + eof "
                                f"(no feed after eof), each followed by 4 reads: {len(scripts)} scripts")
    # write / request / close mixed in: exhaustive over a second alphabet, shorter
    syms2 = [("feed", b"3e0"), ("feed", b"0\n"), ("feed", b"1001\n7f\n"), ("read", 0.25), ("write", b"\x3e\x00"),
             ("request", b"\x10\x01", 0.25), ("close",), ("eof",)]
    L2 = ctx.pick(4, 5)
    frontier = [[]]
    seqs2 = []
    for _ in range(L2):
        nxt = []
        for s in frontier:
            ended = any(o[0] == "eof" for o in s)
            closed = any(o[0] == "close" for o in s)
            for sym in syms2:
                if ended and sym[0] in ("feed", "eof"):
                    continue
                if closed and sym[0] in ("write", "request"):  # a write on a closed StreamWriter is outside the model
                    continue
                nxt.append(s + [sym])
        seqs2 += nxt
        frontier = nxt
    for k, s in enumerate(seqs2):
        cls, scheme = variants[k % 2]
        scripts.append(("exhaustive-rw", cls, scheme, s + [("read", 0.25)] * 2))
    ctx.exhaustive_parts.append(f"every sequence of length <= {L2} over feed x3 / read / write / request / close / eof: {len(seqs2)} scripts")
    # seeded long sequences, both transports
    rng = ctx.rng
    for _ in range(ctx.pick(60, 600)):
        ms = _msgs(rng, rng.randint(1, 6), ctx.pick(200, 4095))
        stream = b"".join((m.hex() if rng.random() < 0.8 else m.hex().upper()).encode() + rng.choice([b"\n", b"\n", b"\r\n", b" \n"]) for m in ms)
        pieces = _splits(rng, stream, "multi")
        ops = []
        closed = False
        for c in pieces:
            ops.append(("feed", c))
            for _ in range(rng.choice([0, 1, 1, 2])):
                k = rng.random()
                if k < 0.7:
                    ops.append(("read", rng.choice([0.1, 1.0])))
                elif k < 0.8 and not closed:
                    ops.append(("write", _msgs(rng, 1, 40)[0]))
                elif k < 0.95 and not closed:
                    ops.append(("request", _msgs(rng, 1, 40)[0], 0.2))
                else:
                    ops.append(("close",))
                    closed = True
        if rng.random() < 0.4:
            ops.append(("eof",))
        ops += [("read", 0.2)] * (len(ms) + 1)
        for cls, scheme in variants:
            scripts.append(("seeded-seq", cls, scheme, ops))
    impl, _models = _run_scripts(ctx, scripts, "client-seq", "LinesTransportMixin.read/write, BaseTransport.request/close")
    ctx.sample({"scheme": scripts[40][2], "ops": _ops_json(scripts[40][3]), "impl": impl[40]})


def _run_flow_sequences(ctx, variants):
    """the write side under flow control (Model/LinesExec fstep / frun): the writer is a scripted StreamWriter whose drain() blocks while
    `stalled` (peer not reading, writer above its high-water mark).  A write() / request() issued then fails in its WRITE half (TimeoutError
    from the transport's timeout, or the caller's own deadline cancelling it) on an otherwise healthy stream, while messages from the peer
    are already buffered, arrive during the stall or arrive later; afterwards the reads must return exactly the peer's messages, in order."""
    syms = [("feed", b"3e00\n"), ("feed", b"1001\n7f\n"), ("feed", b"22"), ("read", 0.25), ("write", b"\x3e\x00"),
            ("request", b"\x10\x01", 0.25), ("request", b"\x11", 0.25), ("stall",), ("resume",)]
    L = ctx.pick(4, 5)
    frontier, seqs = [[]], []
    for _ in range(L):
        nxt = [s + [sym] for s in frontier for sym in syms]
        seqs += nxt
        frontier = nxt
    scripts = []
    for k, s in enumerate(seqs):
        if not any(o[0] == "stall" for o in s):
            continue  # covered by _run_client_sequences
        cls, scheme = variants[k % 2]
        scripts.append(("flow-exhaustive", cls, scheme, s + [("resume",), ("feed", b"f190\n"), ("read", 0.25), ("read", 0.25), ("read", 0.25), ("read", 0.25)]))
    ctx.exhaustive_parts.append(f"write side under flow control: every sequence of length <= {L} over feed x3 / read / write / request (transport timeout) / "
                                f"request (caller's deadline) / stall / resume that stalls at least once, each followed by resume, a further "
                                f"message and 4 reads: {len(scripts)} scripts")
    rng = ctx.rng
    for _ in range(ctx.pick(80, 800)):
        ms = _msgs(rng, rng.randint(1, 6), ctx.pick(200, 4095))
        stream = b"".join(m.hex().encode() + b"\n" for m in ms)
        ops, stalled = [], False
        for c in _splits(rng, stream, "multi"):
            ops.append(("feed", c))
            for _ in range(rng.choice([0, 1, 1, 2, 3])):
                k = rng.random()
                if k < 0.3:
                    ops.append(("read", rng.choice([0.1, 1.0])))
                elif k < 0.4:
                    ops.append(("write", _msgs(rng, 1, 40)[0]))
                elif k < 0.7:
                    ops.append(("request", _msgs(rng, 1, 40)[0], rng.choice([0.05, 0.2, 2.0])))
                else:
                    stalled = not stalled
                    ops.append(("stall",) if stalled else ("resume",))
        if stalled:
            ops.append(("resume",))
        ops += [("read", 0.2)] * (len(ms) + 1)
        for cls, scheme in variants:
            scripts.append(("flow-seeded", cls, scheme, ops))
    _run_scripts(ctx, scripts, "client-flow", "BaseTransport.request / request_unsafe, LinesTransportMixin.write/read")


def _run_write_side(ctx, variants):
    """write(msg) emits exactly hex(msg) + newline: lengths 1, 2, 4094, 4095, 4096, 20000, every first byte value; what was
    written is fed back (cut at random points) and must be read back as the same message"""
    rng = ctx.rng
    scripts = []
    msgs = []
    for n in (1, 2, 4094, 4095, 4096, 20000):
        msgs.append(bytes(rng.randrange(256) for _ in range(n)))
    for b in range(256):
        msgs.append(bytes([b]) + bytes(rng.randrange(256) for _ in range(rng.choice([0, 1, 2]))))
    for k, m in enumerate(msgs):
        wire = m.hex().encode() + b"\n"
        cls, scheme = variants[k % 2]
        cut = rng.randrange(1, len(wire))
        ops = [("write", m), ("feed", wire[:cut]), ("read", 0.5), ("feed", wire[cut:]), ("read", 0.5), ("read", 0.5)]
        scripts.append((f"write-len-{len(m) if len(m) > 3 else 'short'}", cls, scheme, ops))
        if len(m) > 3:
            scripts.append((f"request-len-{len(m)}", variants[(k + 1) % 2][0], variants[(k + 1) % 2][1],
                            [("feed", wire), ("request", m, 0.5), ("read", 0.5)]))
    _run_scripts(ctx, scripts, "client-write", "LinesTransportMixin.write")
    ctx.exhaustive_parts.append("write(): every first byte value 0..255; lengths 1, 2, 4094, 4095, 4096, 20000")


class _Reply2:
    def __init__(self, pdu):
        self.pdu = pdu


def _make_server_classes(_srv):
    """the line loop around the REAL UDSServerTransport.handle_request; behind it a scripted `respond`:
    first byte 0xEE -> raises, first byte a multiple of 4 -> None (no reply), otherwise reversed request + counter byte;
    the empty request raises by itself (IndexError on pdu[0])"""

    class _Scripted:
        class _State:
            def reset(self):
                pass

        def __init__(self, owner):
            self.owner = owner
            self.state = self._State()

        async def respond(self, request):
            m = bytes(request.pdu)
            if m[0] == 0xEE:
                raise RuntimeError("scripted handler failure")
            if m[0] % 4 == 0:
                return None
            return _Reply2(m[::-1] + bytes([self.owner.cur % 256]))

    class TX(_srv.TCPUDSServerTransport):
        def __init__(self):
            self.n = 0
            self.cur = 0
            self.server = _Scripted(self)
            self.last_time_active = _srv.time()
            self.log = []  # (request, reply | None | 'raised')

        async def handle_request(self, m):
            self.cur = self.n
            self.n += 1
            try:
                r = await _srv.UDSServerTransport.handle_request(self, m)
            except Exception:
                self.log.append((bytes(m), "raised"))
                raise
            self.log.append((bytes(m), r[0]))
            return r

    return TX


class _FakeServer2:
    async def __aenter__(self):
        return self

    async def __aexit__(self, *a):
        return False

    async def serve_forever(self):
        await asyncio.Event().wait()


async def _start_via_run(_srv, base, kind, init=None):
    """start the transport through its own run(); asyncio.start_server / start_unix_server are replaced by a recorder
    -> (transport object, client_connected callback, limit passed by run())"""
    from gallia.services.uds.server import UnixUDSServerTransport
    from gallia.transports.base import TargetURI

    transport_cls, uri = [(_srv.TCPUDSServerTransport, "tcp-lines://127.0.0.1:20162"),
                          (UnixUDSServerTransport, "unix-lines:///tmp/verif-c19.sock")][kind]
    got = {}

    async def fake_start(cb, *a, **k):
        got["cb"] = cb
        got["limit"] = k.get("limit")
        return _FakeServer2()

    o1, o2 = _srv.asyncio.start_server, _srv.asyncio.start_unix_server
    _srv.asyncio.start_server = fake_start
    _srv.asyncio.start_unix_server = fake_start
    try:
        class TT(base, transport_cls):
            def __init__(self):
                if init is not None:
                    init(self)
                else:
                    base.__init__(self)
                self.target = TargetURI(uri)

        t = TT()
        task = asyncio.ensure_future(t.run())
        for _ in range(5):
            await asyncio.sleep(0)
        task.cancel()
        try:
            await task
        except BaseException:  # noqa: BLE001
            pass
    finally:
        _srv.asyncio.start_server, _srv.asyncio.start_unix_server = o1, o2
    return t, got.get("cb", t.handle_client), got.get("limit")


def _task_end(task):
    if not task.done():
        return "running"
    if task.cancelled():
        return "cancelled"
    e = task.exception()
    return "returned" if e is None else type(e).__name__


async def _server_seq(_srv, TX, kind, steps):
    """steps: ('feed', bytes) | ('eof',) -> per step: (written so far, loop ended?, unread bytes, requests handed over)"""
    t, handler, limit = await _start_via_run(_srv, TX, kind)
    reader = asyncio.StreamReader(limit=limit) if limit else asyncio.StreamReader()
    writer = _CountWriter()
    task = asyncio.ensure_future(handler(reader, writer))
    obs = []
    for st in steps:
        if st[0] == "feed":
            reader.feed_data(st[1])
        else:
            reader.feed_eof()
        await asyncio.sleep(0.01)
        obs.append((hx(writer.data), _task_end(task), hx(bytes(reader._buffer)), t.n))
    end = _task_end(task)
    if not task.done():
        task.cancel()
    try:
        await task
    except BaseException:  # noqa: BLE001 - ZeroDivisionError after a connection without handled requests
        pass
    return obs, end, writer.close_calls, list(t.log)


_END_IMPL = {"waiting": ("running",), "eof": ("returned", "ZeroDivisionError"), "eof-tail": ("returned", "ZeroDivisionError"),
             "undecodable": ("returned", "ZeroDivisionError"), "raised": ("returned", "ZeroDivisionError")}


def _run_server_sequences(ctx, _srv):
    """the server loop fed chunk by chunk, observed after every chunk: replies written so far, whether the loop has ended,
    the bytes left unread, the number of requests handed to handle_request; against srvFeed / srvEof"""
    TX = _make_server_classes(_srv)
    rng = ctx.rng
    alphabet = [b"3e00\n", b"3E00\r\n", b" 3e00 \n", b"\n", b"zz\n", b"ee01\n", b"1001\n", b"3e", b"00\n2701\n", b"3", b"\xc3\xa9\n", b"3e 00\n"]
    cases = []
    L = ctx.pick(2, 3)
    frontier = [[]]
    for _ in range(L):
        nxt = [s + [("feed", c)] for s in frontier for c in alphabet]
        for s in nxt:
            cases.append(("exhaustive", s))
            cases.append(("exhaustive+eof", s + [("eof",)]))
        frontier = nxt
    cases.append(("exhaustive+eof", [("eof",)]))
    ctx.exhaustive_parts.append(f"server loop: every chunk sequence of length <= {L} over {len(alphabet)} chunks (lower / upper case, CRLF, blanks, "
                                f"empty line, undecodable, non-ASCII, raising request, unanswered request, split lines), with and without EOF: {len(cases)} cases")
    for _ in range(ctx.pick(80, 800)):
        ms = _msgs(rng, rng.randint(1, 8), ctx.pick(100, 4095))
        parts = []
        for m in ms:
            r = rng.random()
            if r < 0.04:
                m = b"\xee" + m
            line = (m.hex().upper() if rng.random() < 0.2 else m.hex()).encode()
            if r > 0.97:
                line = rng.choice([b"", b"3e0", b"xy", b" "])
            parts.append(rng.choice([b"", b"", b" ", b"\t"]) + line + rng.choice([b"\n", b"\n", b"\r\n", b" \n"]))
        stream = b"".join(parts) + (b"" if rng.random() < 0.7 else rng.choice([b"3e", b"3e0", b"1"]))
        steps = [("feed", c) for c in _splits(rng, stream, rng.choice(["whole", "multi", "multi"]))]
        if rng.random() < 0.5:
            steps.append(("eof",))
        cases.append(("seeded", steps))
    for size in (4094, 4095, 4096, 20000):
        m = bytes([0x36]) + bytes(rng.randrange(256) for _ in range(size - 1))
        stream = m.hex().encode() + b"\n3e00\n"
        cases.append((f"long-{size}", [("feed", c) for c in _splits(rng, stream, "multi")] + [("eof",)]))

    _eval_server_seqs(ctx, _srv, TX, cases, [k % 2 for k in range(len(cases))])


def _eval_server_seqs(ctx, _srv, TX, cases, kinds):
    """cases: (label, steps), kinds[k]: 0 tcp / 1 unix server class -> (impl observations, model state lines per step)"""
    async def all_(a, b):
        out = []
        for k, (_label, steps) in list(enumerate(cases))[a:b]:
            try:
                out.append(await asyncio.wait_for(_server_seq(_srv, TX, kinds[k], steps), 600.0))
            except Exception as e:  # noqa: BLE001
                out.append(([("-", f"harness:{type(e).__name__}", "-", -1)], "?", 0, []))
        return out

    impl = []
    for a in range(0, len(cases), 200):
        impl += vrun(all_(a, a + 200))[0]
    batch, index = [], []
    for _label, steps in cases:
        index.append(len(batch))
        batch.append("reset")
        for st in steps:
            batch.append("sfeed " + hx(st[1]) if st[0] == "feed" else "seof")
            batch.append("sstate")
    out = ctx.lean(batch)
    zde = 0
    for ck, ((label, steps), (obs, end, closes, log), off) in enumerate(zip(cases, impl, index)):
        ctx.ev()
        ctx.kind("server-seq:" + label)
        ctx.nontrivial(("srv-seq", repr(steps)))
        if end == "ZeroDivisionError":
            zde += 1
        for i, (w, e, left, n) in enumerate(obs):
            mw, me, ml, mn = out[off + 2 + 2 * i].split()
            ok = (w == mw and e in _END_IMPL[me] and int(n) == int(mn) and (me == "waiting" or left == ml))
            if me == "waiting" and ok:
                # while serving, the unread bytes are the incomplete line
                ok = left == ml
            if not ok:
                if w != mw:
                    key = "lines-server-seq:replies-differ"
                elif int(n) != int(mn):
                    key = "lines-server-seq:requests-handed-over-differ" + (":unterminated-tail-handled-at-eof" if me == "eof-tail" else "")
                elif e not in _END_IMPL[me]:
                    key = f"lines-server-seq:loop-{e}-but-model-{me}"
                else:
                    key = "lines-server-seq:unread-bytes-differ"
                ctx.disagree(key, f"server loop differs from srvFeed/srvEof after step {i}: impl={(w, e, left, n)} model={out[off + 2 + 2 * i]}",
                             {"side": "server-seq", "kind": ["tcp", "unix"][kinds[ck]],
                              "steps": [[s[0]] + [x.hex() for x in s[1:]] for s in steps[: i + 1]]},
                             impl=[list(o) for o in obs[: i + 1]], model=[out[off + 2 + 2 * j] for j in range(i + 1)],
                             spec_violated=label not in ("long-4096", "long-20000"),
                             site="TCPUDSServerTransport.handle_client / UDSServerTransport.handle_request")
                break
        # one reply line per answered request, none for an unanswered one, in request order
        want = b"".join(r.hex().encode() + b"\n" for _m, r in log if isinstance(r, bytes))
        if obs and obs[-1][0] != hx(want):
            ctx.disagree("lines-server-seq:written-is-not-the-replies-in-order", "bytes written differ from the replies handle_request gave, in order",
                         {"side": "server-seq", "kind": ["tcp", "unix"][kinds[ck]], "steps": [[s[0]] + [x.hex() for x in s[1:]] for s in steps]},
                         impl=obs[-1][0], model=hx(want), spec_violated=True, site="TCPUDSServerTransport.handle_client")
        if closes:
            ctx.notes["server-loop-closes-writer"] = "handle_client called writer.close() (the model leaves the connection open)"
    ctx.notes["zero-division-after-connection-without-requests"] = (
        f"{zde} of {len(cases)} server-loop runs ended with ZeroDivisionError in the average-response-time log line after the loop "
        "(no request had been handled); outside the property, the loop had already ended")
    ctx.traces_validated += len(cases)
    return impl, [[out[off + 2 + 2 * i] for i in range(len(steps))] for (_l, steps), off in zip(cases, index)]


class _Pipe:
    """one direction of an in-memory connection: what is written is delivered to the peer's StreamReader in pieces of
    seeded sizes with seeded (virtual) delays"""

    def __init__(self, reader, rng, maxpiece):
        self.reader = reader
        self.rng = rng
        self.maxpiece = maxpiece
        self.pending = bytearray()
        self.ev = asyncio.Event()
        self.closed = False
        self.total = bytearray()
        self.pieces = 0

    def write(self, data):
        self.pending += data
        self.total += data
        self.ev.set()

    async def drain(self):
        await asyncio.sleep(0)

    def close(self):
        self.closed = True
        self.ev.set()

    async def wait_closed(self):
        await asyncio.sleep(0)

    def is_closing(self):
        return self.closed

    def get_extra_info(self, name, default=None):
        return default

    async def pump(self):
        while True:
            await self.ev.wait()
            self.ev.clear()
            while self.pending:
                n = self.rng.choice([1, 1, 2, 3, 5, 8, self.rng.randint(1, self.maxpiece), len(self.pending)])
                chunk = bytes(self.pending[:n])
                del self.pending[:n]
                self.reader.feed_data(chunk)
                self.pieces += 1
                await asyncio.sleep(self.rng.choice([0, 0, 0, 0.001, 0.001, 0.05, 0.05, 0.3, 0.3, 0.3, 7.0, 45.0 if self.rng.random() < 0.3 else 0.0]))
            if self.closed:
                self.reader.feed_eof()
                return


async def _exchange(_srv, base, init, kind, cls, scheme, msgs, mode, rng):
    """a real line client talking to a real server loop over two _Pipes -> (successful reads, timeouts, server log, wire totals)"""
    from gallia.transports.base import TargetURI

    t, handler, limit = await _start_via_run(_srv, base, kind, init)
    s_reader = asyncio.StreamReader(limit=limit) if limit else asyncio.StreamReader()
    c_reader = asyncio.StreamReader()
    c2s = _Pipe(s_reader, rng, 700)
    s2c = _Pipe(c_reader, rng, 700)
    tasks = [asyncio.ensure_future(c2s.pump()), asyncio.ensure_future(s2c.pump()), asyncio.ensure_future(handler(s_reader, s2c))]
    tr = cls(TargetURI(f"{scheme}://127.0.0.1:1"), c_reader, c2s)
    got, timeouts, errors = [], 0, []

    async def rd(timeout):
        nonlocal timeouts
        try:
            d = await tr.read(timeout=timeout)
            got.append(_res(d))
        except (TimeoutError, asyncio.TimeoutError):
            timeouts += 1
        except Exception as e:  # noqa: BLE001
            errors.append(type(e).__name__)
            got.append("bad")

    async def settle():
        """read on until a long read times out with nothing left in flight in either direction"""
        for _ in range(50 * len(msgs) + 50):
            t0 = timeouts
            await rd(30.0)
            if timeouts > t0 and not c2s.pending and not s2c.pending:
                return
        errors.append("settle-bound")

    if mode == "pipelined":
        for m in msgs:
            await tr.write(m, timeout=1.0)
        for _ in range(8 * len(msgs) + 8):
            await rd(rng.choice([0.01, 0.1, 0.4]))
        await settle()
    else:  # lock-step request(); an unanswered request times out
        for m in msgs:
            try:
                d = await tr.request(m, timeout=rng.choice([0.02, 0.2, 2.0]))
                got.append(_res(d))
            except (TimeoutError, asyncio.TimeoutError):
                timeouts += 1
            except Exception as e:  # noqa: BLE001
                errors.append(type(e).__name__)
                got.append("bad")
        await settle()
    locked = tr.mutex.locked()
    await tr.close()
    await asyncio.sleep(1.0)  # EOF reaches the server loop; it ends
    end = _task_end(tasks[2])
    for x in tasks:
        x.cancel()
    for x in tasks:
        try:
            await x
        except BaseException:  # noqa: BLE001
            pass
    return {"got": got, "timeouts": timeouts, "errors": errors, "log": list(getattr(t, "log", [])), "c2s": bytes(c2s.total),
            "s2c": bytes(s2c.total), "pieces": (c2s.pieces, s2c.pieces), "server_end": end, "mutex_locked": locked}


def _make_real_server_classes(_srv, server_seed):
    """a real RandomUDSServer behind the real handle_request; every (request, reply | None | 'raised') is logged"""
    def init_real(self):
        rp = _srv.RandomUDSServer.RandomnessParameters()
        server = _srv.RandomUDSServer(server_seed, rp, _srv.UDSServer.Behavior())
        server.randomize()
        from gallia.transports.base import TargetURI
        _srv.UDSServerTransport.__init__(self, server, TargetURI("tcp-lines://127.0.0.1:20162"))
        self.log = []

    class Rec(_srv.TCPUDSServerTransport):
        async def handle_request(self, m):
            try:
                r = await _srv.UDSServerTransport.handle_request(self, m)
            except Exception:
                self.log.append((bytes(m), "raised"))
                raise
            self.log.append((bytes(m), r[0]))
            return r

    return Rec, init_real


def _variant(variants, scheme):
    return next(v for v in variants if v[1] == scheme)


def _eval_exchanges(ctx, _srv, variants, items):
    """items: {label, msgs, scheme, mode, server_kind, pipe_seed, cuts: (k1, k2)}: the real client against the real server loop around the
    scripted handler over two seeded pipes, against `exchange` of the model cut by k1 / k2 -> [(run, model line)]"""
    import random as _random
    TX = _make_server_classes(_srv)

    async def all_(a, b):
        out = []
        for it in items[a:b]:
            cls, scheme = _variant(variants, it["scheme"])
            try:
                out.append(await asyncio.wait_for(_exchange(_srv, TX, None, it["server_kind"], cls, scheme, it["msgs"], it["mode"],
                                                            _random.Random(it["pipe_seed"])), 20000.0))
            except Exception as e:  # noqa: BLE001
                out.append({"got": [f"harness:{type(e).__name__}:{e}"], "timeouts": 0, "errors": [], "log": [], "c2s": b"", "s2c": b"",
                            "pieces": (0, 0), "server_end": "?", "mutex_locked": False})
        return out

    runs = []
    for a in range(0, len(items), 25):
        runs += vrun(all_(a, a + 25))[0]
    batch = [f"xchg {it['cuts'][0]} {it['cuts'][1]} " + ",".join(hx(m) for m in it["msgs"]) for it in items]
    out = ctx.lean(batch)
    for it, r, mo in zip(items, runs, out):
        label, msgs, mode, scheme = it["label"], it["msgs"], it["mode"], it["scheme"]
        ctx.ev()
        ctx.kind(f"exchange:{label}:{mode}")
        ctx.nontrivial(("xchg", tuple(msgs), mode, scheme))
        want = [x for x in mo.split(";") if x.startswith("msg")]
        case = {"side": "exchange", "scheme": scheme, "mode": mode, "requests": [m.hex() for m in msgs],
                "server_kind": ["tcp", "unix"][it["server_kind"]], "pipe_seed": it["pipe_seed"], "model_cuts": list(it["cuts"])}
        in_prop = all(len(m) <= 4095 for m in msgs)
        sent = b"".join(m.hex().encode() + b"\n" for m in msgs)
        if r["c2s"] != sent:
            ctx.disagree("lines-exchange:request-bytes-differ", "the client put other bytes on the wire than hex(msg) + newline per request",
                         case, impl=hx(r["c2s"])[:400], model=hx(sent)[:400], spec_violated=in_prop, site="LinesTransportMixin.write")
        elif r["got"] != want:
            i = next((k for k in range(min(len(want), len(r["got"]))) if want[k] != r["got"][k]), min(len(want), len(r["got"])))
            kind = ("missing-reply" if len(r["got"]) < len(want) and i == len(r["got"]) else
                    "extra-read-result" if i == len(want) else "wrong-or-reordered-reply")
            ctx.disagree(f"lines-exchange:{kind}", f"{scheme} {mode}: the client read back {len(r['got'])} results, the model's exchange gives {len(want)}; first difference at {i}",
                         case, impl={"reads": r["got"][: i + 2], "server_log": [(a.hex(), b.hex() if isinstance(b, bytes) else b) for a, b in r["log"]][: i + 3],
                                     "server_end": r["server_end"]},
                         model=want[: i + 2], spec_violated=in_prop, site="LinesTransportMixin.read <-> TCPUDSServerTransport.handle_client")
        elif r["mutex_locked"]:
            ctx.disagree("lines-exchange:mutex-left-locked", "transport mutex still held after the exchange", case, impl="locked", model="free",
                         spec_violated=in_prop, site="BaseTransport.request")
        ctx.kind("exchange:read-timeouts>0" if r["timeouts"] else "exchange:no-read-timeout")
    return list(zip(runs, out))


def _eval_real_exchanges(ctx, _srv, variants, items):
    """items: {msgs, scheme, mode, server_kind, pipe_seed, server_seed}: the real client against the real server loop around the real
    handle_request over a real RandomUDSServer: the client reads back exactly the replies handle_request gave -> [run]"""
    import random as _random

    async def all_real(a, b):
        out = []
        for it in items[a:b]:
            cls, scheme = _variant(variants, it["scheme"])
            Rec, init_real = _make_real_server_classes(_srv, it["server_seed"])
            try:
                out.append(await asyncio.wait_for(_exchange(_srv, Rec, init_real, it["server_kind"], cls, scheme, it["msgs"], it["mode"],
                                                            _random.Random(it["pipe_seed"])), 20000.0))
            except Exception as e:  # noqa: BLE001
                out.append({"got": [f"harness:{type(e).__name__}:{e}"], "log": [], "timeouts": 0, "server_end": "?", "mutex_locked": False})
        return out

    runs2 = []
    for a in range(0, len(items), 25):
        runs2 += vrun(all_real(a, a + 25))[0]
    for it, r in zip(items, runs2):
        msgs, mode, scheme = it["msgs"], it["mode"], it["scheme"]
        ctx.ev()
        ctx.kind(f"exchange-real-server:{mode}")
        ctx.nontrivial(("xchg-real", tuple(msgs), mode, scheme))
        want = ["msg " + b.hex() for _a, b in r["log"] if isinstance(b, bytes) and b]
        handed = [a for a, _b in r["log"]]
        raised = any(b == "raised" for _a, b in r["log"])
        case = {"side": "exchange-real-server", "scheme": scheme, "mode": mode, "requests": [m.hex() for m in msgs], "server_seed": it["server_seed"],
                "server_kind": ["tcp", "unix"][it["server_kind"]], "pipe_seed": it["pipe_seed"]}
        if handed != msgs[: len(handed)] or (len(handed) < len(msgs) and not raised):
            ctx.disagree("lines-exchange:requests-not-handed-over-in-order", "the server loop handed other requests to handle_request than the client sent",
                         case, impl=[a.hex() for a in handed], model=[m.hex() for m in msgs], spec_violated=True, site="TCPUDSServerTransport.handle_client")
        elif r["got"] != want:
            ctx.disagree("lines-exchange:client-reads-differ-from-server-replies", "the client did not read back exactly the replies handle_request gave",
                         case, impl=r["got"], model=want, spec_violated=True, site="LinesTransportMixin.read <-> TCPUDSServerTransport.handle_client")
    return runs2


def _run_exchange(ctx, _srv, variants):
    """both directions composed: real client <-> real server loop, random segmentation and delays in both directions, read
    timeouts falling inside lines; against `exchange` of the model (scripted handler) and, with a real RandomUDSServer
    behind handle_request, against the replies handle_request gave"""
    rng = ctx.rng
    cases = []
    firsts = list(range(256))
    rng.shuffle(firsts)
    for i in range(0, 256, 8):  # every first byte value (0xEE ends the loop: the rest of that burst stays unanswered)
        cases.append(("first-bytes", [bytes([b]) + bytes(rng.randrange(256) for _ in range(rng.choice([0, 1, 3]))) for b in firsts[i:i + 8]]))
    for n in (1, 2, 4094, 4095, 4096, 20000):
        big = bytes([0x35]) + bytes(rng.randrange(256) for _ in range(n - 1))
        cases.append((f"len-{n}", [b"\x3e\x01", big, b"\x10\x01", b"\x27\x01"]))
    for _ in range(ctx.pick(40, 400)):
        cases.append(("seeded", [m for m in _msgs(rng, rng.randint(1, 8), ctx.pick(120, 4095))]))
    items = []
    for k, (label, msgs) in enumerate(cases):
        # the segmentation the model's exchange is cut by (the theorem says it does not matter): drawn per case, recorded with the case
        cuts = (f"{rng.randrange(1, 255):02x}{rng.randrange(0, 255):02x}05", f"{rng.randrange(1, 255):02x}01{rng.randrange(0, 255):02x}")
        items.append({"label": label, "msgs": msgs, "scheme": variants[k % 2][1], "mode": "pipelined" if (k // 2) % 2 == 0 else "lockstep",
                      "server_kind": (k // 4) % 2, "pipe_seed": f"C19:x:{ctx.seed}:{k}", "cuts": cuts})
    res = _eval_exchanges(ctx, _srv, variants, items)
    runs = [r for r, _mo in res]
    ctx.notes["exchange-pieces"] = {"c2s": sum(r["pieces"][0] for r in runs), "s2c": sum(r["pieces"][1] for r in runs),
                                    "read_timeouts": sum(r["timeouts"] for r in runs)}
    ctx.traces_validated += len(cases)

    # a real RandomUDSServer behind the real handle_request: the client reads back exactly the replies handle_request gave
    real_cases = []
    for _ in range(ctx.pick(12, 120)):
        ms = []
        for _ in range(rng.randint(1, 10)):
            ms.append(rng.choice([b"\x10\x01", b"\x10\x03", b"\x3e\x00", b"\x3e\x80", b"\x22\xf1\x90", b"\x27\x01", b"\x11\x01", b"\x10\x83",
                                  bytes([rng.randrange(256)]) + bytes(rng.randrange(256) for _ in range(rng.randint(0, 6)))]))
        real_cases.append(ms)
    items2 = [{"msgs": msgs, "scheme": variants[k % 2][1], "mode": "pipelined" if (k // 2) % 2 == 0 else "lockstep", "server_kind": (k // 4) % 2,
               "pipe_seed": f"C19:x:{ctx.seed}:{10000 + k}", "server_seed": ctx.seed + 7} for k, msgs in enumerate(real_cases)]
    _eval_real_exchanges(ctx, _srv, variants, items2)
    ctx.traces_validated += len(real_cases)


# ------------------------------------------------------------------------------------------------- replay of one recorded case

_CLAUSES = [
    (("lines-client:unterminated-tail-at-eof", "lines-client:eos-vs", "lines-client-seq:eos-vs", "lines-client:msg-vs-eos", "lines-client-seq:msg-vs-eos"),
     "end-of-stream is distinguishable from a message (an unterminated tail at EOF is not a message; a complete line is not end-of-stream)"),
    (("lines-client:blocked-read-returned", "lines-client-seq:blocked-read-returned", "lines-client-seq:wrong-message:after-earlier-read",
      "lines-client:msg-vs-pending", "lines-client-seq:msg-vs-pending", "lines-client-seq:mutex-left-locked", "lines-exchange:mutex-left-locked",
      "lines-client-seq:after-failed-write-half", "lines-client-seq:request-on-stalled-writer-returned"),
     "a read (an exchange) that times out consumes nothing, so the next read returns the complete next message; the peer's messages are "
     "delivered in order, one per read"),
    (("lines-client:write-bytes-differ", "lines-client-seq:write", "lines-client-seq:request-wrote-other-bytes", "lines-exchange:request-bytes-differ"),
     "any sequence of messages of any content and length (1..4095 bytes) is delivered to the peer as exactly that sequence of byte strings (write emits hex + newline)"),
    (("lines-real-socket",),
     "any sequence of messages is delivered to the peer as exactly that sequence of byte strings (every message for which write() returned reaches "
     "the peer, also when the sender closes before the peer has read), and end-of-stream is distinguishable from a message"),
    (("lines-server", "lines-exchange"),
     "in the virtual ECU's server loop every message is delivered intact, in order, one per read, regardless of segmentation / coalescing: one reply "
     "line per answered request, none for an unanswered one, nothing for an unterminated tail"),
    (("lines-client",),
     "every message is delivered intact, in order, one message per read, regardless of how the stream is segmented or coalesced"),
]


def _clause(key):
    for prefixes, text in _CLAUSES:
        if key.startswith(prefixes):
            return text
    return ""


def _ops_from_json(ops):
    out = []
    for o in ops:
        if o[0] in ("feed", "write"):
            out.append((o[0], bytes.fromhex(o[1])))
        elif o[0] == "request":
            out.append(("request", bytes.fromhex(o[1]), o[2]))
        elif o[0] == "read":
            out.append(("read", o[1]))
        else:
            out.append((o[0],))
    return out


def _show_op(o):
    if o[0] in ("feed", "write"):
        return f"{o[0]} {o[1]!r}" if o[0] == "feed" and len(o[1]) <= 40 else f"{o[0]} {hx(o[1])[:80]}{'...' if len(o[1]) > 40 else ''} ({len(o[1])} bytes)"
    if o[0] == "request":
        return f"request {hx(o[1])[:80]} timeout={o[2]}"
    if o[0] == "read":
        return f"read timeout={o[1]}"
    return o[0]


def _short(x, n=160):
    x = str(x)
    return x if len(x) <= n else x[:n] + f"...({len(x)} chars)"


def replay(ctx, payload):
    """re-run one recorded case (client op script / server burst / client operation sequence / server chunk sequence / client-server exchange)
    against the real line transports under $GALLIA_REPO and the Lean model, print both sides; 1 when they still differ"""
    from lib import replaylib
    import random as _random
    import sys
    import types
    finding, origin = replaylib.pick(payload)
    replaylib.header(payload, finding, origin)
    if finding is None:
        return int(replaylib.obligations(sys.modules[__name__], payload))
    setup_repo_import()
    from gallia.transports.tcp import TCPLinesTransport
    from gallia.transports.unix import UnixLinesTransport
    import gallia.services.uds.server as _srv
    _srv.traceback = types.SimpleNamespace(print_exc=lambda *a, **k: None)
    variants = [(TCPLinesTransport, "tcp-lines"), (UnixLinesTransport, "unix-lines")]
    c = finding["case"]
    side = c.get("side")
    if side in ("client", "client-seq"):
        ops = _ops_from_json(c["ops"])
        cls, scheme = _variant(variants, c["scheme"])
        print(f"case    : {scheme} client, {len(ops)} operations over an in-memory StreamReader")
        if side == "client":
            (r, mo), = _eval_client_scripts(ctx, [("replay", cls, scheme, ops)])
        else:
            (r,), (mo,) = _run_scripts(ctx, [("replay", cls, scheme, ops)], "client-seq", "LinesTransportMixin.read/write, BaseTransport.request/close")
        for i, o in enumerate(ops):
            print(f"  op {i:2d}: {_show_op(o)}")
            print(f"    impl : {_short(r[i]) if i < len(r) else '-'}")
            print(f"    model: {_short(mo[i]) if i < len(mo) else '-'}")
        for x in r[len(ops):]:
            print(f"    impl : after the script: {x}")
    elif side == "server":
        stream = bytes.fromhex(c["stream"])
        chunks = [bytes.fromhex(x) for x in c["chunks"]]
        tail = bytes.fromhex(c["tail"]) if "tail" in c else stream.rsplit(b"\n", 1)[-1]
        print(f"case    : {['tcp', 'unix'][len(stream) % 2]} line server fed {len(stream)} bytes in {len(chunks)} chunk(s), then EOF"
              + (f"; unterminated tail {tail!r}" if tail else ""))
        print(f"          stream {_short(stream, 300)}")
        ((w, n), mo), = _eval_server_bursts(ctx, _make_serve(_srv), [(stream, chunks, tail)])
        w_m, _e, _l, n_m = mo.split()
        print(f"impl : replies written {_short(w, 400)}; requests handed to handle_request: {n}")
        print(f"model: replies written {_short(w_m, 400)}; requests: {n_m}")
    elif side == "server-seq":
        steps = [(st[0],) + tuple(bytes.fromhex(x) for x in st[1:]) for st in c["steps"]]
        kind = ["tcp", "unix"].index(c.get("kind", "tcp"))
        longest = max((len(ln) for ln in b"".join(st[1] for st in steps if st[0] == "feed").split(b"\n")), default=0)
        label = "long-4096" if longest > 2 * 4095 + 2 else "replay"  # a message above the property's 4095 bytes: tie only, as in the run
        print(f"case    : {['tcp', 'unix'][kind]} line server, {len(steps)} step(s), observed after every step (written, loop, unread, requests handed over)")
        impl, models = _eval_server_seqs(ctx, _srv, _make_server_classes(_srv), [(label, steps)], [kind])
        obs, end, _closes, log = impl[0]
        for i, st in enumerate(steps):
            print(f"  step {i:2d}: " + (f"feed {_short(st[1], 120)}" if st[0] == "feed" else "eof"))
            print(f"    impl : {_short(obs[i], 300) if i < len(obs) else '-'}")
            print(f"    model: {_short(models[0][i], 300)}")
        print(f"impl : handle_request log: {[(a.hex()[:40], b.hex()[:40] if isinstance(b, bytes) else b) for a, b in log][:12]}; loop ended: {end}")
    elif side == "exchange":
        msgs = [bytes.fromhex(x) for x in c["requests"]]
        if "pipe_seed" not in c:
            print("this replay file was written before the exchange cases carried the pipe seed; re-run ./check C19 to get a replayable case")
            return 1
        it = {"label": "replay", "msgs": msgs, "scheme": c["scheme"], "mode": c["mode"], "server_kind": ["tcp", "unix"].index(c["server_kind"]),
              "pipe_seed": c["pipe_seed"], "cuts": tuple(c["model_cuts"])}
        print(f"case    : {c['scheme']} client <-> {c['server_kind']} line server (scripted handler), {c['mode']}, {len(msgs)} request(s), "
              f"pipes seeded `{c['pipe_seed']}`: " + " ".join(_short(m.hex(), 24) for m in msgs))
        (r, mo), = _eval_exchanges(ctx, _srv, variants, [it])
        print(f"impl : client reads {_short([_short(x, 60) for x in r['got']], 800)}; read timeouts {r['timeouts']}; errors {r['errors']}; server loop {r['server_end']}")
        print(f"impl : server log {[(a.hex()[:24], b.hex()[:24] if isinstance(b, bytes) else b) for a, b in r['log']]}")
        print(f"impl : bytes client->server {_short(hx(r['c2s']), 200)}")
        print(f"model: client reads {[_short(x, 60) for x in mo.split(';') if x.startswith('msg')]} then timeouts")
    elif side == "exchange-real-server":
        msgs = [bytes.fromhex(x) for x in c["requests"]]
        if "pipe_seed" not in c:
            print("this replay file was written before the exchange cases carried the pipe seed; re-run ./check C19 to get a replayable case")
            return 1
        it = {"msgs": msgs, "scheme": c["scheme"], "mode": c["mode"], "server_kind": ["tcp", "unix"].index(c["server_kind"]),
              "pipe_seed": c["pipe_seed"], "server_seed": c["server_seed"]}
        print(f"case    : {c['scheme']} client <-> {c['server_kind']} line server over RandomUDSServer(seed {c['server_seed']}), {c['mode']}, "
              f"pipes seeded `{c['pipe_seed']}`: " + " ".join(m.hex() for m in msgs))
        r, = _eval_real_exchanges(ctx, _srv, variants, [it])
        print(f"impl : handed to handle_request {[a.hex() for a, _b in r['log']]}")
        print(f"impl : client reads {_short(r['got'], 500)}; server loop {r.get('server_end')}")
        print(f"model: handed over = the requests sent, in order; client reads = the replies handle_request gave: "
              f"{['msg ' + b.hex() for _a, b in r['log'] if isinstance(b, bytes) and b]}")
    elif side == "real-socket-failed-write":
        print(f"case    : {c['scheme']} client over a real socket, peer not reading: " + "; ".join(c["ops"]))
        o, = _eval_real_socket_failed_writes(ctx, [(c["scheme"], c["spec"])])
        print(f"impl : request -> {_short(o['request'], 60)}; peer read {len(o['peer_read'])} of {len(o['written'])} written; client reads {[_short(x, 40) for x in o['reads']]}")
        print(f"model: request -> write-timeout; peer reads all {len(o['written'])}; client reads {[_short(x, 40) for x in o['want_reads']]}")
    elif side == "real-socket":
        spec = {"pause": c.get("pause", 0.15)}
        spec.update({"fill": c["fill"]} if "fill" in c else {"messages": c["messages"]})
        print(f"case    : {c['scheme']} client over a real socket writes " + (f"messages of {c['fill']['len']} bytes until the tail of the burst stays in its "
              f"user-space write buffer (+{c['fill']['extra']})" if "fill" in c else f"{len(c['messages'])} messages") +
              f", then close(); the peer starts reading {spec['pause']} s after accepting")
        (sent, got, queued), = _eval_real_socket_bursts(ctx, [(c["scheme"], spec)])
        n_ok = len([g for g in got if g.startswith("msg")])
        print(f"impl : {len(sent)} messages written ({queued} bytes still in the client's write buffer at close()); the peer read {n_ok} messages, "
              f"then {[_short(g, 60) for g in got[n_ok: n_ok + 2]]}")
        print(f"model: the peer reads {len(sent)} messages, then ['eos']")
    else:
        import json
        print(json.dumps(finding, indent=1)[:4000])
        print("unknown case shape")
        return 1
    return replaylib.verdict(ctx, finding, _clause)


MANIFEST = {
    "level_text": ("Lean 4 theorems (37, kernel-checked, standard axioms only) over (a) the line-framing oracle (hex text + newline): content "
                   "round trip for all byte strings, segmentation independence for every chunking, one message per read, a blocked "
                   "read consumes nothing at every prefix of a line, end-of-stream never yields a message; (b) the CLIENT as a whole "
                   "execution (Model/LinesExec: cstep / crun over feed / eof / read / write / request / close): client_trace_spec - for "
                   "every operation sequence the result of every read is the decoding of the next not yet delivered line of the stream "
                   "delivered so far, pending exactly when none is complete and the stream is open, eos exactly when it has ended "
                   "(read_pending_iff, read_eos_iff), in order and each once (client_reads_in_order, client_drained, "
                   "client_delivers_messages), a timed-out read anywhere in any execution changes nothing "
                   "(timed_out_read_consumes_nothing); write emits exactly hex + newline for every length (write_emits_exactly, "
                   "enc_length), request = write; read; the write side under flow control (fstep / frun: the writer stalls and resumes "
                   "anywhere): failed_write_half_consumes_nothing - a write / request that fails in its write half queues its line and "
                   "consumes nothing, all reads return what they return without flow control (failed_request_then_read); (c) the SERVER loop handle_client around a handler that answers / stays silent / "
                   "raises: one reply line per answered request, none for an unanswered one, in order, for any decodable spelling "
                   "(server_replies_in_order), what ends the loop and that nothing after it is served (server_loop_ends, "
                   "server_empty_line_ends, server_dead_after_end), segmentation independence (server_any_segmentation); (d) both "
                   "composed: client_server_exchange (any segmentation in both directions: the reads return exactly the server's "
                   "replies, one per read, in order, then timeouts) and client_server_exchange_any_schedule. Code facts regenerated "
                   "from the AST on every run with obligations (code_facts_agree, limits_cover_property_range): write has no size "
                   "guard, no stream limit is passed on either side, request_unsafe = write; read under the mutex in request, the "
                   "shape of the server loop. Tied by a correspondence run of the real TCPLinesTransport / UnixLinesTransport (made by "
                   "their own connect()) and the real TCPUDSServerTransport / UnixUDSServerTransport (started by their own run()) with "
                   "the real UDSServerTransport.handle_request: every client operation sequence up to length 5 (6 thorough) over a chunk "
                   "alphabet with split hex digits, split newline, several lines per chunk, CRLF, undecodable line, read and eof at "
                   "every position; sequences with write / request / close; messages of 1, 2, 4094, 4095, 4096, 20000 bytes and every "
                   "first byte value; the server loop chunk by chunk with its end reason and unread bytes; real client <-> real server "
                   "loop over in-memory pipes with seeded segmentation and delays in both directions, pipelined and lock-step, against "
                   "the model's exchange and against a real RandomUDSServer's recorded replies; operation sequences over a scripted "
                   "StreamWriter whose drain() blocks (write half of an exchange fails by the transport's timeout or the caller's deadline "
                   "while messages from the peer are buffered / arrive later); over real localhost TCP and unix sockets: a burst, then "
                   "close(), with a peer that reads late - a small burst, and a burst of 4095-byte messages beyond the kernel buffers whose "
                   "tail is still in the client's write buffer at close() with a peer that starts reading after 2.5 s (0.2 .. 5 s thorough); "
                   "an exchange whose write half times out under real flow control, then reads."),
    "level_note": ("Trusted: Lean kernel (axioms propext, Quot.sound, Classical.choice), asyncio.StreamReader.readline / wait_for "
                   "contract, binascii, the AST translators, the harness; the reader is modelled without its 64 KiB line limit "
                   "(obligation: no limit is passed, the default covers the property's range); kernel segmentation is represented by "
                   "feed_data chunking and in-memory pipes; non-ASCII whitespace handling of str.strip() on the client is outside the "
                   "model; the transport mutex is only checked to be free after each request (atomicity is C05); disagreements on "
                   "messages longer than 4095 bytes or on close() are reported as a broken tie, not as a violation of the property."),
    "technique": ("Lean 4 proof (refinement of the buffer machine to the delivered-stream specification, induction over operation "
                  "sequences, generic framing lemma, well-founded server loop) + tables regenerated from the AST with proof obligations "
                  "+ differential correspondence against the real transports and server loops"),
    "design_ref": "DESIGN.md section 7, C19",
}
