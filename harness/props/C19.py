"""C19 - line transports: real LinesTransportMixin (tcp-lines / unix-lines) over an in-memory StreamReader and the
real TCPUDSServerTransport.handle_client, against Model/Lines.lean (the oracle)."""
import asyncio

from common import hx, setup_repo_import
from vloop import MemWriter, Stall, vrun

ID = "C19"
GENS = []
PROOF = "Gallia.Proofs.C19"
DRIVER = "c19"
ORACLE = True
ASSUMPTIONS = [
    "asyncio.StreamReader.readline consumes nothing until it can return and returns the unterminated tail at EOF",
    "malformed-line stream restricted to ASCII bytes (str.strip() on non-ASCII whitespace is outside the model)",
]


def _msgs(rng, n, maxlen):
    out = []
    for _ in range(n):
        k = rng.choice([1, 1, 2, 3, 4, 7, 8, 64, rng.randint(1, maxlen)])
        out.append(bytes(rng.randrange(256) for _ in range(k)))
    return out


def _splits(rng, stream: bytes, mode):
    n = len(stream)
    if mode == "whole" or n < 2:
        return [stream]
    if isinstance(mode, int):
        return [stream[:mode], stream[mode:]]
    k = rng.randint(1, min(8, n - 1))
    cuts = sorted(rng.sample(range(1, n), k))
    return [stream[a:b] for a, b in zip([0] + cuts, cuts + [n])]


async def _client_ops(cls, scheme, ops):
    """ops: list of ('feed', bytes) | ('eof',) | ('read', timeout) -> results per op"""
    from gallia.transports.base import TargetURI

    reader = asyncio.StreamReader()
    writer = MemWriter()
    tr = cls(TargetURI(f"{scheme}://127.0.0.1:1"), reader, writer)
    res = []
    for op in ops:
        if op[0] == "feed":
            reader.feed_data(op[1])
            res.append("ok")
        elif op[0] == "eof":
            reader.feed_eof()
            res.append("ok")
        elif op[0] == "write":
            try:
                n = await tr.write(op[1], timeout=1.0)
                res.append(hx(writer.data))
            except Exception as e:  # noqa: BLE001 - a message of 1..4095 bytes that cannot be written is a delivery failure
                res.append(f"write-refused:{type(e).__name__}")
            writer.chunks.clear()
        else:
            try:
                d = await tr.read(timeout=op[1])
                res.append("eos" if d == b"" else "msg " + d.hex())
            except (TimeoutError, asyncio.TimeoutError):
                res.append("pending")
            except Exception as e:  # binascii.Error, UnicodeDecodeError, ValueError (line too long)
                res.append("bad")
    return res


def _model_lines(ops):
    lines = ["reset"]
    for op in ops:
        if op[0] == "feed":
            lines.append("feed " + hx(op[1]))
        elif op[0] == "eof":
            lines.append("eof")
        elif op[0] == "write":
            lines.append("enc " + hx(op[1]))
        else:
            lines.append("read")
    return lines


def _classify(ops, i, impl, model):
    """canonical key for a client-side disagreement at op i"""
    eof_before = any(o[0] == "eof" for o in ops[:i])
    if eof_before and model[i] == "eos" and impl[i].startswith("msg"):
        return "lines-client:unterminated-tail-at-eof-returned-as-message"
    if model[i] == "pending":
        return "lines-client:blocked-read-returned:" + impl[i].split()[0]
    if ops[i][0] == "write":
        return "lines-client:write-bytes-differ"
    return f"lines-client:{model[i].split()[0]}-vs-{impl[i].split()[0]}"


def run(ctx):
    setup_repo_import()
    from gallia.services.uds.server import TCPUDSServerTransport
    from gallia.transports.tcp import TCPLinesTransport
    from gallia.transports.unix import UnixLinesTransport
    import gallia.services.uds.server as _srv
    import types
    _srv.traceback = types.SimpleNamespace(print_exc=lambda *a, **k: None)  # keep the server loop's stderr quiet

    rng = ctx.rng
    ctx.rule = ("op scripts (feed chunk / eof / read with timeout / write) over an in-memory StreamReader for both "
                "line transports; server loop fed request bursts; distinct = distinct (transport, op script) whose "
                "stream holds >= 1 complete message; non-trivial = has a split inside a line, a coalesced burst, a "
                "timeout on a partial line or an EOF")
    scripts = []  # (label, cls, scheme, ops)
    variants = [(TCPLinesTransport, "tcp-lines"), (UnixLinesTransport, "unix-lines")]

    def add(label, ops):
        for cls, scheme in variants:
            scripts.append((label, cls, scheme, ops))

    # 1. exhaustive: every single split point of short streams, read attempted after every chunk
    short_sets = [[b"\x3e\x00"], [b"\x10\x01", b"\x22\xf1\x90"], [b"\x0a", b"\x0d\x0a\x20"], [bytes([0xFF] * 5)]]
    for ms in short_sets:
        stream = b"".join(m.hex().encode() + b"\n" for m in ms)
        for cut in range(0, len(stream) + 1):
            ops = [("feed", stream[:cut])] if cut else []
            ops += [("read", 0.5)]
            if cut < len(stream):
                ops += [("feed", stream[cut:])]
            ops += [("read", 0.5)] * (len(ms) + 1)
            add("single-split-exhaustive", ops)
            # EOF after the prefix: nothing but complete lines may be delivered
            ops2 = ([("feed", stream[:cut])] if cut else []) + [("eof",)] + [("read", 0.5)] * (len(ms) + 1)
            add("eof-at-every-offset", ops2)
    ctx.exhaustive_parts.append("every single split point and every EOF offset of 4 short message bursts")

    # 2. seeded: bursts, multi-splits, timeouts at prefixes, long messages
    n_rand = ctx.pick(150, 1500)
    for _ in range(n_rand):
        ms = _msgs(rng, rng.randint(1, 6), ctx.pick(300, 4095))
        stream = b"".join(m.hex().encode() + b"\n" for m in ms)
        chunks = _splits(rng, stream, rng.choice(["whole", "multi", "multi", rng.randrange(len(stream))]))
        ops = []
        for c in chunks:
            if c:
                ops.append(("feed", c))
            for _ in range(rng.choice([0, 1, 1, 2])):
                ops.append(("read", rng.choice([0.1, 1.0])))
        if rng.random() < 0.4:
            ops.append(("eof",))
        ops += [("read", 0.2)] * (len(ms) + 1)
        add("seeded-burst", ops)
    # 3. 4095-byte message and write direction
    big = bytes(rng.randrange(256) for _ in range(4095))
    add("max-length", [("write", big), ("feed", big.hex().encode()[:4000]), ("read", 1.0),
                       ("feed", big.hex().encode()[4000:] + b"\n"), ("read", 1.0)])
    for _ in range(ctx.pick(20, 200)):
        m = _msgs(rng, 1, 64)[0]
        add("write", [("write", m)])
    # 4. malformed (ASCII only): upper case, whitespace padding, odd length, foreign characters
    for line in [b"3E00\n", b"  3e00 \r\n", b"3e0\n", b"zz\n", b"3e 00\n", b"\t10\x0b\x0c01\n", b"\x1c3e\x1f\n"]:
        add("malformed-or-padded", [("feed", line), ("read", 0.5), ("read", 0.5)])
    for _ in range(ctx.pick(40, 400)):
        line = bytes(rng.choice(b"0123456789abcdefABCDEF \t\rxg") for _ in range(rng.randint(0, 9))) + b"\n"
        add("malformed-or-padded", [("feed", line), ("read", 0.5)])

    # run implementation
    impl_results = []
    for label, cls, scheme, ops in scripts:
        try:
            r, _vt = vrun(_client_ops(cls, scheme, ops))
        except Stall:
            r = ["stall"]
        impl_results.append(r)
    # run model (one batch)
    batch = []
    index = []
    for label, cls, scheme, ops in scripts:
        ml = _model_lines(ops)
        index.append((len(batch), len(ml)))
        batch += ml
    out = ctx.lean(batch)
    for (label, cls, scheme, ops), r, (off, n) in zip(scripts, impl_results, index):
        mo = ["eos" if x == "msg -" else x for x in out[off + 1: off + n]]  # API level: b"" is end-of-stream
        ctx.ev()
        ctx.kind(f"client:{label}")
        ctx.nontrivial((scheme, repr(ops)))
        if r != mo:
            i = next((k for k in range(min(len(r), len(mo))) if r[k] != mo[k]), 0)
            # shrink: drop ops after the first differing one
            key = _classify(ops, i, r + ["?"] * len(ops), mo)
            ctx.disagree(key, f"{scheme} read/write differs from the line oracle at op {i}: impl={r[i] if i < len(r) else '?'} oracle={mo[i]}",
                         {"side": "client", "scheme": scheme, "ops": [[o[0]] + [x.hex() if isinstance(x, bytes) else x for x in o[1:]] for o in ops[: i + 1]]},
                         impl=r[: i + 1], model=mo[: i + 1], spec_violated=True, site="LinesTransportMixin.read/write")
    ctx.sample({"scheme": scripts[0][2], "ops": [[o[0]] + [x.hex() if isinstance(x, bytes) else x for x in o[1:]] for o in scripts[5][3]],
                "impl": impl_results[5]})
    ctx.traces_validated += len(scripts)

    # --- server loop ---------------------------------------------------------------------------
    class _Reply:
        def __init__(self, pdu):
            self.pdu = pdu

    class _ScriptedServer:
        """stands in for the UDSServer behind the transport: no reply to requests whose first byte is a multiple of 4, otherwise
        the reversed request plus a counter byte"""

        class _State:
            def reset(self):
                pass

        def __init__(self, owner):
            self.owner = owner
            self.state = self._State()

        async def respond(self, request):
            m = bytes(request.pdu)
            if m[0] % 4 == 0:
                return None
            return _Reply(m[::-1] + bytes([self.owner.cur % 256]))

    class T(TCPUDSServerTransport):
        def __init__(self):
            self.n = 0
            self.cur = 0
            self.server = _ScriptedServer(self)
            self.last_time_active = _srv.time()

        async def handle_request(self, m):
            n = self.n
            self.n += 1
            if len(m) == 0:
                return bytes([n % 256]), 0.0
            # the real UDSServerTransport.handle_request (request parsing, reply / no-reply hand-over to the line loop)
            self.cur = n
            return await _srv.UDSServerTransport.handle_request(self, m)

    # The server is started through its own run() so that the stream parameters it asks asyncio for (e.g. a line
    # length limit) are the ones its handler really gets; asyncio.start_server / start_unix_server are replaced by a
    # recorder that hands back the callback and the keyword arguments.
    from gallia.services.uds.server import UnixUDSServerTransport
    from gallia.transports.base import TargetURI

    class _FakeServer:
        async def __aenter__(self):
            return self

        async def __aexit__(self, *a):
            return False

        async def serve_forever(self):
            await asyncio.Event().wait()

    async def _capture(transport_cls, uri):
        got = {}

        async def fake_start(cb, *a, **k):
            got["cb"] = cb
            got["limit"] = k.get("limit")
            return _FakeServer()

        o1, o2 = _srv.asyncio.start_server, _srv.asyncio.start_unix_server
        _srv.asyncio.start_server = fake_start
        _srv.asyncio.start_unix_server = fake_start
        try:
            class TT(T, transport_cls):
                def __init__(self):
                    T.__init__(self)
                    self.target = TargetURI(uri)
            t = TT()
            task = asyncio.ensure_future(t.run())
            for _ in range(5):
                await asyncio.sleep(0)
            task.cancel()
            try:
                await task
            except BaseException:
                pass
        finally:
            _srv.asyncio.start_server, _srv.asyncio.start_unix_server = o1, o2
        return t, got

    async def serve(chunks, eof_tail, kind=0):
        t, got = await _capture(*[(TCPUDSServerTransport, "tcp-lines://127.0.0.1:20162"), (UnixUDSServerTransport, "unix-lines:///tmp/verif-c19.sock")][kind])
        handler = got.get("cb", t.handle_client)
        reader = asyncio.StreamReader(limit=got["limit"]) if got.get("limit") else asyncio.StreamReader()
        writer = MemWriter()
        task = asyncio.ensure_future(handler(reader, writer))
        for c in chunks:
            reader.feed_data(c)
            for _ in range(3):
                await asyncio.sleep(0)
        await asyncio.sleep(0.01)
        done_early = task.done()
        reader.feed_eof()
        try:
            await asyncio.wait_for(task, 1.0)
        except ZeroDivisionError:
            pass  # average of an empty list after the loop ended; outside the property
        except Exception:
            pass
        return writer.data, done_early, t.n

    srv_cases = []
    for _ in range(ctx.pick(120, 1200)):
        ms = _msgs(rng, rng.randint(1, 8), ctx.pick(100, 4095))
        stream = b"".join(m.hex().encode() + b"\n" for m in ms)
        tail = b"" if rng.random() < 0.7 else rng.choice([b"3e", b"3e0", b"1"])
        chunks = _splits(rng, stream + tail, rng.choice(["whole", "multi", "multi"]))
        srv_cases.append((stream + tail, chunks, tail))
    for line in [b"3e00\nzz\n3e00\n", b"3E00\r\n1001\n"]:
        srv_cases.append((line, [line], b""))
    for size in (2048, 2049, 4095):  # long requests: the hex line is twice as long as the message
        m = bytes([0x36]) + bytes(rng.randrange(256) for _ in range(size - 1))
        line = m.hex().encode() + b"\n" + b"3e00\n"
        srv_cases.append((line, _splits(rng, line, "multi"), b""))
        srv_cases.append((line + b"3e00\n", _splits(rng, line + b"3e00\n", "multi"), b""))  # other parity -> other server kind
    batch = ["serve " + hx(s) for s, _, _ in srv_cases]
    out = ctx.lean(batch)
    for (stream, chunks, tail), mo in zip(srv_cases, out):
        (written, done_early, n), _vt = vrun(serve(chunks, tail, kind=len(stream) % 2))
        w_m, err_m, left_m, n_m = mo.split()
        ctx.ev()
        ctx.kind("server:burst" + ("+partial-tail" if tail else ""))
        ctx.nontrivial(("srv", stream, tuple(chunks)))
        # before EOF: replies so far must equal the oracle's; the partial tail must not have been answered
        if hx(written) != w_m or (int(n) != int(n_m) and not tail):
            ctx.disagree("lines-server:replies-differ" + (":unterminated-tail-answered-at-eof" if tail and int(n) == int(n_m) + 1 else ""),
                         "server loop output differs from the line oracle",
                         {"side": "server", "stream": stream.hex(), "chunks": [c.hex() for c in chunks]},
                         impl={"written": hx(written), "handled": n}, model=mo, spec_violated=True,
                         site="TCPUDSServerTransport.handle_client")
        elif tail and int(n) != int(n_m):
            ctx.disagree("lines-server:unterminated-tail-handled-at-eof",
                         "server loop handles an unterminated request tail at EOF as a request",
                         {"side": "server", "stream": stream.hex(), "chunks": [c.hex() for c in chunks]},
                         impl={"written": hx(written), "handled": n}, model=mo, spec_violated=True,
                         site="TCPUDSServerTransport.handle_client")
    ctx.traces_validated += len(srv_cases)

MANIFEST = {
    "level_text": ("Lean 4 theorems over the line-framing oracle (hex text + newline): content round trip for all byte "
                   "strings, segmentation independence for every chunking (generic Framing.feed_chunks), one message per "
                   "read, a blocked read consumes nothing at every prefix of a line, end-of-stream never yields a message, "
                   "server loop answers coalesced requests in order. Tied to the code by a correspondence run of the real "
                   "LinesTransportMixin (tcp-lines, unix-lines) and TCPUDSServerTransport.handle_client over in-memory "
                   "streams: every split point and EOF offset of short bursts exhaustively, seeded multi-splits, 4095-byte "
                   "messages, malformed lines."),
    "level_note": ("Trusted: Lean kernel (axioms propext, Quot.sound, Classical.choice), asyncio.StreamReader.readline "
                   "contract, binascii, the harness; kernel TCP segmentation is represented by feed_data chunking; "
                   "non-ASCII whitespace handling of str.strip() is outside the model."),
    "technique": "Lean 4 proof (induction, generic framing lemma) + differential correspondence against the real transports",
    "design_ref": "DESIGN.md section 7, C19",
}
