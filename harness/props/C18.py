"""C18 - configuration resolution: the real `create_parser` (pydantic_argparse + GalliaBaseModel glue) for every command
of `load_commands()` x every option x every combination of providers, against Model/Config.lean.

The model is the precedence rule the property states (CLI > GALLIA_<NAME> > gallia.toml key > default, the winning
value validated, a refused value reported with its provider), so a disagreement on an in-scope input is a failing
input of the property - except where only the value codec differs (then the tie is broken, not the property).
"""
from __future__ import annotations

import contextlib
import io
import json
import multiprocessing as mp
import os
import random
import re
import tomllib
from collections import Counter

from common import setup_repo_import

import c18_lib as L
import c18_values as V

ID = "C18"
GENS = ["c18_options"]
PROOF = "Gallia.Proofs.C18"
DRIVER = "c18"
ORACLE = True
ASSUMPTIONS = [
    "reading of 'an invalid value is rejected ... instead of being ignored': the property speaks about the value precedence selects; only the "
    "winning provider's value is validated (GALLIA_DEPTH=zz is not noticed when --depth 5 is given): theorem losing_invalid_ignored, the model follows the code",
    "reading of 'a message naming its source': the message names the provider whose value equals the rejected input, else the command line "
    "(argparse/parser.py compares values); with the very same invalid text on the command line and in the environment / file the lower provider is "
    "named, which does hold that text (theorem blamed_holds_input); modelled and tied, not counted as a violation",
    "validity of URI / float / OEM values is taken from the type's own constructor (opaque kinds); the glue around it is what is compared",
    "pydantic's lax str -> int (clean_int_str + JSON integer syntax) and Python's int(x, 0) / int(x, 16) / str.strip are modelled for the ASCII "
    "alphabet and tied on all short strings; Unicode digits and Unicode white space are outside",
    "argparse is modelled by contract: a repeated option keeps its last occurrence, nargs=* collects the tokens up to the next option string, "
    "a value with a leading dash needs the --option=value form (negative list elements are therefore not offered)",
    "TOML values of a type the before-validator of a special field type does not expect (a float for an AutoInt, an int for HexBytes / Ranges2D, a "
    "non-member int for an enum) are not offered: no shipped command reads such a field from gallia.toml (theorem elementwise_kinds_not_in_file "
    "and the kinds-by-provider table), the synthetic command would crash there",
    "git root = nearest ancestor with a .git directory git accepts (GIT_DIR, .git files, bare repositories, safe.directory are outside); the user "
    "config directory is $XDG_CONFIG_HOME/gallia or ~/.config/gallia (platformdirs on Linux); tomllib is trusted to turn the text into the document tree",
    "the re-created configuration is compared inside one process: a default computed at import time (seed of `script vecu rng`) is stored "
    "explicitly, which the stored-JSON comparison checks, but a second interpreter is not started",
    "dict[str, Any] (--properties of `script vecu db`) cannot be given by any provider (theorem dict_unprovidable, known finding); its store / "
    "reload is tied on configurations built through the API",
]

UNMODELLED = "other"

# values that keep the commands' cross-field validators satisfied while one option is varied
URI_POOLS = {
    ("discover", "uds", "isotp"): ["can-raw://can0", "can-raw://vcan1?is_fd=true"],
    ("script", "vecu", "db"): ["tcp://127.0.0.1:20162", "unix-lines:///var/run/ecu.sock"],
    ("script", "vecu", "rng"): ["tcp://127.0.0.1:20162", "unix-lines:///var/run/ecu.sock", "isotp://can0?src_addr=1&dst_addr=2"],
    ("primitive", "xcp"): ["tcp://127.0.0.1:5555", "tcp://10.1.1.1:1"],
}
# (command, option) -> argv added to the base line unless that option itself is varied
BASE_EXTRA = {
    ("primitive", "uds", "rtcl"): {"stop": ["--stop"], "results": ["--results"]},
    ("primitive", "uds", "wmba"): {"data": ["--data", "00ff"]},
    ("primitive", "uds", "wdbi"): {"data": ["--data", "00ff"]},
    ("script", "rerun"): {"file": ["--file", "/var/tmp/META.json"]},
    ("primitive", "uds", "dddi", "identifier"): {"sources": ["--sources", "0x1234:1:2"]},
    ("primitive", "uds", "dddi", "memory"): {"sources": ["--sources", "0x1000:4"]},
}
# varying option A needs option B out of / into the base line (exactly-one-of validators)
XOR = {
    ("primitive", "uds", "wmba"): ("data", "data_file", ["--data-file", "/var/tmp/data.bin"], []),
    ("primitive", "uds", "wdbi"): ("data", "data_file", ["--data-file", "/var/tmp/data.bin"], []),
    ("script", "rerun"): ("file", "id", ["--id", "3"], ["--db", "/var/tmp/x.db"]),   # "requires a database connection"
}
SRC_ORDER = ["cli", "env", "file"]
SYNTH = ("synthetic",)


def opt_flag(o: L.Opt) -> str:
    return "--" + o.name.replace("_", "-")


LIST_KINDS = ("ranges", "ranges2d", "autoInts", "tuples", "enums", "dict")


def cli_args(o: L.Opt, conc) -> list[str]:
    if o.kind.name == "bool":
        return [opt_flag(o) if conc else "--no-" + o.name.replace("_", "-")]
    if o.positional:
        return list(conc)
    if len(conc) == 1 and o.kind.name not in LIST_KINDS and (conc[0].startswith("-") or conc[0] == ""):
        # argparse takes `-0x10` for an option string: a value with a leading dash travels as --option=value
        return [opt_flag(o) + "=" + conc[0]]
    return [opt_flag(o)] + list(conc)


def lean_field(o: L.Opt) -> str:
    return o.kind.lean(None if o.const is L.NOCONST else L.canon_val(o.const), o.positional)


class Plan:
    """per command: options, base line"""

    def __init__(self, path, cmd, rng):
        self.path = tuple(path)
        self.cmd = cmd
        self.opts = [o for o in L.options(path, cmd)]
        self.visible = [o for o in self.opts if not o.hidden]
        self.by_name = {o.name: o for o in self.opts}
        self.uri_pool = URI_POOLS.get(self.path)
        self.hi = 255
        self.base: dict[str, list[str]] = {}
        self.unusable: str | None = None
        for o in self.visible:
            if o.required:
                r = V.valid(o.kind, "cli", rng, self.hi, self.uri_pool)
                while r is not None and isinstance(r[1], list) and any(isinstance(t, str) and t.startswith("-") for t in r[1]) \
                        and (o.positional or o.kind.name in LIST_KINDS):
                    r = V.valid(o.kind, "cli", rng, self.hi, self.uri_pool)
                if r is not None:
                    self.base[o.name] = cli_args(o, r[1])
        for name, argv in BASE_EXTRA.get(self.path, {}).items():
            self.base[name] = list(argv)
        if "power_cycle" in self.by_name and "power_supply" in self.by_name:
            self.base["power_supply"] = ["--power-supply", V.PSURIS[0]]  # "power-cycle needs power-supply"

    def argv_for(self, varied: str, cli_part: list[str], provides: bool) -> list[str]:
        """positional arguments first (declaration order), then the options"""
        base = dict(self.base)
        x = XOR.get(self.path)
        tail: list[str] = []
        if x is not None:
            a, b, b_argv, b_needs = x
            if varied == b:
                if provides:
                    base.pop(a, None)
                    tail = list(b_needs)
            elif varied == a and not provides:
                tail = list(b_argv) + list(b_needs)
        base.pop(varied, None)
        pos, rest = [], []
        for o in self.visible:
            if o.name == varied:
                (pos if o.positional else rest).extend(cli_part)
            elif o.name in base:
                (pos if o.positional else rest).extend(base[o.name])
        return pos + rest + tail


def sources_of(o: L.Opt) -> list[str]:
    """providers in priority order (for a positional argument the environment and the file are read as well - and
    never used)"""
    s = ["cli"]
    if o.env:
        s.append("env")
    if o.key:
        s.append("file")
    return s


def _dashed(conc) -> bool:
    return isinstance(conc, list) and any(isinstance(t, str) and t.startswith("-") for t in conc)


def same_as_cli(o: L.Opt, src: str, cli):
    """the provider `src` holding the very text the command line gives: -> (lean_raw, concrete) or None"""
    raw, conc = cli
    if raw in ("F",) or o.kind.name == "bool":
        return None
    if o.kind.name in LIST_KINDS:
        if src == "file":
            return (raw, list(conc))                   # the same list
        if not conc:
            return None
        t = conc[-1]                                   # env: the text of one element (what an element-wise error reports)
        return ("s:" + L.thex(t), t)
    if len(conc) != 1:
        return None
    return (raw, conc[0])


def make_case(plan: Plan, o: L.Opt, combo: dict[str, str], rng) -> dict | None:
    """combo: source -> 'valid' | 'invalid' | 'flag' (cli bare const) | 'same' (the text the command line gives);
    absent = provider silent"""
    prov = {}
    for src, how in combo.items():
        if how == "flag":
            prov[src] = ("F", [])
            continue
        if how == "same":
            continue
        for _ in range(8):
            r = V.valid(o.kind, src, rng, plan.hi, plan.uri_pool) if how == "valid" else V.invalid(o.kind, src, rng)
            # positional arguments and list elements cannot start with a dash (argparse reads an option string)
            if r is None or src != "cli" or not _dashed(r[1]) or not (o.positional or o.kind.name in LIST_KINDS):
                break
        else:
            return None
        if r is None:
            return None
        prov[src] = r
    for src, how in combo.items():
        if how == "same":
            if "cli" not in prov:
                return None
            r = same_as_cli(o, src, prov["cli"])
            if r is None:
                return None
            prov[src] = r
    # providers must hand over pairwise different text so that the winner is visible
    texts = [json.dumps(v[1], sort_keys=True, default=str) for v in prov.values()]
    dflt = None if o.required else L.canon_val_kind(o.default, o.kind)
    case = {
        "cmd": list(plan.path), "opt": o.name, "field": lean_field(o), "kind": o.kind.label(),
        "combo": "-".join(f"{s}:{combo[s]}" for s in SRC_ORDER if s in combo) or "none",
        "dflt": dflt, "env_name": o.env, "key": o.key,
        "cli": list(prov["cli"]) if "cli" in prov else None,
        "env": list(prov["env"]) if "env" in prov else None,
        "file": list(prov["file"]) if "file" in prov else None,
        "distinct": len(set(texts)) == len(texts) or "same" in combo.values(),
        "kname": o.kind.name, "ksub": o.kind.sub,
    }
    cli_part = cli_args(o, prov["cli"][1]) if "cli" in prov and prov["cli"][0] != "F" else ([opt_flag(o)] if "cli" in prov else [])
    if "cli" in prov and prov["cli"][0] != "F" and not o.positional and rng.random() < 0.12:
        # the option given twice: argparse keeps the last occurrence (an earlier one may even be invalid)
        first = (V.valid(o.kind, "cli", rng, plan.hi, plan.uri_pool) if rng.random() < 0.7 else V.invalid(o.kind, "cli", rng))
        if first is not None and not (_dashed(first[1]) and o.kind.name in LIST_KINDS):
            cli_part = cli_args(o, first[1]) + cli_part
            case["repeated"] = True
    case["argv"] = plan.argv_for(o.name, cli_part, provides=bool(prov))
    return case


def model_line(case) -> str:
    g = lambda s: case[s][0] if case.get(s) else "-"  # noqa: E731
    return f"eff {case['field']} {g('cli')} {g('env')} {g('file')} {case['dflt'] or '-'}"


ERR_ARG = re.compile(r"argument ([^:]+): (.*)")
ERR_DEF = re.compile(r"default of (\w+) from (environment variable|config file) \(([^)]*)\): (.*)")
ERR_REQ = re.compile(r"the following arguments are required: (.*)")


def read_error(text: str, o_name: str, flag: str):
    """-> list of (source named, option named, detail)"""
    out = []
    for line in text.splitlines():
        line = line.strip()
        if line.startswith("error: "):
            line = line[7:]
        if m := ERR_DEF.match(line):
            out.append(("env" if m.group(2).startswith("env") else "file", m.group(1), m.group(3)))
        elif m := ERR_REQ.match(line):
            out.append(("missing", m.group(1), ""))
        elif m := ERR_ARG.match(line):
            out.append(("cli", m.group(1), m.group(2)))
        elif line and not line.endswith("errors:"):
            out.append(("unnamed", "", line[:160]))
    return out


_W = {}


def _worker_state():
    if "sb" in _W and _W.get("pid") != os.getpid():
        _W.clear()  # forked worker: its own gallia.toml, never the parent's
    if "sb" not in _W:
        _W["pid"] = os.getpid()
        setup_repo_import()
        L.ready()
        _W["sb"] = L.Sandbox()
        _W["cmds"] = {tuple(p): c for p, c in L.commands()}
        import c18_synth

        _W["cmds"][SYNTH] = c18_synth.Synth
        import atexit

        atexit.register(_W["sb"].close)
    return _W


def real_case(case, tree_parser_builder=None) -> dict:
    """run one case against the real parser glue"""
    from gallia.cli.gallia import create_parser

    st = _worker_state()
    cmd = st["cmds"][tuple(case["cmd"])]
    env = {case["env_name"]: case["env"][1]} if case.get("env") else {}
    fv = {case["key"]: case["file"][1]} if case.get("file") else {}
    st["sb"].set(fv, env)
    try:
        if tree_parser_builder is not None:
            parser = tree_parser_builder()
            argv = list(case["cmd"]) + case["argv"]
        else:
            parser = create_parser(cmd)
            argv = case["argv"]
    except Exception as e:  # building the parser itself fails
        return {"r": "raise", "exc": type(e).__name__, "text": str(e)[:200]}
    res = L.real_parse(parser, argv)
    if res[0] == "ok":
        cfg = res[1]
        out = {"r": "ok", "val": canon_of(getattr(cfg, case["opt"]), case.get("kname"), case.get("ksub", ""))}
        out.update(reload_config(cmd, cfg))
        return out
    if res[0] == "raise":
        return {"r": "raise", "exc": res[1], "text": res[2]}
    errs = read_error(res[2], case["opt"], "")
    return {"r": "exit", "errs": errs, "text": res[2][-300:]}


class _K:
    def __init__(self, name, sub=""):
        self.name = name
        self.sub = sub


def canon_of(v, kname, ksub=""):
    return L.canon_val_kind(v, _K(kname, ksub) if kname else None)


def reload_config(cmd, cfg) -> dict:
    """the stored configuration (what BaseCommand puts into META.json / the database), fed back to the command"""
    from gallia.transports import TargetURI

    out = {}
    try:
        stored = cfg.model_dump_json()
        # the two places the code stores it: run_meta.config in the database (the dump itself, DBHandler.insert_run_meta)
        # and RunMeta.config in META.json (built by BaseCommand.__init__, written through RunMeta.json())
        data = json.loads(stored)
        try:
            meta = json.loads(cmd(cfg).run_meta.json())["config"]
        except Exception as e:  # noqa: BLE001
            out["meta_exc"] = f"{type(e).__name__}: {str(e)[:120]}"
            meta = data
        out["meta_equal"] = meta == data
        again = cmd.CONFIG_TYPE(**meta)   # what Rerunner.main does with either of them
        out["dump_equal"] = again.model_dump_json() == stored
        diffs = []
        for name in type(cfg).model_fields:
            a, b = getattr(cfg, name), getattr(again, name)
            if isinstance(a, TargetURI) and isinstance(b, TargetURI):
                same = a.raw == b.raw and type(a) is type(b)  # the URI classes define no __eq__
            else:
                same = a == b
            if not same:
                diffs.append([name, L.canon_val(a), L.canon_val(b)])
        out["field_diffs"] = diffs
        kinds = _kinds_of(cmd)
        out["stored"] = {k: L.canon_json(v, kinds.get(k)) for k, v in data.items()}
        out["vals"] = {name: L.canon_val_kind(getattr(cfg, name), kinds.get(name)) for name in type(cfg).model_fields}
    except Exception as e:
        out["reload_exc"] = f"{type(e).__name__}: {str(e)[:200]}"
    return out


_KINDS: dict = {}


def _kinds_of(cmd) -> dict:
    if cmd not in _KINDS:
        ct = cmd.CONFIG_TYPE
        _KINDS[cmd] = {n: L.classify(i.annotation, i.metadata, n, ct) for n, i in ct.model_fields.items()}
    return _KINDS[cmd]


def _run_chunk(chunk):
    try:
        return [real_case(c) for c in chunk]
    finally:
        st = _W
        if "sb" in st and st.get("pid") == os.getpid():
            st["sb"].close()  # pool workers leave through os._exit: no atexit
            st.clear()


def run_real(ctx, cases):
    if len(cases) < 400:
        return [real_case(c) for c in cases]
    n = min(16 if not ctx.quick or ctx.widened else 6, os.cpu_count() or 4)
    chunks = [cases[i::n] for i in range(n)]
    with mp.get_context("fork").Pool(n) as pool:
        parts = pool.map(_run_chunk, chunks)
    out = [None] * len(cases)
    for i, part in enumerate(parts):
        out[i::n] = part
    return out


def decl_class(o: L.Opt) -> str:
    return o.decl["cls"].__name__ if o.decl else "?"


def metadata_lost(o: L.Opt) -> bool:
    """the confirmed pydantic >= 2.12 defect: declared with gallia's Field and an Annotated[...] type, but the live
    field info is a plain FieldInfo"""
    return bool(o.decl and o.decl["gallia_field"] and o.decl["annotated_top"] and not o.live_config)


KEY_META = "annotated-field-loses-config-metadata"


def run(ctx):
    setup_repo_import()
    L.ready()
    rng = ctx.rng
    ctx.rule = ("one case = (command, option, which of CLI / GALLIA_<NAME> / gallia.toml provide a value (valid, invalid or bare "
                "const flag), the values); the parser is built by the real create_parser with a temp gallia.toml and "
                "environment; distinct = distinct (command, option, provider combination, values); non-trivial = at least one "
                "provider besides the default gives a value, or a required option is left without any; further case kinds: a text given "
                "to an int / HexInt validator (non-trivial = accepted), a (document, dotted key) pair for Config.get_value (non-trivial = "
                "present), a world of directories / .git / gallia.toml files / environment for search_config, a configuration sent through "
                "Rerunner.main from META.json and from run_meta")
    cmds = L.commands()
    ctx.notes["commands"] = len(cmds)
    import c18_synth

    cmds = cmds + [(SYNTH, c18_synth.Synth)]
    plans = [Plan(p, c, random.Random(f"base:{' '.join(p)}")) for p, c in cmds]
    st = _worker_state()
    try:
        steps = [(check_metadata, (ctx, plans)), (check_template, (ctx, plans)), (check_getvalue, (ctx, rng)), (check_codecs, (ctx, plans)),
                 (check_keys, (ctx, plans)), (check_template_doc, (ctx, plans)), (check_discovery, (ctx, rng)),
                 (check_extra_defaults, (ctx, plans, rng)), (check_unprovidable, (ctx, plans)), (check_matrix, (ctx, plans, rng)),
                 (check_tree, (ctx, plans, rng)), (check_rerun, (ctx, plans, rng))]
        for f, args in steps:
            try:
                f(*args)
            except Exception as e:  # noqa: BLE001
                # the implementation raised where the harness expects an answer: the other parts still run and look for the input
                import traceback

                tb = traceback.format_exc()
                ctx.disagree(f"part-aborted:{f.__name__}:{type(e).__name__}", f"{f.__name__} aborted: {type(e).__name__}: {str(e)[:200]}",
                             {"part": f.__name__, "traceback": tb[-1500:]}, impl=f"{type(e).__name__}: {e}"[:300], model="an answer",
                             spec_violated=False, site=tb.strip().splitlines()[-3].strip()[:200] if len(tb.strip().splitlines()) >= 3 else "")
                st["sb"].set({}, {})
    finally:
        st["sb"].set({}, {})


# ------------------------------------------------------------------------------------------------------------------
# A. declared metadata survives model construction
# ------------------------------------------------------------------------------------------------------------------

def check_metadata(ctx, plans):
    from pydantic_core import PydanticUndefined

    n = 0
    lost = []
    for plan in plans:
        for o in plan.opts:
            if not (o.decl and o.decl["gallia_field"]):
                continue
            n += 1
            ctx.ev()
            info = plan.cmd.CONFIG_TYPE.model_fields[o.name]
            if not o.live_config:
                lost.append(o)
                continue
            kw = o.decl["kw"]
            live = {"positional": info.positional, "short": info.short, "hidden": info.hidden,
                    "const": None if info.const is PydanticUndefined else info.const,
                    "config_section": info.config_section, "metavar": info.metavar}
            want = {"positional": o.positional, "short": o.short, "hidden": o.hidden,
                    "const": None if o.const is L.NOCONST else o.const,
                    "config_section": o.decl["section"],
                    "metavar": kw.get("metavar") if isinstance(kw.get("metavar"), str) else None}
            for k in want:
                if live[k] != want[k]:
                    ctx.disagree(f"field-metadata:{decl_class(o)}.{o.name}:{k}",
                                 f"declared {k}={want[k]!r} of {o.ident} is {live[k]!r} on the live field info",
                                 {"cmd": list(plan.path), "opt": o.name, "attribute": k}, impl=repr(live[k]), model=repr(want[k]),
                                 spec_violated=False, site="GalliaBaseModel.__init_subclass__ / model_fields")
    ctx.kind("metadata:declared-vs-live", )
    ctx.dist["metadata:declared-vs-live"] = n
    ctx.exhaustive_parts.append(f"declared (AST) vs live field metadata for all {n} gallia Field() option/command pairs")
    if lost:
        ann = [o for o in lost if o.decl["annotated_top"]]
        other = [o for o in lost if not o.decl["annotated_top"]]
        if ann:
            o = ann[0]
            ctx.disagree(KEY_META,
                         f"{len(ann)} option/command pairs declared with an Annotated[...] type (e.g. {o.ident}) are plain FieldInfo in "
                         "model_fields: not looked up in gallia.toml / GALLIA_*, metavar / short / const / group lost",
                         {"cmd": list(o.cmd), "opt": o.name, "count": len(ann), "examples": sorted({x.ident for x in ann})[:12]},
                         impl="FieldInfo", model="ConfigArgFieldInfo", spec_violated=True, site="GalliaBaseModel (pydantic >= 2.12 field collection)")
        for o in other[:5]:
            ctx.disagree(f"field-metadata-lost:{decl_class(o)}.{o.name}", f"{o.ident}: live field info is not a ConfigArgFieldInfo",
                         {"cmd": list(o.cmd), "opt": o.name}, impl="FieldInfo", model="ConfigArgFieldInfo", spec_violated=True,
                         site="GalliaBaseModel")


# ------------------------------------------------------------------------------------------------------------------
# B. template: keys listed = keys really looked up
# ------------------------------------------------------------------------------------------------------------------

def template_keys():
    from gallia.cli.gallia import template

    out = io.StringIO()
    with contextlib.redirect_stdout(out):
        template()
    text = out.getvalue()
    keys = {}
    sec = ""
    for line in text.splitlines():
        if m := re.match(r"^\[([^\]]+)\]\s*$", line):
            sec = m.group(1)
        elif m := re.match(r"^# (\w+) = \.\.\.$", line):
            keys[(sec + "." if sec else "") + m.group(1)] = None
        elif m := re.match(r"^(\w+) = (.*)$", line):
            keys[(sec + "." if sec else "") + m.group(1)] = m.group(2)
    return text, keys


def check_template(ctx, plans):
    from gallia.config import Config

    class Rec(Config):
        def __init__(self):
            super().__init__()
            self.asked = []

        def get_value(self, key, default=None):
            self.asked.append(key)
            return None

    text, tkeys = template_keys()
    looked: dict[str, set] = {}
    for plan in plans:
        rec = Rec()
        plan.cmd.CONFIG_TYPE.attributes_from_config(rec)
        hidden = {o.name for o in plan.opts if o.hidden}
        for k in rec.asked:
            if k.rpartition(".")[2] in hidden:
                continue
            looked.setdefault(k, set()).add(" ".join(plan.path))
        ctx.ev()
        # the model's view: expected keys of this command
        want = {o.key for o in plan.visible if o.key}
        got = {k for k in rec.asked if k.rpartition(".")[2] not in hidden}
        for k in sorted(got - want):
            sec, _, name = k.rpartition(".")
            o = plan.by_name.get(name)
            key = f"file-key-under-undeclared-section:{sec}"
            ctx.disagree(key, f"{' '.join(plan.path)}: gallia.toml key {k!r} is looked up but the declaration gives the option no config section",
                         {"cmd": list(plan.path), "opt": name, "key": k}, impl=k, model=None,
                         spec_violated=k not in tkeys, site="GalliaBaseModel.attributes_from_config")
        for k in sorted(want - got):
            name = k.rpartition(".")[2]
            o = plan.by_name[name]
            if metadata_lost(o):
                continue  # reported once under KEY_META
            ctx.disagree(f"file-key-not-looked-up:{decl_class(o)}.{name}", f"{' '.join(plan.path)}: declared key {k!r} is never looked up",
                         {"cmd": list(plan.path), "opt": name, "key": k}, impl=None, model=k, spec_violated=True,
                         site="GalliaBaseModel.attributes_from_config")
    ctx.dist["template:keys-looked-up"] = len(looked)
    ctx.dist["template:keys-listed"] = len(tkeys)
    for k in sorted(set(looked) - set(tkeys)):
        ctx.disagree(f"template-misses-key:{k}", f"--template does not list {k!r}, which {sorted(looked[k])[0]} reads from gallia.toml",
                     {"key": k, "commands": sorted(looked[k])[:5]}, impl=sorted(tkeys)[:40], model=k, spec_violated=True, site="cli.gallia.template")
    declared_keys = {o.key for plan in plans for o in plan.visible if o.key}
    for k in sorted(set(tkeys) - declared_keys):
        ctx.disagree(f"template-lists-unknown-key:{k}", f"--template lists {k!r}, which no command's option is declared under",
                     {"key": k}, impl=k, model=None, spec_violated=True, site="cli.gallia.template")
    for k in sorted(set(tkeys) - set(looked)):
        if k in declared_keys and any(metadata_lost(o) for plan in plans for o in plan.visible if o.key == k):
            continue
        ctx.disagree(f"template-key-never-read:{k}", f"--template lists {k!r} but no command looks that key up",
                     {"key": k}, impl=None, model=k, spec_violated=True, site="cli.gallia.template")
    # the template itself, un-commented, must be a gallia.toml the loader accepts, with the programmatic defaults
    try:
        parsed = tomllib.loads(text)
        from gallia.config import Config as C

        c = C(parsed)
        for k, rhs in tkeys.items():
            if rhs is None:
                continue
            v = c.get_value(k)
            dv = next((o.default for plan in plans for o in plan.visible if o.key == k), None)
            ctx.ev()
            if v is None:
                ctx.disagree(f"template-value-unreadable:{k}", f"template line for {k!r} is not read back by Config.get_value",
                             {"key": k, "rhs": rhs}, impl=None, model=rhs, spec_violated=True, site="cli.gallia.template")
    except tomllib.TOMLDecodeError as e:
        ctx.disagree("template-not-toml", f"--template output is not valid TOML: {e}", {"text": text[:400]}, impl=str(e), model="valid TOML",
                     spec_violated=True, site="cli.gallia.template")
    ctx.exhaustive_parts.append(f"--template keys ({len(tkeys)}) vs keys looked up by attributes_from_config over all {len(plans)} commands "
                                f"({len(looked)}) vs declared keys ({len(declared_keys)})")
    ctx.traces_validated += len(plans)


# ------------------------------------------------------------------------------------------------------------------
# C. stage 1 alone, all options of a command at once: environment over file in `extra_defaults`
# ------------------------------------------------------------------------------------------------------------------

def check_extra_defaults(ctx, plans, rng):
    from gallia.cli.gallia import _create_parser_from_command
    from gallia.config import load_config_file

    st = _worker_state()
    rounds = ctx.pick(4, 16)
    lines, meta = [], []
    for plan in plans:
        conf = [o for o in plan.visible if o.env or o.key]
        for r in range(rounds):
            fv, env, want = {}, {}, {}
            for i, o in enumerate(conf):
                # every option walks through all four (env, file) combinations over the rounds, jointly with the others
                c = (i + r) % 4
                e = V.valid(o.kind, "env", rng, plan.hi, plan.uri_pool) if (c & 1 and o.env) else None
                f = V.valid(o.kind, "file", rng, plan.hi, plan.uri_pool) if (c & 2 and o.key) else None
                if e is not None:
                    env[o.env] = e[1]
                if f is not None:
                    fv[o.key] = f[1]
                want[o.name] = (e, f)
            st["sb"].set(fv, env)
            config, _ = load_config_file()
            _, xd, _ = _create_parser_from_command(plan.cmd, config, {})
            (got,) = xd.values()
            got = {k: v for k, v in got.items() if k in plan.by_name and not plan.by_name[k].hidden}
            for o in conf:
                e, f = want[o.name]
                lines.append(f"xd {e[0] if e else '-'} {f[0] if f else '-'}")
                meta.append((plan, o, e, f, got.get(o.name)))
            extra = set(got) - {o.name for o in conf}
            for name in sorted(extra):
                ctx.disagree(f"extra-default-unexpected:{name}", f"{' '.join(plan.path)}: extra default for {name} although nothing was provided for it",
                             {"cmd": list(plan.path), "opt": name}, impl=repr(got[name]), model=None, spec_violated=True,
                             site="cli.gallia._create_parser_from_command")
    out = ctx.lean(lines)
    for (plan, o, e, f, got), mo in zip(meta, out):
        ctx.ev()
        ctx.kind("stage1:" + ("env" if e else "") + ("+" if e and f else "") + ("file" if f else "") or "stage1:none")
        if e or f:
            ctx.nontrivial(("xd", plan.path, o.name, bool(e), bool(f), json.dumps((e or f)[1], default=str)))
        if got is None:
            impl = "none"
        elif got[0].startswith("environment variable"):
            impl = "env"
        elif got[0].startswith("config file"):
            impl = "file"
        else:
            impl = "?" + got[0]
        ok = impl == mo
        if ok and got is not None:
            want_val = (e if mo == "env" else f)[1]
            want_desc = f"environment variable ({o.env})" if mo == "env" else f"config file ({o.key.rpartition('.')[0]}:{o.name})"
            ok = got[1] == want_val and got[0] == want_desc
        if not ok:
            if metadata_lost(o):
                key = KEY_META
            else:
                key = f"stage1:{decl_class(o)}.{o.name}:env{int(bool(e))}-file{int(bool(f))}:got={impl}"
            ctx.disagree(key, f"{o.ident}: extra default with env={'set' if e else 'unset'} file={'set' if f else 'unset'} is {got!r}, expected provider {mo}",
                         {"cmd": list(plan.path), "opt": o.name, "env": {o.env: e[1]} if e else {}, "file": {o.key: f[1]} if f else {}},
                         impl=repr(got), model=mo, spec_violated=True, site="cli.gallia._create_parser_from_command")
    ctx.exhaustive_parts.append(f"stage 1 (extra defaults): every configurable option of every command x all 4 (env, file) combinations, "
                                f"all options of a command varied jointly, {rounds} rounds")
    ctx.traces_validated += len(plans) * rounds


# ------------------------------------------------------------------------------------------------------------------
# options no provider can give a valid value (container typed dict on the command line)
# ------------------------------------------------------------------------------------------------------------------

def check_unprovidable(ctx, plans):
    from gallia.cli.gallia import create_parser

    st = _worker_state()
    st["sb"].set({}, {})
    for plan in plans:
        for o in plan.visible:
            if o.kind.name == "dict" and o.required:
                parser = create_parser(plan.cmd)
                tries = [[], ["a=1"], ['{"a": 1}'], ["a", "1"]]
                res = [L.real_parse(parser, plan.argv_for(o.name, [opt_flag(o)] + t, True) + (["--ecu", "e"] if "ecu" in plan.by_name else [])) for t in tries]
                ctx.ev(len(tries))
                if all(r[0] != "ok" for r in res):
                    plan.unusable = o.name
                    ctx.disagree(f"cli-cannot-provide:{' '.join(plan.path)}:{o.name}",
                                 f"{o.ident} is required but no command-line form of it validates (nargs=* list into a dict field): the command cannot be started",
                                 {"cmd": list(plan.path), "opt": o.name, "tried": tries}, impl=[r[2][:80] if r[0] == "exit" else r[0] for r in res],
                                 model="some value accepted", spec_violated=True, site="pydantic_argparse.parsers.container")


# ------------------------------------------------------------------------------------------------------------------
# D/E/F. the provider matrix, one option varied over a valid base line
# ------------------------------------------------------------------------------------------------------------------

def combos_for(o: L.Opt):
    srcs = sources_of(o)
    n = len(srcs)
    for mask in range(1 << n):
        yield {srcs[i]: "valid" for i in range(n) if mask >> i & 1}


def invalid_combos_for(o: L.Opt):
    """the winner is invalid (must be refused, naming it); a loser is invalid (not noticed); a lower provider holds
    the very text the command line gives (the message then names that provider)"""
    srcs = sources_of(o)
    for i, s in enumerate(srcs):
        lower = srcs[i + 1:]
        yield {s: "invalid"}
        for lo in lower:
            yield {s: "invalid", lo: "valid"}      # must not fall through to the valid lower provider
            yield {s: "valid", lo: "invalid"}      # the invalid lower value never reaches a validator
            if s == "cli":
                yield {s: "invalid", lo: "same"}
    if len(srcs) == 3:
        yield {"cli": "invalid", "env": "valid", "file": "same"}    # the environment value hides the equal file value
        yield {"cli": "invalid", "env": "same", "file": "same"}


def check_matrix(ctx, plans, rng):
    cases = []
    draws = ctx.pick(1, 6)
    frac_invalid = 1.0
    skipped_kinds = Counter()
    for plan in plans:
        if plan.unusable:
            ctx.notes.setdefault("commands_without_base_line", []).append(" ".join(plan.path))
            continue
        for o in plan.visible:
            if o.kind.name == UNMODELLED:
                skipped_kinds[o.kind.label()] += 1
                if o.name not in plan.base:
                    c = make_case(plan, o, {}, rng)
                    if c:
                        c["mode"] = "valid"
                        cases.append(c)
                continue
            for _ in range(draws):
                for combo in combos_for(o):
                    c = make_case(plan, o, combo, rng)
                    if c is None or not c["distinct"]:
                        continue
                    c["mode"] = "valid"
                    cases.append(c)
            if o.const is not L.NOCONST:
                for extra in ({}, {"env": "valid"}, {"file": "valid"}):
                    if all(s in sources_of(o) for s in extra):
                        c = make_case(plan, o, {"cli": "flag", **extra}, rng)
                        if c:
                            c["mode"] = "valid"
                            cases.append(c)
            if True:
                for combo in invalid_combos_for(o):
                    if rng.random() > frac_invalid:
                        continue
                    c = make_case(plan, o, combo, rng)
                    if c is None or not c["distinct"]:
                        continue
                    c["mode"] = "invalid"
                    cases.append(c)
    ctx.notes["kinds_not_modelled"] = dict(skipped_kinds)
    if ctx.quick and not ctx.widened:
        # quick tier: every (option, combination) cell of one command in four plus a seeded sample of the rest
        budget = 5000
        if len(cases) > budget:
            keep_cmds = {tuple(p.path) for i, p in enumerate(plans) if (i + ctx.seed) % 4 == 0} | {SYNTH}
            first = [c for c in cases if tuple(c["cmd"]) in keep_cmds]
            rest = [c for c in cases if tuple(c["cmd"]) not in keep_cmds]
            rng.shuffle(rest)
            cases = first + rest[: max(0, budget - len(first))]
            ctx.notes["quick_sampled"] = {"exhaustive_commands": sorted(" ".join(k) for k in keep_cmds), "cases": len(cases)}
    judge(ctx, plans, cases, run_real(ctx, cases), "single")
    n_cells = len({(tuple(c["cmd"]), c["opt"], c["combo"]) for c in cases})
    ctx.exhaustive_parts.append(
        f"provider matrix: {n_cells} distinct (command, option, provider combination) cells" +
        ("" if ctx.quick and not ctx.widened else " = every command x every visible option x every combination of its providers (valid), "
         "plus the invalid-winner / invalid-loser combinations and bare const flags") + f", {len(cases)} cases; includes a synthetic "
        "command (harness/c18_synth.py) with a required and a defaulted option of every modelled kind, so that all 16 combinations "
        "of {CLI, env, file, default} are reached for every kind")


def _nest(key: str, v) -> dict:
    parts = key.split(".")
    d = v
    for p in reversed(parts):
        d = {p: d}
    return d


def layered_line(case, o: L.Opt) -> str | None:
    """the same case through `resolveOption`: environment by name, gallia.toml as a document, key from (section, name)"""
    if o.kind.name in ("opaque", UNMODELLED) or not (o.decl and o.decl["gallia_field"]):
        return None
    if case.get("env") and not case["env"][0].startswith("s:"):
        return None
    sec = o.decl["section"]
    doc = _nest(case["key"], case["file"][1]) if case.get("file") else {}
    g = lambda s: case[s][0] if case.get(s) else "-"  # noqa: E731
    return (f"opt {case['field']} {'-' if sec is None else 'S:' + L.thex(sec)} {L.thex(o.name)} 1 {g('cli')} {g('env')} "
            f"{L.tree_tok(doc)} {case['dflt'] or '-'}")


def judge(ctx, plans, cases, reals, label):
    by_path = {p.path: p for p in plans}
    out = ctx.lean([model_line(c) for c in cases])
    # one option through all layers of the model (names, document lookup, resolution) must say the same
    lay = [(i, layered_line(c, by_path[tuple(c["cmd"])].by_name[c["opt"]])) for i, c in enumerate(cases)]
    lay = [(i, l) for i, l in lay if l is not None]
    for (i, line), lo in zip(lay, ctx.lean([l for _, l in lay])):
        ctx.ev()
        if lo != " ".join(out[i].split()[:3]):
            c = cases[i]
            ctx.disagree(f"layers:{c['kind']}:{c['combo']}", f"{' '.join(c['cmd'])}:{c['opt']}: resolveOption says {lo}, effective on the same providers {out[i]}",
                         _replay(c), impl=out[i], model=lo, spec_violated=False, site="Model/Config.lean resolveOption")
    rt_lines, rt_meta = [], []
    for case, real, mo in zip(cases, reals, out):
        plan = by_path[tuple(case["cmd"])]
        o = plan.by_name[case["opt"]]
        ctx.ev()
        ctx.kind(f"{label}:{case['kind']}", f"{label}:combo:{case['combo']}")
        if case["combo"] != "none" or case["dflt"] is None:
            ctx.nontrivial((label, tuple(case["cmd"]), case["opt"], case["combo"], json.dumps([case["cli"], case["env"], case["file"]], default=str)))
        ctx.traces_validated += 1
        m = mo.split()
        # --- canonical outcome of the implementation
        if real["r"] == "ok":
            impl = ["ok", real["val"]]
        elif real["r"] == "exit":
            named = [e for e in real["errs"]]
            if len(named) == 1 and named[0][0] == "missing":
                impl = ["missing", named[0][1]]
            elif named:
                impl = ["rej"] + [e[0] for e in named]
            else:
                impl = ["exit", real["text"][-120:]]
        else:
            impl = ["raise", real["exc"]]
        # --- compare
        good = False
        if o.kind.name == UNMODELLED:
            good = impl[0] == "ok" and (m[0] != "ok" or True)
            mo_show = "ok (kind not modelled: presence only)"
        elif m[0] == "ok":
            good = impl[0] == "ok" and impl[1] == m[2]
            mo_show = mo
        elif m[0] == "rej":
            # every line of the message against the model's list (one line per failing element)
            good = impl[0] == "rej" and impl[1:] == m[3].split(",") and m[3].split(",")[0] == m[1] and _names_option(real, o)
            mo_show = mo
        elif m[0] == "missing":
            good = impl[0] == "missing" and (opt_flag(o) in impl[1].replace(",", " ").replace("/", " ").split() or o.positional)
            mo_show = mo
        else:
            mo_show = mo
        if len(ctx.samples) < 10 and case["combo"].count(":") >= 2 and real["r"] == "ok":
            ctx.sample({"cmd": " ".join(case["cmd"]), "opt": case["opt"], "argv": case["argv"], "env": {case["env_name"]: case["env"][1]} if case["env"] else {},
                        "file": {case["key"]: case["file"][1]} if case["file"] else {}, "impl": impl, "model": mo})
        if not good:
            report(ctx, plan, o, case, real, impl, m, mo_show, label)
        # --- stored configuration
        if real["r"] == "ok":
            if "reload_exc" in real:
                ctx.disagree(f"reload-raises:{' '.join(case['cmd'])}", f"{' '.join(case['cmd'])}: CONFIG_TYPE(**json.loads(cfg.model_dump_json())) raises {real['reload_exc']}",
                             _replay(case), impl=real["reload_exc"], model="equal configuration", spec_violated=True, site="Rerunner.main / BaseCommand.__init__")
            else:
                if not real.get("meta_equal", True) or "meta_exc" in real:
                    ctx.disagree(f"meta-config-differs:{' '.join(case['cmd'])}", f"{' '.join(case['cmd'])}: RunMeta.config differs from the configuration dump "
                                 f"{real.get('meta_exc', '')}", _replay(case), impl=real.get("meta_exc"), model="same JSON", spec_violated=True, site="BaseCommand.__init__")
                if not real["dump_equal"] or real["field_diffs"]:
                    d = real["field_diffs"][0] if real["field_diffs"] else ["<dump>", "", ""]
                    dn = d[0]
                    od = plan.by_name.get(dn)
                    ctx.disagree(f"reload-differs:{decl_class(od) if od else '?'}.{dn}:{od.kind.label() if od else '?'}",
                                 f"{' '.join(case['cmd'])}: stored config re-creates {dn}={d[2]} instead of {d[1]}",
                                 _replay(case), impl=real["field_diffs"][:5], model="equal configuration", spec_violated=True,
                                 site="Rerunner.main / BaseCommand.__init__")
                # tie of the model's dump / load for the varied field
                if o.kind.name != UNMODELLED and good and m[0] == "ok" and m[1] != "default":  # defaults are not validated
                    rt_lines.append(f"rt {case['field'].replace('/pos', '')} {m[2]}")
                    rt_meta.append((case, o, real["stored"].get(case["opt"]), real["vals"].get(case["opt"])))
    if rt_lines:
        for (case, o, stored, val), line in zip(rt_meta, ctx.lean(rt_lines)):
            j, status, *rest = line.split()
            ctx.ev()
            ctx.kind(f"reload:{o.kind.label()}")
            if o.kind.sub == "float" and stored is not None and stored.startswith("s:"):
                pass
            if j != stored or status != "ok" or rest[0] != val:
                ctx.disagree(f"dump-load-model:{o.kind.label()}", f"{o.ident}: stored form {stored} / reloaded {val} differ from the model's dump {j} / load {status} {rest}",
                             _replay(case), impl=[stored, val], model=line, spec_violated=False, site="command/config.py serialisers")


def _names_option(real, o: L.Opt) -> bool:
    for src, named, detail in real["errs"]:
        if src == "cli":
            return opt_flag(o) in named.replace(",", " ").split() or named == o.name
        if src in ("env", "file"):
            if named != o.name:
                return False
            return detail == o.env if src == "env" else detail == f"{o.key.rpartition('.')[0]}:{o.name}"
    return False


def _replay(case):
    return {"cmd": case["cmd"], "opt": case["opt"], "argv": case["argv"], "env": {case["env_name"]: case["env"][1]} if case.get("env") else {},
            "gallia.toml": L.toml_text({case["key"]: case["file"][1]}) if case.get("file") else "", "combo": case["combo"], "field": case["field"],
            "raw": {s: case[s][0] for s in SRC_ORDER if case.get(s)}, "dflt": case["dflt"]}


def report(ctx, plan, o, case, real, impl, m, mo_show, label):
    combo = case["combo"]
    if metadata_lost(o) and ("env" in combo or "file" in combo or o.const is not L.NOCONST or o.positional or o.short):
        ctx.disagree(KEY_META, f"{o.ident}: {combo}: implementation {impl}, expected {mo_show}", _replay(case), impl=impl, model=mo_show,
                     spec_violated=True, site="GalliaBaseModel (pydantic >= 2.12 field collection)")
        return
    # collateral of the same defect: the parse fails on *another* option of the command that lost its metadata
    # (e.g. a positional that turned into a required --option)
    if real["r"] == "exit":
        named = {w.lstrip("-").replace("-", "_") for e in real["errs"] for w in e[1].replace(",", " ").split()}
        culprit = next((x for x in plan.visible if x.name in named and x.name != o.name and metadata_lost(x)), None)
        if culprit is not None:
            ctx.disagree(KEY_META, f"{culprit.ident}: declared metadata lost; every run of the command fails: {impl}", _replay(case), impl=impl,
                         model=mo_show, spec_violated=True, site="GalliaBaseModel (pydantic >= 2.12 field collection)")
            return
    # the run fails on *another* option of the base line (a value from the valid pools is refused there): one finding
    # for that option, not one per option that happens to be varied next to it
    if real["r"] == "exit":
        for src, named_opt, _ in real["errs"]:
            words = named_opt.replace(",", " ").split()
            other = next((x for x in plan.visible if x.name != o.name and (opt_flag(x) in words or x.name in words)), None)
            if other is not None and src != "missing":
                given = plan.base.get(other.name)
                ctx.disagree(f"base-line-refused:{decl_class(other)}.{other.name}:{other.kind.label()}:naming-{src}",
                             f"{other.ident}: the value {given} (valid for {other.kind.label()}) is refused: {real.get('text', '')[-160:].strip()}",
                             _replay(case), impl=impl + [real.get("text", "")[-200:]], model=f"{other.name} accepted", spec_violated=True,
                             site="cli.gallia.create_parser / pydantic_argparse")
                return
    # which provider's value did the implementation end up with?
    got = "?"
    violated = True
    if impl[0] == "ok":
        alts = {}
        for s in SRC_ORDER:
            if case.get(s):
                only = {"cli": "-", "env": "-", "file": "-", s: case[s][0]}
                r = ctx.lean([f"eff {case['field']} {only['cli']} {only['env']} {only['file']} -"])[0].split()
                if r[0] == "ok":
                    alts[s] = r[2]
        if case["dflt"] is not None:
            alts["default"] = case["dflt"]
        got = next((s for s, v in alts.items() if v == impl[1]), "other-value")
        if m[0] == "ok" and (got == "other-value" or got == m[1]):
            violated = False  # right provider (or none of them): the value codec differs -> tie, not the property
        # m[0] == "rej": a value the validators must refuse was accepted (as whatever) -> "ignored instead of rejected"
    elif impl[0] == "rej":
        # a value from the valid pools (the property's quantifier) that the parser refuses is a failing input as well
        got = "rejected-naming-" + "+".join(impl[1:])
    elif impl[0] == "missing":
        got = "missing"
    elif impl[0] == "raise":
        got = "raises-" + impl[1]
    else:
        got = "exit-unnamed"
    kind = "precedence" if case["mode"] == "valid" else "invalid-value"
    key = f"{kind}:{label}:{decl_class(o)}.{o.name}:{o.kind.label()}:{combo}:got={got}"
    ctx.disagree(key, f"{o.ident} [{combo}]: implementation {impl}, model {mo_show}", _replay(case), impl=impl + [real.get("text", "")[-200:]],
                 model=mo_show, spec_violated=violated, site="cli.gallia.create_parser / pydantic_argparse")


# ------------------------------------------------------------------------------------------------------------------
# G. the same through the whole command tree (what `gallia` itself builds)
# ------------------------------------------------------------------------------------------------------------------

def check_tree(ctx, plans, rng):
    from gallia.cli.gallia import create_parser
    from gallia.plugins.plugin import load_commands

    tree = load_commands()
    n = ctx.pick(60, 600)
    cases = []
    usable = [p for p in plans if not p.unusable and p.path != SYNTH]
    for _ in range(n):
        plan = rng.choice(usable)
        o = rng.choice([o for o in plan.visible if o.kind.name != UNMODELLED and not o.positional])
        combos = list(combos_for(o)) + list(invalid_combos_for(o))
        c = make_case(plan, o, rng.choice(combos[1:] or combos), rng)
        if c is None or not c["distinct"]:
            continue
        c["mode"] = "invalid" if "invalid" in c["combo"] else "valid"
        cases.append(c)
    reals = [real_case(c, tree_parser_builder=lambda: create_parser(tree)) for c in cases]
    judge(ctx, plans, cases, reals, "tree")
    ctx.exhaustive_parts.append(f"whole-tree parser (create_parser(load_commands())): {len(cases)} seeded cases")


# ------------------------------------------------------------------------------------------------------------------
# H. text codecs on all short strings: pydantic's lax int, int(x, 16)
# ------------------------------------------------------------------------------------------------------------------

def _adapter(plans, path, name):
    from typing import Annotated

    from pydantic import TypeAdapter

    plan = next(p for p in plans if p.path == path)
    info = plan.cmd.CONFIG_TYPE.model_fields[name]
    return TypeAdapter(Annotated[info.annotation, *info.metadata] if info.metadata else info.annotation)


def check_codecs(ctx, plans):
    import itertools

    n = ctx.pick(4, 5)
    jobs = [("lax", ("scan", "uds", "sessions"), "max_retries", "019_+-. x\te", "int"),
            ("hexint", ("primitive", "uds", "dtc", "read"), "mask", "01aF_xX+- g", "hexInt")]
    for op, path, name, alpha, kname in jobs:
        try:
            ta = _adapter(plans, path, name)
        except StopIteration:
            ctx.disagree(f"codec-anchor:{' '.join(path)}:{name}", f"{' '.join(path)} --{name} is gone", {}, spec_violated=False)
            continue
        texts = ["".join(t) for k in range(n + 1) for t in itertools.product(alpha, repeat=k)]
        out = ctx.lean([f"{op} {L.thex(t) or '-'}" for t in texts])
        bad = 0
        for t, mo in zip(texts, out):
            try:
                v = ta.validate_python(t)
                impl = str(v)
            except Exception:  # noqa: BLE001
                impl = "none"
            ctx.ev()
            if impl != "none":
                ctx.nontrivial((op, t))
            if impl != mo:
                bad += 1
                if bad <= 3:
                    # shortest disagreeing text first (the enumeration is by length)
                    ctx.disagree(f"codec:{kname}:{t!r}", f"{kname} field given the text {t!r}: implementation {impl}, model {mo}",
                                 {"kind": kname, "text": t, "option": " ".join(path) + ":" + name}, impl=impl, model=mo,
                                 spec_violated=(impl != "none" and mo != "none"), site="command/config.py / pydantic lax int")
        ctx.kind(f"codec:{kname}")
        ctx.dist[f"codec:{kname}"] = len(texts)
        ctx.exhaustive_parts.append(f"{kname} text codec: all {len(texts)} strings of length <= {n} over {alpha!r} through the validator of "
                                    f"{' '.join(path)} --{name}")


# ------------------------------------------------------------------------------------------------------------------
# I. names: GALLIA_<NAME> and <section>.<name> as the code really looks them up
# ------------------------------------------------------------------------------------------------------------------

def check_keys(ctx, plans):
    from unittest import mock

    from gallia.config import Config

    class Rec(Config):
        def __init__(self):
            super().__init__()
            self.asked = []

        def get_value(self, key, default=None):
            self.asked.append(key)
            return None

    lines, meta = [], []
    for plan in plans:
        rec = Rec()
        plan.cmd.CONFIG_TYPE.attributes_from_config(rec)
        asked_env = []
        with mock.patch("os.getenv", side_effect=lambda k, d=None: asked_env.append(k)):
            plan.cmd.CONFIG_TYPE.attributes_from_env()
        for o in plan.opts:
            if o.hidden or not (o.decl and o.decl["gallia_field"]):
                continue
            sec = o.decl["section"]
            lines.append(f"key {'-' if sec is None else 'S:' + L.thex(sec)} {L.thex(o.name)}")
            meta.append((plan, o, set(rec.asked), set(asked_env)))
    for (plan, o, asked, asked_env), mo in zip(meta, ctx.lean(lines)):
        k, e = mo.split()
        mkey = None if k == "-" else bytes.fromhex(k).decode()
        menv = bytes.fromhex(e).decode()
        ctx.ev()
        real_key = next((a for a in asked if a.rpartition(".")[2] == o.name), None)
        real_env = next((a for a in asked_env if a == f"GALLIA_{o.name.upper()}"), None)
        if mkey != real_key:
            ctx.disagree(f"file-key:{decl_class(o)}.{o.name}", f"{o.ident}: gallia.toml key looked up is {real_key!r}, the declared section gives {mkey!r}",
                         {"cmd": list(plan.path), "opt": o.name, "section": o.decl["section"]}, impl=real_key, model=mkey,
                         spec_violated=True, site="GalliaBaseModel.attributes_from_config")
        if menv != real_env and not metadata_lost(o):
            ctx.disagree(f"env-name:{decl_class(o)}.{o.name}", f"{o.ident}: environment variable looked up is {real_env!r}, expected {menv!r}",
                         {"cmd": list(plan.path), "opt": o.name}, impl=real_env, model=menv, spec_violated=True,
                         site="GalliaBaseModel.attributes_from_env")
    ctx.dist["names:key+env"] = len(lines)
    ctx.exhaustive_parts.append(f"names: configKey(section, name) and GALLIA_<NAME> of all {len(lines)} configurable option/command pairs vs the "
                                "keys / variables the code asks for")


# ------------------------------------------------------------------------------------------------------------------
# J. Config.get_value on generated documents
# ------------------------------------------------------------------------------------------------------------------

_GV_KEYS = ["a", "b", "gallia", "scanner", "x.y", ""]
_GV_LEAVES = [0, False, "", 1, -7, True, "s", 1.5, [1, "a"], [], ["x"], {}]


def _gen_doc(rng, depth=0):
    d = {}
    for k in rng.sample(_GV_KEYS, rng.randrange(0, 5)):
        if depth < 3 and rng.random() < 0.45:
            d[k] = _gen_doc(rng, depth + 1)
        else:
            d[k] = rng.choice(_GV_LEAVES)
    return d


def _paths(d, pre=()):
    for k, v in d.items():
        yield pre + (k,)
        if isinstance(v, dict):
            yield from _paths(v, pre + (k,))


def check_getvalue(ctx, rng):
    from gallia.config import Config

    lines, meta = [], []
    for _ in range(ctx.pick(250, 2500)):
        doc = _gen_doc(rng)
        keys = set()
        ps = list(_paths(doc))
        for p in rng.sample(ps, min(len(ps), 4)):
            keys.add(".".join(p))                              # an existing path (to a value or to a table)
            keys.add(".".join(p + (rng.choice(_GV_KEYS),)))      # one step further: through a value / to a missing entry
        keys.add(".".join(rng.choice(_GV_KEYS) for _ in range(rng.randrange(1, 4))))
        keys.add(rng.choice(["", ".", "a.", ".a", "a..b"]))
        for k in sorted(keys):
            lines.append(f"gv {L.tree_tok(doc)} {L.thex(k) or '-'}")
            meta.append((doc, k))
    n_bad = 0
    # smallest documents first: the first disagreement reported is a small one
    for (doc, k), mo in sorted(zip(meta, ctx.lean(lines)), key=lambda x: (len(L.tree_tok(x[0][0])) + len(x[0][1]), x[0][1])):
        try:
            v = Config(doc).get_value(k)
            impl = "none" if v is None else L.tree_tok(v)
        except Exception as e:  # noqa: BLE001
            v, impl = None, f"raises-{type(e).__name__}"
        ctx.ev()
        ctx.kind("get_value:" + ("absent" if v is None else "table" if isinstance(v, dict) else "falsy" if not v else "value"))
        if v is not None:
            ctx.nontrivial(("gv", L.tree_tok(doc), k))
        if impl != mo and n_bad < 5:
            n_bad += 1
            ctx.disagree(f"get-value:{'falsy' if (mo != 'none' and impl == 'none') else impl if impl.startswith('raises') else 'other'}:{k!r}",
                         f"Config.get_value({k!r}) on {doc!r}: implementation {impl if v is None else repr(v)}, model {mo}", {"doc": doc, "key": k},
                         impl=impl, model=mo, spec_violated=(mo != "none" and impl == "none") or impl.startswith("raises"),
                         site="config.Config.get_value")
    ctx.exhaustive_parts.append(f"Config.get_value: {len(lines)} (document, dotted key) pairs: existing paths, paths through values, to tables, "
                                "missing, empty parts; falsy values 0 / false / '' / [] / {} among the leaves")


# ------------------------------------------------------------------------------------------------------------------
# K. the template as a document
# ------------------------------------------------------------------------------------------------------------------

def check_template_doc(ctx, plans):
    from pydantic_core import PydanticUndefined

    from gallia.command.config import GalliaBaseModel
    from gallia.config import Config

    text, tkeys = template_keys()
    reg = GalliaBaseModel.registry()
    entries = []
    for k in reg:
        dv = reg[k][1]
        if dv is None or dv is PydanticUndefined:
            entries.append(f"{L.thex(k)}=-")
            continue
        try:
            shown = json.loads(json.dumps(dv))
        except TypeError:
            shown = str(dv)
        entries.append(f"{L.thex(k)}={L.tree_tok(shown)}")
    mo = ctx.lean(["tmpl " + ("|".join(entries) or "-")])[0]
    tree, pf = mo.split()
    ctx.ev()
    try:
        parsed = tomllib.loads(text)
    except tomllib.TOMLDecodeError:
        return  # reported by check_template
    model_doc = L.untree(tree)
    if pf != "pf:1":
        ctx.disagree("template-keys-not-prefix-free", "a registered key is a prefix of another one: the template cannot hold both",
                     {"keys": sorted(reg)}, impl=sorted(reg), model="prefix free", spec_violated=True, site="GalliaBaseModel.registry")
    if model_doc != parsed:
        diff = sorted(k for k in reg if Config(parsed).get_value(k) != Config(model_doc).get_value(k))
        ctx.disagree(f"template-doc:{diff[0] if diff else '?'}", f"--template parsed back differs from the template document of the registry at {diff[:5]}",
                     {"keys": diff[:10], "template": text[:600]}, impl=json.dumps(parsed, default=str)[:600], model=json.dumps(model_doc, default=str)[:600],
                     spec_violated=bool(diff), site="cli.gallia.template")
    # lookup of every listed key in the parsed template vs in the model's document
    lines = [f"gv {tree} {L.thex(k)}" for k in reg]
    for k, mo2 in zip(reg, ctx.lean(lines)):
        v = Config(parsed).get_value(k)
        impl = "none" if v is None else L.tree_tok(v)
        ctx.ev()
        dv = reg[k][1]
        want_some = dv is not None and dv is not PydanticUndefined
        if impl != mo2 or (want_some and impl == "none"):
            ctx.disagree(f"template-roundtrip:{k}", f"key {k!r} written by --template (default {dv!r}) reads back as {v!r}, model {mo2}",
                         {"key": k, "default": repr(dv)}, impl=impl, model=mo2, spec_violated=True, site="cli.gallia.template / Config.get_value")
    ctx.exhaustive_parts.append(f"--template output parsed back (tomllib) = template document of the registry ({len(reg)} keys), every key looked up in both")


# ------------------------------------------------------------------------------------------------------------------
# L. which gallia.toml is picked: real directory trees
# ------------------------------------------------------------------------------------------------------------------

def _fake_git(d):
    g = os.path.join(d, ".git")
    os.makedirs(os.path.join(g, "objects"), exist_ok=True)
    os.makedirs(os.path.join(g, "refs"), exist_ok=True)
    with open(os.path.join(g, "HEAD"), "w") as f:
        f.write("ref: refs/heads/main\n")


class DiscTree:
    """a real directory tree work/proj/sub (the working directory is `sub`), HOME, XDG and extra directories under one
    temp root; `run(world)` arranges .git directories / gallia.toml files / environment and asks the real search_config()"""

    def __init__(self):
        import tempfile

        self.root = os.path.realpath(tempfile.mkdtemp(prefix="c18d-", dir="/var/tmp"))
        self.saved_env = {k: os.environ.get(k) for k in ("HOME", "XDG_CONFIG_HOME", "GIT_CEILING_DIRECTORIES", "GALLIA_CONFIG", "GIT_DIR", "GIT_WORK_TREE")}
        self.saved_cwd = os.getcwd()
        root = self.root
        d2 = os.path.join(root, "work")
        d1 = os.path.join(d2, "proj")
        d0 = os.path.join(d1, "sub")
        self.chain = [d0, d1, d2]
        self.home, self.xdg = os.path.join(root, "home"), os.path.join(root, "xdg")
        self.extra = [os.path.join(root, "extra0"), os.path.join(root, "extra1")]
        self.envfile = os.path.join(root, "envcfg", "my.toml")
        for d in self.chain + [os.path.join(self.home, ".config", "gallia"), os.path.join(self.xdg, "gallia"), os.path.dirname(self.envfile)] + self.extra:
            os.makedirs(d, exist_ok=True)
        os.environ["HOME"] = self.home
        os.environ["GIT_CEILING_DIRECTORIES"] = root
        for k in ("GIT_DIR", "GIT_WORK_TREE"):
            os.environ.pop(k, None)
        os.chdir(d0)
        self.user_toml = {True: os.path.join(self.xdg, "gallia", "gallia.toml"), False: os.path.join(self.home, ".config", "gallia", "gallia.toml")}
        self.cur_git = None

    @staticmethod
    def _set(path, on):
        from pathlib import Path

        if on:
            Path(path).write_text("")
        elif os.path.exists(path):
            os.unlink(path)

    def run(self, world):
        import shutil
        from pathlib import Path

        from gallia import config as gc

        gits, tomls, xs, xt, ht, ev, ex = world
        gits, tomls = tuple(gits), tuple(tomls)
        if gits != self.cur_git:
            for d, g in zip(self.chain, gits):
                shutil.rmtree(os.path.join(d, ".git"), ignore_errors=True)
                if g:
                    _fake_git(d)
            self.cur_git = gits
        for d, t in zip(self.chain, tomls):
            self._set(os.path.join(d, "gallia.toml"), t)
        self._set(self.user_toml[True], xt)
        self._set(self.user_toml[False], ht)
        if xs:
            os.environ["XDG_CONFIG_HOME"] = self.xdg
        else:
            os.environ.pop("XDG_CONFIG_HOME", None)
        extras = []
        for i, c in enumerate("" if ex == "-" else ex):
            self._set(os.path.join(self.extra[i], "gallia.toml"), c == "1")
            extras.append(Path(self.extra[i]))
        self._set(self.envfile, False)
        if ev == "u":
            os.environ.pop("GALLIA_CONFIG", None)
        else:
            os.environ["GALLIA_CONFIG"] = self.envfile
            self._set(self.envfile, ev == "e")
        try:
            got = gc.search_config(extra_paths=extras or None)
            impl = "nothing" if got is None else "file " + str(got)
        except FileNotFoundError:
            impl = "notfound"
        return impl, [str(p) for p in gc.get_config_dirs()]

    @staticmethod
    def line(world) -> str:
        gits, tomls, xs, xt, ht, ev, ex = world
        return "disc " + ",".join(("g" if g else "-") + ("t" if t else "-") for g, t in zip(gits, tomls)) + f" {ev} {xs} {xt} {ht} {ex}"

    def place(self, tok, xs):
        if tok == "env":
            return self.envfile
        if tok.startswith("up:"):
            return os.path.join(self.chain[int(tok[3:])], "gallia.toml")
        if tok == "user":
            return self.user_toml[bool(xs)]
        return os.path.join(self.extra[int(tok[6:])], "gallia.toml")

    def model(self, mo, world):
        """driver output -> (result as the implementation would print it, directory list)"""
        parts = mo.split()
        cands = parts[-1].split(",")
        res = parts[0] if parts[0] != "file" else "file " + self.place(parts[1], world[2])
        return res, [os.path.dirname(self.place(c, world[2])) for c in cands if not c.startswith("extra")], parts

    def close(self):
        import shutil

        os.chdir(self.saved_cwd)
        for k, v in self.saved_env.items():
            if v is None:
                os.environ.pop(k, None)
            else:
                os.environ[k] = v
        shutil.rmtree(self.root, ignore_errors=True)


def check_discovery(ctx, rng):
    import itertools

    dt = DiscTree()
    root = dt.root
    try:
        # does the `git` of this machine take the fake .git directory for a repository? (no git at all, or one that refuses
        # the directory, says nothing about gallia: then only the worlds without a .git are run, and that is recorded)
        import subprocess

        _fake_git(dt.chain[2])
        try:
            probe = subprocess.run(["git", "rev-parse", "--show-toplevel"], capture_output=True, cwd=dt.chain[0]).stdout.decode().strip()
        except OSError:
            probe = ""
        git_ok = probe == dt.chain[2]
        import shutil as _sh

        _sh.rmtree(os.path.join(dt.chain[2], ".git"), ignore_errors=True)
        if not git_ok:
            ctx.assume("git is not available (or does not accept the fake .git directory) on this machine: config discovery is tied without git roots")
        worlds = list(itertools.product(itertools.product([0, 1], repeat=3), itertools.product([0, 1], repeat=3), [0, 1], [0, 1], [0, 1], "uem",
                                        ["-", "0", "1", "01", "10", "11"]))
        if ctx.quick and not ctx.widened:
            # every git placement x every gallia.toml placement with the user dirs / env / extra fixed, plus a seeded sample
            pick = [w for w in worlds if w[5] == "u" and w[6] == "-" and w[2:5] == (1, 1, 0)]
            rest = [w for w in worlds if w not in set(pick)]
            worlds = pick + rng.sample(rest, 90)
        if not git_ok:
            worlds = [w for w in worlds if not any(w[0])]
        worlds.sort(key=lambda w: w[0])
        lines, meta = [], []
        for w in worlds:
            impl, dirs = dt.run(w)
            lines.append(dt.line(w))
            meta.append((impl, dirs, w))

        def weight(item):
            (_, _, (gits, tomls, xs, xt, ht, ev, ex)), _ = item
            return (sum(gits) + sum(tomls) + xs + xt + ht + (ev != "u") + (0 if ex == "-" else len(ex) + ex.count("1")), gits, tomls, xs, xt, ht, ev, ex)

        n_bad = {True: 0, False: 0}
        # smallest worlds first: the first disagreement reported is a minimal one; a different file first, then a different
        # directory list that happens to find the same file
        for (impl, dirs, w), mo in sorted(zip(meta, ctx.lean(lines)), key=weight):
            res, mdirs, parts = dt.model(mo, w)
            ctx.ev()
            ctx.kind("discovery:" + (parts[1].split(":")[0] if parts[0] == "file" else parts[0]))
            ctx.nontrivial(("disc",) + tuple(map(str, w)))
            ctx.traces_validated += 1
            if (impl != res or dirs != mdirs) and n_bad[impl != res] < 3:
                n_bad[impl != res] += 1
                gits, tomls, xs, xt, ht, ev, ex = w
                ctx.disagree(f"discovery{'' if impl != res else '-dirs'}:git={''.join(map(str, gits))}:toml={''.join(map(str, tomls))}:xdg={xs}{xt}{ht}:env={ev}:extra={ex}",
                             f"search_config() with .git in {gits}, gallia.toml in {tomls} (cwd, parent, grandparent), XDG_CONFIG_HOME {'set' if xs else 'unset'} "
                             f"(xdg file {xt}, ~/.config file {ht}), GALLIA_CONFIG {ev}, extra {ex}: implementation {impl.replace(root, '')} dirs "
                             f"{[d.replace(root, '') for d in dirs]}, model {res.replace(root, '')} dirs {[d.replace(root, '') for d in mdirs]}",
                             {"discovery": [list(gits), list(tomls), xs, xt, ht, ev, ex]},
                             impl=[impl.replace(root, ""), [d.replace(root, "") for d in dirs]], model=[res.replace(root, ""), [d.replace(root, "") for d in mdirs]],
                             spec_violated=impl != res, site="config.search_config / get_config_dirs / get_git_root")
        ctx.exhaustive_parts.append(f"config file discovery on a real directory tree (cwd / parent / grandparent, fake .git directories, HOME, "
                                    f"XDG_CONFIG_HOME, GALLIA_CONFIG, extra_paths): {len(lines)} worlds" +
                                    ("" if ctx.quick and not ctx.widened else " = every combination"))
    finally:
        dt.close()


# ------------------------------------------------------------------------------------------------------------------
# M. the stored configuration through `gallia script rerun`'s own code (META.json and run_meta in the database)
# ------------------------------------------------------------------------------------------------------------------

def _rerun(cmd, cfg, tmp, tag):
    """-> {'file': cfg' | exception text, 'db': ...}: what Rerunner.main() hands to the command's entry point"""
    import asyncio
    from datetime import UTC, datetime
    from pathlib import Path
    from unittest import mock

    from gallia.commands.script.rerun import Rerunner, RerunnerConfig
    from gallia.db.handler import DBHandler

    target = cmd(cfg)
    meta_path = Path(tmp) / f"META-{tag}.json"
    meta_path.write_text(target.run_meta.json() + "\n")            # what entry_point() writes into the artifacts dir
    db_path = Path(tmp) / f"run-{tag}.db"
    seen = {}

    async def fake_entry_point(self):
        seen["cfg"] = self.config
        return 0

    async def go():
        out = {}
        h = DBHandler(db_path)
        await h.connect()
        await h.insert_run_meta(script=target.run_meta.command, config=cfg, start_time=datetime.now(UTC).astimezone(), path=None)
        rid = h.meta
        cur = await h.connection.execute("SELECT script, config FROM run_meta WHERE id = ?", (rid,))
        row = await cur.fetchone()
        out["stored_db"] = (row[0], json.loads(row[1]))
        await h.disconnect()
        m = json.loads(meta_path.read_text())
        out["stored_file"] = (m.get("command"), m.get("config"))
        for how in ("file", "db"):
            seen.clear()
            r = Rerunner(RerunnerConfig(file=meta_path) if how == "file" else RerunnerConfig(id=rid, db=db_path))
            try:
                if how == "db":
                    r.db_handler = DBHandler(db_path)
                    await r.db_handler.connect()
                with mock.patch.object(cmd, "entry_point", fake_entry_point):
                    try:
                        await r.main()
                        out[how] = "main() returned"
                    except SystemExit as e:
                        out[how] = seen.get("cfg", f"exit {e.code} before the entry point")
            except Exception as e:  # noqa: BLE001
                out[how] = f"{type(e).__name__}: {str(e)[:160]}"
            finally:
                if how == "db" and r.db_handler is not None:
                    await r.db_handler.disconnect()
        return out

    return asyncio.run(go())


def _cfg_equal(a, b):
    from gallia.transports import TargetURI

    if a.model_dump_json() != b.model_dump_json() or type(a) is not type(b) and not isinstance(b, type(a).__mro__[1]):
        pass
    diffs = []
    for name in type(a).model_fields:
        x, y = getattr(a, name), getattr(b, name, None)
        same = (x.raw == y.raw and type(x) is type(y)) if isinstance(x, TargetURI) and isinstance(y, TargetURI) else x == y
        if not same:
            diffs.append(name)
    if not diffs and a.model_dump_json() != b.model_dump_json():
        diffs.append("<dump>")
    return diffs


def check_rerun(ctx, plans, rng):
    import shutil
    import tempfile

    from gallia.cli.gallia import create_parser

    st = _worker_state()
    st["sb"].set({}, {})
    tmp = tempfile.mkdtemp(prefix="c18r-", dir="/var/tmp")
    rounds = ctx.pick(1, 4)
    lines, meta = [], []
    dump_lines, dump_meta = [], []
    try:
        jobs = []
        for plan in plans:
            if plan.unusable:
                continue
            parser = create_parser(plan.cmd)
            for r in range(rounds):
                # the base line plus a few more options given on the command line
                argv_extra, varied = [], []
                cand = [o for o in plan.visible if not o.positional and o.name not in plan.base and o.kind.name not in (UNMODELLED, "dict")
                        and not (XOR.get(plan.path) and o.name in XOR[plan.path][:2])]
                # first round: every container / enum / special-int option of the command (lists of services and sessions of the
                # vecu's randomness parameters, DDDI sources, ranges, ...) is given; later rounds: a random handful
                special = [o for o in cand if o.kind.name in LIST_KINDS + ("enum", "hexInt", "hexBytes", "autoInt")]
                for o in (special if r == 0 else rng.sample(cand, min(len(cand), rng.randrange(0, 5)))):
                    v = V.valid(o.kind, "cli", rng, plan.hi, plan.uri_pool)
                    if v is None or (_dashed(v[1]) and o.kind.name in LIST_KINDS):
                        continue
                    argv_extra += cli_args(o, v[1])
                    varied.append(o.name)
                res = L.real_parse(parser, plan.argv_for("", [], False) + argv_extra)
                if res[0] != "ok":
                    res = L.real_parse(parser, plan.argv_for("", [], False))     # cross-field validators: fall back to the base line
                    varied = []
                if res[0] == "ok":
                    jobs.append((plan, res[1], varied))
        # dict[str, Any] cannot come from the command line (known finding): a config built through the API
        dbv = next((p for p in plans if p.path == ("script", "vecu", "db")), None)
        if dbv is not None:
            try:
                jobs.append((dbv, dbv.cmd.CONFIG_TYPE(target="tcp://127.0.0.1:20162", path="/var/tmp/x.db", ecu="ecu0",
                                                      properties={"a": 1, "b": {"c": [1, 2], "d": None}, "e": "x", "f": [], "g": True}), ["properties"]))
                jobs.append((dbv, dbv.cmd.CONFIG_TYPE(target="tcp://127.0.0.1:20162", path="/var/tmp/x.db", ecu=None, properties=None), ["properties"]))
            except Exception as e:  # noqa: BLE001
                ctx.disagree("rerun-api-config:script vecu db", f"DbVirtualECUConfig cannot be built through the API: {e!r}", {}, spec_violated=False)
        for i, (plan, cfg, varied) in enumerate(jobs):
            got = _rerun(plan.cmd, cfg, tmp, str(i))
            ctx.ev(2)
            ctx.traces_validated += 2
            ctx.kind("rerun:" + " ".join(plan.path))
            ctx.nontrivial(("rerun", plan.path, cfg.model_dump_json()))
            full = json.loads(cfg.model_dump_json())
            case = {"cmd": list(plan.path), "config": full, "given": varied}
            want_cmd = f"{plan.cmd.__module__}.{plan.cmd.__name__}"
            for how in ("file", "db"):
                g = got[how]
                src = "META.json" if how == "file" else "run_meta in the database"
                # what is stored is the whole configuration (the model's `store`: every field under its name) and the command
                sc, sj = got["stored_" + how]
                if sc != want_cmd or not isinstance(sj, dict) or set(sj) != set(type(cfg).model_fields) or sj != full:
                    miss = sorted(set(type(cfg).model_fields) - set(sj or {}))
                    diff = sorted(k for k in (sj or {}) if k in full and sj[k] != full[k])
                    ctx.disagree(f"stored-config:{how}:{'command' if sc != want_cmd else 'lacks-fields' if miss else 'differs'}",
                                 f"{src} of `{' '.join(plan.path)}` does not hold the configuration of the run: command {sc!r}, fields missing "
                                 f"{miss[:6]}, fields stored differently {diff[:6]}", case, impl={"command": sc, "config": sj}, model=full,
                                 spec_violated=True, site="BaseCommand.__init__ / DBHandler.insert_run_meta")
                if isinstance(g, str):
                    ctx.disagree(f"rerun-raises:{how}:{' '.join(plan.path)}", f"gallia script rerun from {src} of `{' '.join(plan.path)}`: {g}", case,
                                 impl=g, model="equal configuration", spec_violated=True, site="Rerunner.main")
                    continue
                diffs = _cfg_equal(cfg, g)
                if diffs:
                    od = plan.by_name.get(diffs[0])
                    ctx.disagree(f"rerun-differs:{how}:{decl_class(od) if od else '?'}.{diffs[0]}",
                                 f"gallia script rerun from {src} of `{' '.join(plan.path)}` re-creates {diffs[0]} = "
                                 f"{getattr(g, diffs[0], None)!r} instead of {getattr(cfg, diffs[0], None)!r}", case, impl=diffs,
                                 model="equal configuration", spec_violated=True, site="Rerunner.main")
            # the model's store / reload over the whole configuration
            kinds = _kinds_of(plan.cmd)
            toks = []
            for name in type(cfg).model_fields:
                k = kinds[name]
                if k.name == UNMODELLED:
                    continue
                toks += [L.thex(name), k.lean(None, False), L.canon_val_kind(getattr(cfg, name), k)]
            lines.append("rs " + " ".join(toks))
            meta.append((plan, case))
            # ... and field by field: the model's dump is what the file / the database hold
            sj = got["stored_db"][1] if isinstance(got["stored_db"][1], dict) else {}
            for name in type(cfg).model_fields:
                k = kinds[name]
                if k.name != UNMODELLED and name in sj:
                    dump_lines.append(f"rt {k.lean(None, False)} {L.canon_val_kind(getattr(cfg, name), k)}")
                    dump_meta.append((plan, name, k, L.canon_json(sj[name], k), L.canon_val_kind(getattr(cfg, name), k), case))
        for (plan, name, k, stored, val, case), mo in zip(dump_meta, ctx.lean(dump_lines)):
            j, status, *rest = mo.split()
            ctx.ev()
            ctx.kind(f"stored:{k.label()}")
            if j != stored or status != "ok" or rest[0] != val:
                ctx.disagree(f"dump-load-model:{k.label()}", f"{' '.join(plan.path)}:{name}: run_meta holds {stored} for the value {val}; the model's dump {j} / load {status} {rest}",
                             dict(case, field=name), impl=[stored, val], model=mo, spec_violated=False, site="command/config.py serialisers")
        for (plan, case), mo in zip(meta, ctx.lean(lines)):
            ctx.ev()
            if mo != "ok":
                ctx.disagree(f"reload-model:{' '.join(plan.path)}:{mo}", f"model: reload (store cfg) of `{' '.join(plan.path)}` is {mo}", case, impl="equal",
                             model=mo, spec_violated=False, site="Model/Config.lean store / reload")
    finally:
        shutil.rmtree(tmp, ignore_errors=True)
    ctx.exhaustive_parts.append(f"stored configuration through Rerunner.main(): {len(meta)} accepted configurations of {len({m[0].path for m in meta})} commands, each "
                                "written as META.json (RunMeta.json) and into run_meta (DBHandler.insert_run_meta) and re-created from both; the "
                                "model's reload (store cfg) on the same configurations")


def replay(ctx, case):
    setup_repo_import()
    L.ready()
    c = case.get("case", {})
    print(json.dumps(c, indent=1, default=str))
    if "discovery" in c:
        dt = DiscTree()
        try:
            w = c["discovery"]
            impl, dirs = dt.run(w)
            res, mdirs, _ = dt.model(ctx.lean([dt.line(w)])[0], w)
            print("implementation:", impl.replace(dt.root, ""), [d.replace(dt.root, "") for d in dirs])
            print("model:         ", res.replace(dt.root, ""), [d.replace(dt.root, "") for d in mdirs])
            return 0 if (impl, dirs) == (res, mdirs) else 1
        finally:
            dt.close()
    if "doc" in c and "key" in c:
        from gallia.config import Config

        v = Config(c["doc"]).get_value(c["key"])
        impl = "none" if v is None else L.tree_tok(v)
        mo = ctx.lean([f"gv {L.tree_tok(c['doc'])} {L.thex(c['key']) or '-'}"])[0]
        print("implementation:", repr(v), impl)
        print("model:         ", mo)
        return 0 if impl == mo else 1
    if "text" in c and "kind" in c and "option" in c:
        st = _worker_state()
        path, _, name = c["option"].rpartition(":")
        plan = Plan(tuple(path.split()), st["cmds"][tuple(path.split())], random.Random(0))
        ta = _adapter([plan], plan.path, name)
        try:
            impl = str(ta.validate_python(c["text"]))
        except Exception:  # noqa: BLE001
            impl = "none"
        mo = ctx.lean([f"{'lax' if c['kind'] == 'int' else 'hexint'} {L.thex(c['text']) or '-'}"])[0]
        print("implementation:", impl)
        print("model:         ", mo)
        return 0 if impl == mo else 1
    if "argv" not in c:
        print("recorded case is not a parser run; impl:", case.get("impl"), "model:", case.get("model"))
        return 0
    from gallia.cli.gallia import create_parser

    st = _worker_state()
    cmd = st["cmds"][tuple(c["cmd"])]
    for k in [k for k in os.environ if k.startswith("GALLIA_")]:
        del os.environ[k]
    with open(st["sb"].path, "w") as f:
        f.write(c.get("gallia.toml", ""))
    os.environ["GALLIA_CONFIG"] = st["sb"].path
    os.environ.update(c.get("env", {}))
    res = L.real_parse(create_parser(cmd), c["argv"])
    print("implementation:", res[0], L.canon_val(getattr(res[1], c["opt"])) if res[0] == "ok" else res[1:])
    raw = c.get("raw", {})
    line = f"eff {c['field']} {raw.get('cli', '-')} {raw.get('env', '-')} {raw.get('file', '-')} {c.get('dflt') or '-'}"
    mo = ctx.lean([line])[0]
    print("model:         ", mo)
    m = mo.split()
    same = (res[0] == "ok" and m[0] == "ok" and L.canon_val(getattr(res[1], c["opt"])) == m[2]) or (res[0] != "ok" and m[0] != "ok")
    return 0 if same else 1


MANIFEST = {
    "level_text": ("Lean 4 theorems over a model of configuration resolution in three layers. (1) Providers: environment over file in the extra "
                   "defaults, command line over extra default in argparse (positional arguments are never offered a default), field default last "
                   "compose to CLI > env > file > default for all 16 provider combinations and every field kind (precedence, precedence_all_kinds); "
                   "only the winner is validated (losing_invalid_ignored), a refused value is never skipped (invalid_rejected_blame) and the provider "
                   "named holds the rejected input (blamed_holds_input, invalid_names_source). (2) Values: every field kind that occurs in the live "
                   "command tree has a codec - AutoInt in four bases, HexInt, pydantic's lax int, HexBytes, Ranges, Ranges2D, enums by name or value, "
                   "enum lists, DDDI tuple lists, dict, booleans, optional and const flags - with load (dump v) = v (load_dump) and, field by field "
                   "over a whole configuration, reload (store cfg) = cfg (reload_store); the regenerated (command, option, kind) table must contain "
                   "no kind the model lacks (all_kinds_modelled). (3) File layer: documents as trees, Config.get_value, the section.name key rule, the "
                   "template document (template_roundtrip for the live registry, registry_prefix_free) and config file discovery "
                   "(discovery_order, discovery_independent_of_later, git_root_nearest). Tied to the code by the real create_parser for every command "
                   "x every option x every provider combination with valid and invalid texts of every kind, the text codecs on all short strings, "
                   "Config.get_value on generated documents, --template parsed back, search_config on real directory trees with fake .git "
                   "directories, and the reload through Rerunner.main from META.json and from run_meta in a real database."),
    "level_note": ("Partial: pydantic validation, argparse, tomllib, git and platformdirs are modelled by contract; URI / float validity is taken "
                   "from the type's constructor; cross-field validators are kept satisfied, not modelled. Trusted: Lean kernel (propext, Quot.sound, "
                   "Classical.choice), the table generator, the harness."),
    "technique": ("Lean 4 proof (case analysis, induction on digit strings, on documents and paths, first-match lemmas) + regenerated option / registry "
                  "tables with kernel-checked obligations + exhaustive differential correspondence against the real parser glue, config loader and rerunner"),
    "design_ref": "DESIGN.md section 7, C18",
}
