"""C14 - the virtual ECU survives any request and its answers are accepted by the client.

Real side: `RandomUDSServer` (seeds x randomness parameters incl. dense ones x mandatory / optional session and service
lists) behind the real `UDSServerTransport.handle_request`; every reply goes through the real `helpers.parse_pdu` with
the request object the real parser returns (and, for PDUs built by one of gallia's request constructors, with an object
of that class); histories also run through the real `TCPUDSServerTransport.handle_client` on in-memory streams.
`gallia.services.uds.server.time` is a scripted clock, `server.RNG` a recording subclass: the `random_bool` / `randint` /
`expovariate` / `random_payload` results of every handler call are *recorded* and handed to the Lean model
(`Driver/C14.lean`: `VEcu.vecuHandleAt` = C13's chain + the typed handlers over C01's parser model, the client verdict
`parsePdu reply (decode request)` of C03, `decodeResp`/`encodeResp` of C02).

Judged on the real run alone (`spec_violated=True`): an exception out of `handle_request`, a dropped connection, a
session the model does not offer, a reply the real client refuses or that does not re-serialise to itself.
A model / implementation difference that breaks none of these is a broken tie (`spec_violated=False`).
"""
import asyncio
import inspect

import c14_conn as CN
import c14_fuzz as F
import c14_rare as RD
import secsm
from common import hx

ID = "C14"
GENS = ["c13_chain", "c14_handlers", "c14_partial"]
PROOF = "Gallia.Proofs.C14"
DRIVER = "c14"
ORACLE = False
ASSUMPTIONS = [
    "\"does not raise\" is a statement about Python exceptions: the Lean model only has the three exceptions the rule "
    "chain can raise (two asserts, one index error) as outcomes; every other exception is excluded by the tie (any "
    "exception out of handle_request on a generated history is a violation), not by a theorem. The connection loop "
    "around it (handle_client: readline, decode, unhexlify, handle_request, write, the except arm, the two breaks, the "
    "division after the loop) is modelled with its exceptions (Model/VEcuConn.lean) and what ends it is proved exactly "
    "(conn_end_exact)",
    "connection level: the StreamReader limit of the connection is a parameter of the model (a longer line ends the loop "
    "with ValueError: EndCause.tooLong); the exchange theorems assume asyncio's default 2**16 and requests of at most "
    "32768 bytes; the tie builds the server's reader with the limit run() passes to asyncio.start_server, gives the same "
    "limit to the model, sends requests up to 4095 bytes (the longest one ISO-TP transfer carries) and lines of exactly "
    "limit and limit + 2 bytes; "
    "writer.write / drain do not raise while the peer is connected (a reset by the peer is the fourth "
    "way the loop can end and is outside the property); what the runtime does with the socket after handle_client "
    "returned or raised is not modelled (the client then just sees no further line); the client is "
    "LinesTransportMixin.write / read + helpers.parse_pdu, which is UDSClient.request_unsafe with max_retry 0 for an ECU "
    "that never answers busyRepeatRequest / responsePending (the vECU has neither code: handler_negatives_accepted and "
    "the chain's NRCs); the client's read decodes UTF-8 where the model takes ASCII - equal on everything hexlify emits",
    "the random decisions of a handler call enter the model as a per-request oracle (random_bool results, randint(0,255) "
    "bytes, int(expovariate + 0.5) lengths, DTC draws); the theorems hold for every oracle, the tie records the real draws",
    "request parsing is C01's parser model (decode), response parsing C02's (decodeResp), the client's acceptance test "
    "C03's (parsePdu); their agreement with gallia's codec is the subject of C01-C03 and is re-checked here on every "
    "compared exchange through the outputs (raw bit, reply bytes, client verdict)",
    "empty requests are outside the property (request.service_id raises IndexError on b''); as events of a connection "
    "they are modelled: an empty or all-whitespace line ends the loop with IndexError, like a non-hex / odd-length / "
    "non-ASCII line ends it with binascii.Error / UnicodeDecodeError (conn_end_exact; compared with the real loop)",
    "session identifiers < 128 (ModelOK, proved for every model randomize() can build): to_bytes(session, 1) and the "
    "sub-function byte of the DiagnosticSessionControl reply cannot overflow",
    "one connection, requests handled one after the other (handle_client awaits each request; the client sends the next "
    "request only after its read returned or timed out); asyncio.StreamReader / StreamWriter by contract (readline "
    "returns through the first newline; an unterminated tail only at end of stream)",
    "reply_length_bounds assumes random_payload length <= 4090 and DTC count <= 1023 for the handler call; the code draws "
    "both from expovariate (53-bit random(): at most ~294 for the payload, ~1837 for the DTC count), so a reply longer than "
    "4095 bytes needs a DTC-count draw above 1023 (probability ~1e-9 per call) - not excluded by the code, not a clause of "
    "the property (tcp-lines has no length limit)",
    "time: the clock is read exactly twice per request (start, end); ticks of 0.25 s",
    "rare draws: the handlers' RNG is seeded by (model seed, session, request parameters), so which requests meet a rare "
    "draw (the same DTC twice in one list ~1e-4 per request, an empty DTC list, 0 / 255 from a randint, an empty / longest "
    "payload) is a property of the model seed; the theorems hold for every oracle (duplicate_dtc_draw_answered names the "
    "repeated-DTC case), the tie searches such draws on every run by calling the real respond_after_default directly on "
    "several hundred freshly built models x reachable sessions x whole parameter ranges (harness/c14_rare.py) and re-runs "
    "every raising call and a few per corner kind as real histories; the stage-1 direct call sets session only (security "
    "level / pending seed none), which is all stateful_rng reads",
]

SUBFN = [0x10, 0x11, 0x19, 0x27, 0x28, 0x2C, 0x31, 0x3E, 0x85]
INIT = (1, None, None)


# ------------------------------------------------------------------------------------------------------------------
# models
# ------------------------------------------------------------------------------------------------------------------
def model_configs(ctx, env, rng):
    S = env["UDSIsoServices"]
    allsvc = [s for s in S if s != S.NegativeResponse]
    handled = [S.DiagnosticSessionControl, S.EcuReset, S.SecurityAccess, S.RoutineControl, S.ReadDataByIdentifier,
               S.WriteDataByIdentifier, S.InputOutputControlByIdentifier, S.ClearDiagnosticInformation, S.ReadDTCInformation,
               S.TesterPresent]
    dense = {"p_identifier": 0.9, "p_correct_payload_format": 0.9, "p_dtc_status_mask": 0.9}
    cfgs = [
        (5, {"mandatory_sessions": [1, 0x7E], "optional_sessions": [0, 2, 0x7D], "mandatory_services": allsvc,
             "optional_services": [], "p_sub_function": 0.5, "p_session": 0.9, **dense}),  # everything offered everywhere, dense
        (3, {}),  # the seed the bats suite uses, defaults
        (1, {"p_service": 0.5, "p_sub_function": 0.2, "p_session": 0.3, "p_identifier": 0.5, "p_correct_payload_format": 0.7}),
        (7, {"mandatory_sessions": [1, 2, 3], "optional_sessions": list(range(0x40, 0x46)), "mandatory_services": handled,
             "optional_services": [s for s in allsvc if s not in handled], "p_service": 0.3, "p_sub_function": 0.3,
             "p_session": 0.5, "p_identifier": 1.0, "p_correct_payload_format": 1.0, "p_dtc_status_mask": 1.0}),  # always positive
        (11, {"mandatory_services": [], "optional_services": allsvc, "p_service": 0.6, "p_sub_function": 0.1,
              "p_session": 0.4, "p_identifier": 0.3}),  # DiagnosticSessionControl not mandatory
        (2, {"mandatory_sessions": [1], "optional_sessions": [], "mandatory_services": [S.DiagnosticSessionControl],
             "optional_services": [], "p_session": 0.0}),  # minimal ECU
        (13, {"mandatory_services": handled, "optional_services": [], "p_sub_function": 1.0, "p_session": 1.0,
              "mandatory_sessions": [1, 3], "optional_sessions": [2, 4, 0x60], "p_identifier": 0.0,
              "p_correct_payload_format": 0.0, "p_dtc_status_mask": 0.0}),  # every sub-function, always negative
    ]
    for _ in range(ctx.pick(5, 40)):
        mand = rng.sample(allsvc, rng.randint(0, 4))
        if rng.random() < 0.8 and S.DiagnosticSessionControl not in mand:
            mand.append(S.DiagnosticSessionControl)
        if rng.random() < 0.5:
            mand += [s for s in rng.sample(handled, rng.randint(1, 6)) if s not in mand]
        opt = [s for s in allsvc if s not in mand and rng.random() < 0.8]
        msess = sorted({1} | set(rng.sample(range(0, 0x7F), rng.randint(0, 3))))
        osess = [s for s in rng.sample(range(0, 0x7F), rng.randint(0, 20)) if s not in msess]
        cfgs.append((rng.randrange(1 << 30), {
            "mandatory_sessions": msess, "optional_sessions": osess, "mandatory_services": mand, "optional_services": opt,
            "p_session": rng.choice([0.02, 0.05, 0.2, 0.6, 1.0]), "p_service": rng.choice([0.1, 0.2, 0.5, 0.9]),
            "p_sub_function": rng.choice([0.02, 0.05, 0.2, 0.6]), "p_identifier": rng.choice([0.005, 0.2, 0.5, 0.9, 1.0]),
            "p_correct_payload_format": rng.choice([0.1, 0.5, 0.9, 1.0]), "p_dtc_status_mask": rng.choice([0.1, 0.9, 1.0])}))
    return cfgs


def params_json(params):
    return {k: ([int(x) for x in v] if isinstance(v, list) else v) for k, v in params.items()}


def params_from_json(env, params):
    S = env["UDSIsoServices"]
    out = dict(params)
    for k in ("mandatory_services", "optional_services"):
        if k in out:
            out[k] = [S(x) for x in out[k]]
    return out


# ------------------------------------------------------------------------------------------------------------------
# request generators
# ------------------------------------------------------------------------------------------------------------------
def rbytes(rng, lo, hi):
    return bytes(rng.randrange(256) for _ in range(rng.randint(lo, hi)))


def ctor_makers(rng, real):
    """one maker per concrete request class of gallia.services.uds.core.service, aimed at what this model offers"""
    sv = real.env["service"]
    svcs = real.server.services
    sessions = sorted(svcs)

    def did():
        return rng.choice([0xF186, 0xF186, 0xF190, 0x0000, 0xFFFF, rng.randrange(0x10000)])

    def sup(p=0.3):
        return rng.random() < p

    def level(odd):
        offered = sorted({int(x) for d in svcs.values() for x in (d.get(0x27) or []) if x % 2 == (1 if odd else 0)})
        if offered and rng.random() < 0.75:
            return rng.choice(offered)
        return rng.randrange(1, 0x7E, 2) + (0 if odd else 1)

    def mask():
        return rng.randrange(256)

    return {
        "DiagnosticSessionControlRequest": lambda: sv.DiagnosticSessionControlRequest(rng.choice(sessions + [rng.randrange(0x80)]), sup()),
        "ECUResetRequest": lambda: sv.ECUResetRequest(rng.choice([1, 2, 3, 4, 4, 5, rng.randrange(0x80)]), sup()),
        "RequestSeedRequest": lambda: sv.RequestSeedRequest(level(True), rng.choice([b"", b"", b"\x01\x02"]), sup(0.2)),
        "SendKeyRequest": lambda: sv.SendKeyRequest(level(False), rbytes(rng, 1, 6), sup(0.2)),
        "CommunicationControlRequest": lambda: sv.CommunicationControlRequest(rng.choice([0, 1, 2, 3, rng.randrange(0x80)]), rng.randrange(256), sup()),
        "TesterPresentRequest": lambda: sv.TesterPresentRequest(sup(0.4)),
        "ControlDTCSettingRequest": lambda: sv.ControlDTCSettingRequest(rng.choice([1, 2, rng.randrange(0x80)]), rbytes(rng, 0, 3), sup()),
        "ReadDataByIdentifierRequest": lambda: sv.ReadDataByIdentifierRequest([did() for _ in range(rng.choice([1, 1, 2, 3, 5]))]),
        "ReadMemoryByAddressRequest": lambda: sv.ReadMemoryByAddressRequest(rng.randrange(1 << 24), rng.randint(1, 300)),
        "DefineByIdentifierRequest": lambda: sv.DefineByIdentifierRequest(did(), [did()], [rng.randrange(256)], [rng.randrange(1, 256)], sup()),
        "DefineByMemoryAddressRequest": lambda: sv.DefineByMemoryAddressRequest(did(), [rng.randrange(1 << 16)], [rng.randint(1, 255)], None, sup()),
        "ClearDynamicallyDefinedDataIdentifierRequest": lambda: sv.ClearDynamicallyDefinedDataIdentifierRequest(rng.choice([None, did()]), sup()),
        "WriteDataByIdentifierRequest": lambda: sv.WriteDataByIdentifierRequest(did(), rbytes(rng, 1, 20)),
        "WriteMemoryByAddressRequest": lambda: sv.WriteMemoryByAddressRequest(rng.randrange(1 << 16), rbytes(rng, 1, 8)),
        "ClearDiagnosticInformationRequest": lambda: sv.ClearDiagnosticInformationRequest(rng.choice([0xFFFFFF, 0, rng.randrange(1 << 24)])),
        "ReportNumberOfDTCByStatusMaskRequest": lambda: sv.ReportNumberOfDTCByStatusMaskRequest(mask(), sup(0.2)),
        "ReportDTCByStatusMaskRequest": lambda: sv.ReportDTCByStatusMaskRequest(mask(), sup(0.2)),
        "ReportMirrorMemoryDTCByStatusMaskRequest": lambda: sv.ReportMirrorMemoryDTCByStatusMaskRequest(mask(), sup(0.2)),
        "ReportNumberOfMirrorMemoryDTCByStatusMaskRequest": lambda: sv.ReportNumberOfMirrorMemoryDTCByStatusMaskRequest(mask(), sup(0.2)),
        "ReportNumberOfEmissionsRelatedOBDDTCByStatusMaskRequest": lambda: sv.ReportNumberOfEmissionsRelatedOBDDTCByStatusMaskRequest(mask(), sup(0.2)),
        "ReportEmissionsRelatedOBDDTCByStatusMaskRequest": lambda: sv.ReportEmissionsRelatedOBDDTCByStatusMaskRequest(mask(), sup(0.2)),
        "ReportSupportedDTCRequest": lambda: sv.ReportSupportedDTCRequest(sup(0.2)),
        "ReportFirstTestFailedDTCRequest": lambda: sv.ReportFirstTestFailedDTCRequest(sup(0.2)),
        "ReportFirstConfirmedDTCRequest": lambda: sv.ReportFirstConfirmedDTCRequest(sup(0.2)),
        "ReportMostRecentFirstTestFailedDTCRequest": lambda: sv.ReportMostRecentFirstTestFailedDTCRequest(sup(0.2)),
        "ReportMostRecentConfirmedDTCRequest": lambda: sv.ReportMostRecentConfirmedDTCRequest(sup(0.2)),
        "ReportDTCWithPermanentStatusRequest": lambda: sv.ReportDTCWithPermanentStatusRequest(sup(0.2)),
        "ReportDTCExtDataRecordByDTCNumberRequest": lambda: sv.ReportDTCExtDataRecordByDTCNumberRequest(rng.randrange(1 << 24), rng.randrange(256), sup(0.2)),
        "InputOutputControlByIdentifierRequest": lambda: sv.InputOutputControlByIdentifierRequest(did(), rbytes(rng, 1, 5), rbytes(rng, 0, 2)),
        "ReturnControlToECURequest": lambda: sv.ReturnControlToECURequest(did(), rbytes(rng, 0, 2)),
        "ResetToDefaultRequest": lambda: sv.ResetToDefaultRequest(did(), rbytes(rng, 0, 2)),
        "FreezeCurrentStateRequest": lambda: sv.FreezeCurrentStateRequest(did(), rbytes(rng, 0, 2)),
        "ShortTermAdjustmentRequest": lambda: sv.ShortTermAdjustmentRequest(did(), rbytes(rng, 1, 4), rbytes(rng, 0, 2)),
        "RoutineControlRequest": lambda: sv.RoutineControlRequest(did(), rbytes(rng, 0, 3), sup(0.2)),
        "StartRoutineRequest": lambda: sv.StartRoutineRequest(did(), rng.choice([b"", b"\x00", b"\xde\xad\xbe\xef"]), sup(0.2)),
        "StopRoutineRequest": lambda: sv.StopRoutineRequest(did(), rbytes(rng, 0, 3), sup(0.2)),
        "RequestRoutineResultsRequest": lambda: sv.RequestRoutineResultsRequest(did(), rbytes(rng, 0, 3), sup(0.2)),
        "RequestDownloadRequest": lambda: sv.RequestDownloadRequest(rng.randrange(1 << 24), rng.randrange(1 << 16), rng.randrange(16), rng.randrange(16)),
        "RequestUploadRequest": lambda: sv.RequestUploadRequest(rng.randrange(1 << 24), rng.randrange(1 << 16), rng.randrange(16), rng.randrange(16)),
        "TransferDataRequest": lambda: sv.TransferDataRequest(rng.randrange(256), rbytes(rng, 0, 6)),
        "RequestTransferExitRequest": lambda: sv.RequestTransferExitRequest(rbytes(rng, 0, 4)),
        "RawRequest": lambda: sv.RawRequest(rbytes(rng, 1, 9)),
    }


def concrete_request_classes(env):
    sv = env["service"]
    return sorted(n for n, c in inspect.getmembers(sv, inspect.isclass)
                  if issubclass(c, sv.UDSRequest) and not inspect.isabstract(c) and not n.startswith("_"))


def ctor_item(rng, makers, name, adv=1):
    """an item built by gallia's own constructor `name` (None when the constructor / .pdu refuses the values)"""
    try:
        obj = makers[name]()
        pdu = obj.pdu
    except Exception:
        return None
    if not pdu:
        return None
    return {"adv": adv, "pdu": pdu.hex(), "ctor": name}


def adv_of(rng):
    return rng.choice([1] * 40 + [8, 39, 40, 41, 44, 400])


def random_items(rng, real, makers, names, state):
    """the next item(s) of a random history, aimed at the model and the current state"""
    svcs = real.server.services
    cur = svcs.get(state[0], {})
    r = rng.random()
    a = adv_of(rng)
    if r < 0.12:
        return [{"adv": a, "pdu": rbytes(rng, 1, 9).hex()}], "random-bytes"
    if r < 0.24:
        sid = rng.randrange(256)
        return [{"adv": a, "pdu": (bytes([sid]) + rbytes(rng, 0, 8)).hex()}], "sid+payload"
    if r < 0.34:  # session control towards an offered / a foreign session
        offered = cur.get(0x10) or []
        pool = list(offered) if offered and rng.random() < 0.75 else list(svcs.keys()) + [rng.randrange(0x80)]
        b = int(rng.choice(pool)) | (0x80 if rng.random() < 0.25 else 0)
        return [{"adv": a, "pdu": bytes([0x10, b]).hex(), "ctor": "DiagnosticSessionControlRequest"}], "session-change"
    if r < 0.46:  # seed -> key sequence
        sfs = [x for x in (cur.get(0x27) or []) if x % 2 == 1]
        lvl = int(rng.choice(sfs)) if sfs and rng.random() < 0.85 else rng.randrange(1, 0x7E, 2)
        items = [{"adv": a, "pdu": bytes([0x27, lvl]).hex(), "ctor": "RequestSeedRequest"}]
        c = rng.random()
        if c < 0.3:
            items.append({"adv": 1, "pdu": "3e00", "ctor": "TesterPresentRequest"})
        elif c < 0.4:
            items.append({"adv": 1, "pdu": bytes([0x27, lvl]).hex(), "ctor": "RequestSeedRequest"})  # a second seed request
        elif c < 0.5:
            items.append({"adv": 1, "pdu": "22f186"})
        kind = rng.choice(["right", "right", "right", "wrong", "short", "long"])
        t = lvl + 1 if rng.random() < 0.85 else rng.randrange(2, 0x7F, 2)
        items.append({"adv": adv_of(rng) if rng.random() < 0.1 else 1, "key": [t, kind, rng.random() < 0.15]})
        return items, "seed-key"
    if r < 0.52 and state[2] is not None:  # a key for the pending seed
        return [{"adv": a, "key": [state[2][0] + 1, rng.choice(["right", "wrong"]), False]}], "key-for-pending-seed"
    if r < 0.60:  # a service the ECU knows, with a listed / unlisted sub-function and a tail
        everywhere = sorted({int(k) for d in svcs.values() for k in d})
        if everywhere:
            sid = rng.choice(everywhere)
            lists = [l for d in svcs.values() for k, l in d.items() if int(k) == sid and l]
            sf = int(rng.choice(rng.choice(lists))) if lists and rng.random() < 0.7 else rng.randrange(0x80)
            sf |= 0x80 if rng.random() < 0.25 else 0
            return [{"adv": a, "pdu": (bytes([sid, sf]) + rbytes(rng, 0, 4)).hex()}], "known-service"
    name = rng.choice(names)
    it = ctor_item(rng, makers, name, a)
    if it is None:
        return [], "ctor-refused"
    return [it], "constructor"


def subfn_tails(rng, sid):
    """tails that make a request of a sub-function service well-formed (plus none at all)"""
    t = {0x10: [b""], 0x11: [b""], 0x3E: [b""],
         0x19: [b"", bytes([rng.randrange(256)]), rbytes(rng, 4, 4)],
         0x27: [b"", rbytes(rng, 1, 3)],
         0x28: [bytes([rng.randrange(256)])],
         0x2C: [b"", rbytes(rng, 2, 2), rbytes(rng, 6, 6), rbytes(rng, 5, 5)],
         0x31: [rbytes(rng, 2, 2), rbytes(rng, 4, 4)],
         0x85: [b"", rbytes(rng, 2, 2)]}
    return t.get(sid, [b"", rbytes(rng, 1, 3)])


def smart_payload(rng, real, sid, n):
    """n payload bytes after the service id: listed sub-functions / the session identifier first, random otherwise"""
    if n == 0:
        return b""
    svcs = real.server.services
    head = []
    if sid == 0x22 and rng.random() < 0.4:
        head = [0xF1, 0x86]
    elif sid in SUBFN and rng.random() < 0.7:
        lists = [l for d in svcs.values() for k, l in d.items() if int(k) == sid and l]
        sf = int(rng.choice(rng.choice(lists))) if lists and rng.random() < 0.8 else rng.randrange(0x80)
        head = [sf | (0x80 if rng.random() < 0.2 else 0)]
    body = (bytes(head) + rbytes(rng, n, n))[:n]
    return body


def boundary_items(rng, real):
    """requests of 1, 2 and 4095 bytes (the largest ISO-TP message) for the services with open-ended records"""
    out = []
    for sid in (0x22, 0x2E, 0x2F, 0x31, 0x27, 0x36, 0x37, 0x85, 0x3D, 0x00, 0xFF, 0x7F):
        out.append(bytes([sid]))
        out.append(bytes([sid, rng.randrange(256)]))
    out.append(b"\x22" + b"\xf1\x86" * 2047)                                # 4095 bytes, 2047 identifiers
    out.append(b"\x22" + rbytes(rng, 4094, 4094))
    out.append(b"\x22" + rbytes(rng, 4093, 4093))                           # odd number of identifier bytes
    out.append(b"\x2e" + rbytes(rng, 4094, 4094))
    out.append(b"\x2f" + rbytes(rng, 4094, 4094))
    out.append(b"\x31\x01" + rbytes(rng, 4093, 4093))
    out.append(b"\x31\x83" + rbytes(rng, 4093, 4093))
    out.append(b"\x27\x01" + rbytes(rng, 4093, 4093))
    out.append(b"\x27\x02" + rbytes(rng, 4093, 4093))
    out.append(b"\x36" + rbytes(rng, 4094, 4094))
    out.append(b"\x37" + rbytes(rng, 4094, 4094))
    out.append(b"\x85\x01" + rbytes(rng, 4093, 4093))
    out.append(b"\x14" + rbytes(rng, 4094, 4094))
    out.append(b"\x19\x02" + rbytes(rng, 4093, 4093))
    out.append(b"\x10" + rbytes(rng, 4094, 4094))
    out.append(b"\x3e" + bytes(4094))
    out.append(rbytes(rng, 4095, 4095))
    return [{"adv": 1, "pdu": p.hex()} for p in out]


def session_paths(real):
    """for every offered session: DiagnosticSessionControl requests that lead there from the default session"""
    svcs = real.server.services
    paths = {1: []}
    queue = [1]
    while queue:
        s = queue.pop(0)
        for t in (svcs.get(s, {}).get(0x10) or []):
            t = int(t)
            if t in svcs and t not in paths:
                paths[t] = paths[s] + [{"adv": 1, "pdu": bytes([0x10, t]).hex(), "ctor": "DiagnosticSessionControlRequest"}]
                queue.append(t)
    return paths


def seed_key_scripts(real, session):
    """the unlock dialogues for every SecurityAccess level of a session (right / wrong / short key, TesterPresent or a
    second seed request in between, key of another level, key without seed, key after the inactivity reset)"""
    sfs = [int(x) for x in (real.server.services.get(session, {}).get(0x27) or []) if int(x) % 2 == 1]
    scripts = []
    for lvl in sfs[:4]:
        seed = {"adv": 1, "pdu": bytes([0x27, lvl]).hex(), "ctor": "RequestSeedRequest"}
        tp = {"adv": 1, "pdu": "3e00", "ctor": "TesterPresentRequest"}
        tps = {"adv": 1, "pdu": "3e80", "ctor": "TesterPresentRequest"}
        other = sfs[(sfs.index(lvl) + 1) % len(sfs)] + 1 if len(sfs) > 1 else ((lvl + 3) & 0x7E) or 2
        scripts += [
            [{"adv": 1, "key": [lvl + 1, "wrong", False]}],                                # key without seed
            [seed, {"adv": 1, "key": [lvl + 1, "right", False]}, {"adv": 1, "key": [lvl + 1, "right", False]}],
            [seed, {"adv": 1, "key": [lvl + 1, "right", True]}],                           # suppressed positive reply
            [seed, tp, {"adv": 1, "key": [lvl + 1, "right", False]}],
            [seed, tps, {"adv": 1, "key": [lvl + 1, "wrong", False]}, {"adv": 1, "key": [lvl + 1, "right", False]}],
            [seed, seed, {"adv": 1, "key": [lvl + 1, "right", False]}],                    # a second seed request in between
            [seed, {"adv": 1, "key": [lvl + 1, "short", False]}],
            [seed, {"adv": 1, "key": [lvl + 1, "long", False]}],
            [seed, {"adv": 1, "key": [other, "right", False]}],                            # key of another level
            [seed, {"adv": 1, "pdu": "22f186"}, {"adv": 1, "key": [lvl + 1, "right", False]}],  # another service in between
            [seed, {"adv": 41, "key": [lvl + 1, "right", False]}],                         # inactivity reset in between
            [seed, {"adv": 1, "pdu": bytes([0x27, lvl + 1]).hex()}],                       # sendKey without key bytes
            [{"adv": 1, "pdu": bytes([0x27, lvl | 0x80]).hex(), "ctor": "RequestSeedRequest"}, {"adv": 1, "key": [lvl + 1, "right", False]}],
        ]
    return scripts


# ------------------------------------------------------------------------------------------------------------------
# running and comparing
# ------------------------------------------------------------------------------------------------------------------
def out_kind(impl):
    w = impl.split()
    if w[0] == "crash":
        return "raised-" + w[1]
    rep = w[4]
    if rep == "none":
        return "silent"
    if rep.startswith("7f") and len(rep) == 6:
        return "nrc" + rep[4:6]
    return "pos"


def req_label(o):
    c = o["cls"]
    return f"RawRequest[{o['pdu'][0]:#04x}]" if c == "RawRequest" and o["pdu"] else c


class Runner:
    def __init__(self, ctx, env):
        self.ctx = ctx
        self.env = env
        self.lines = []
        self.meta = []
        self.cur = None
        self.viol = {}   # provisional key -> (size, real, items, sig, obs summary)
        self.tie = {}    # key -> (size, args)
        self.reached = {}  # id(real) -> {state: items that reach it}
        self.model_flags = {}

    # -- one request ---------------------------------------------------------------------------------------------------
    def step(self, real, items, i, label, force_pre=None, prefix=None):
        """run items[i] on the real server, queue it for the model; items[:i+1] (after `prefix`) is the case"""
        ctx = self.ctx
        o = real.step(items[i], force_pre)
        if self.cur is not real:
            self.lines.append("model " + real.spec)
            self.meta.append((len(self.lines) - 1, None, None, None, None))
            self.cur = real
        self.lines.append(real.lean_line(o))
        case_items = (prefix or []) + items[: i + 1]
        self.meta.append((len(self.lines) - 1, real, case_items, o["impl"], (o["pre"], o["dt"], hx(o["pdu"]), o["orc"], req_label(o))))
        ctx.kind(f"{label}:{out_kind(o['impl'])}", "request-class:" + o["cls"])
        if len(o["pdu"]) >= 2 or any(o["pdu"][0] in d for d in real.server.services.values()):
            ctx.nontrivial((real.seed, real.spec, o["pre"], o["dt"] > 40, o["pdu"], o["orc"]))
        if o["orc_problems"]:
            self.tie_found("c14:unmodelled-draws:" + req_label(o), "the handler call drew random numbers in a pattern the oracle "
                           "structure of the model does not have: " + "; ".join(o["orc_problems"]), real, case_items, o["impl"], "-")
        for clause, detail in F.clauses_broken(o):
            sig = (clause, req_label(o), detail)
            prov = ":".join(sig)
            size = (len(case_items), len(o["pdu"]))
            if prov not in self.viol or size < self.viol[prov][0]:
                self.viol[prov] = (size, real, case_items, sig, o["impl"])
        return o

    def tie_found(self, key, what, real, items, impl, model):
        size = (len(items), sum(len(x.get("pdu", "")) for x in items))
        if key not in self.tie or size < self.tie[key][0]:
            self.tie[key] = (size, (key, what, self.case_of(real, items)), {"impl": impl, "model": model})

    def case_of(self, real, items):
        return {"seed": real.seed, "params": params_json(real.params), "model": real.spec[:2000], "history": items}

    # -- histories -----------------------------------------------------------------------------------------------------
    def history(self, real, items, label, prefix_ok=True):
        """a whole history from the initial state of a fresh connection"""
        real.fresh()
        reached = self.reached.setdefault(id(real), {INIT: []})
        obs = []
        for i in range(len(items)):
            o = self.step(real, items, i, label)
            obs.append(o)
            if o["exc"] is None and o["session_ok"] and o["post"] not in reached and len(reached) < 96:
                reached[o["post"]] = items[: i + 1]
            if o["pre"][0] != o["post"][0]:
                self.ctx.kind("event:session-changed")
            if o["post"][1] is not None and o["post"][1] != o["pre"][1]:
                self.ctx.kind("event:unlocked")
            if o["dt"] > 40 and o["pre"] != INIT:
                self.ctx.kind("event:inactivity-reset-of-non-initial-state")
            if o["reply"] is None and o["exc"] is None and o["post"] != o["pre"]:
                self.ctx.kind("event:suppressed-positive-with-state-change")
            if o["exc"] is not None or not o["session_ok"]:
                break  # the connection is gone / the ECU is stuck: what follows is not a history of the property any more
        self.ctx.traces_validated += 1
        return obs

    # -- the model side ------------------------------------------------------------------------------------------------
    def flush(self):
        ctx = self.ctx
        if not self.lines:
            return
        out = ctx.lean(self.lines)
        for idx, real, items, impl, info in self.meta:
            mo = out[idx]
            if real is None:
                continue
            ctx.ev()
            if mo == "bad-op" or " ready=" not in mo:
                self.tie_found("c14:driver-rejected-line", "the model driver could not read a case: " + self.lines[idx][:200],
                               real, items, impl, mo)
                continue
            model, ready = mo.rsplit(" ready=", 1)
            pre, dt, pdu, orc, lab = info
            if ready != "1" and impl.split()[0] == "ok":
                self.tie_found("c14:state-outside-ready:" + lab, f"request {pdu} was handled in state {pre} which does not satisfy "
                               "Ready for the model (session not offered / sub-function service without list)", real, items, impl, model)
            if model != impl:
                ik, mk = out_kind(impl), out_kind(model)
                iw, mw = impl.split(), model.split()
                state_same = iw[0] == mw[0] and (iw[1:4] == mw[1:4] if iw[0] == "ok" else iw[2:5] == mw[2:5])
                cl = "client" if iw[0] == mw[0] == "ok" and iw[1:5] == mw[1:5] else "reply"
                key = f"c14:model-differs:{lab}:{cl}:impl={ik}:model={mk}:state={'same' if state_same else 'differs'}"
                self.tie_found(key, f"virtual ECU differs from the typed model: request {pdu} state {pre} dt {dt} oracle [{orc}]: "
                               f"impl `{impl[:300]}` model `{model[:300]}`", real, items, impl[:600], model[:600])
        self.lines, self.meta, self.cur = [], [], None

    def model_check(self, reals):
        """ModelOK / Closed / listed evaluated by the Lean driver on the real model providers"""
        ctx = self.ctx
        lines = ["model " + r.spec for r in reals]
        out = ctx.lean(lines)
        for r, o in zip(reals, out):
            ctx.ev()
            flags = dict(x.split("=") for x in o.split()[1:]) if o.startswith("ok ") else {}
            self.model_flags[id(r)] = flags
            if not flags or any(v != "1" for v in flags.values()):
                ctx.disagree("c14:model-provider:" + ",".join(k for k, v in sorted(flags.items()) if v != "1"),
                             "RandomUDSServer.randomize built a model outside the theorems' hypotheses (unique keys / listed / "
                             "Closed / sessions < 128 / ModelOK): " + o, {"seed": r.seed, "params": params_json(r.params), "model": r.spec[:2000]},
                             impl=o, model="all flags 1 (randomize_model_ok)", spec_violated=False, site="RandomUDSServer.randomize")

    # -- reporting -----------------------------------------------------------------------------------------------------
    def reproduces(self, real, items, sig):
        real.fresh()
        o = None
        for it in items:
            o = real.step(it)
            if o["exc"] is not None and it is not items[-1]:
                return None
        if o is None:
            return None
        return o if sig in [(c, req_label(o), d) for c, d in F.clauses_broken(o)] else None

    def minimise(self, real, items, sig, budget=250):
        tries = [0]

        def ok(cand):
            tries[0] += 1
            return self.reproduces(real, cand, sig) is not None

        if not ok(items):
            return items, False
        last, prefix = items[-1], items[:-1]
        if prefix and ok([last]):
            prefix = []
        n = 2
        while len(prefix) >= 1 and tries[0] < budget:
            chunk = max(1, len(prefix) // n)
            removed = False
            for i in range(0, len(prefix), chunk):
                cand = prefix[:i] + prefix[i + chunk:]
                if ok(cand + [last]):
                    prefix, removed = cand, True
                    n = max(n - 1, 2)
                    break
                if tries[0] >= budget:
                    break
            if not removed:
                if chunk == 1:
                    break
                n = min(len(prefix), n * 2)
        cur = prefix + [last]
        cand = [{**it, "adv": 1} for it in cur]
        if cand != cur and ok(cand):
            cur = cand
        # drop the constructor hint when the parsed object alone shows it
        cand = [{k: v for k, v in it.items() if k != "ctor"} for it in cur]
        if cand != cur and ok(cand):
            cur = cand
        return cur, True

    def finish(self):
        ctx = self.ctx
        # violations first: minimised, a few per run
        for prov in sorted(self.viol, key=lambda k: self.viol[k][0])[:12]:
            _, real, items, sig, impl = self.viol[prov]
            mini, repro = self.minimise(real, items, sig)
            real.fresh()
            labels, last = [], None
            for it in mini:
                last = real.step(it)
                labels.append(req_label(last))
            dropped = None
            try:
                alive, dropped_at, _replies, caught = asyncio.new_event_loop().run_until_complete(F.drive_client_loop(real, mini))
                dropped = {"connection_alive_after_history": alive, "dropped_at_request": dropped_at, "logged": caught[:2]}
            except Exception as e:  # noqa: BLE001
                dropped = {"handle_client": "could not be driven: " + repr(e)[:120]}
            clause, lab, detail = sig
            key = f"c14:{clause}:{'>'.join(labels[-4:])}:{detail}"
            shown = [(it.get("pdu") or "key" + str(it["key"])) for it in mini]
            shown = [x if len(x) <= 40 else x[:32] + f"..({len(x) // 2} bytes)" for x in shown]
            shown = [x if it.get("adv", 1) == 1 else f"(+{it['adv'] * 0.25:g} s) {x}" for x, it in zip(shown, mini)]
            what = {
                "raises": f"handle_request raised {last['exc'] if last and last['exc'] else detail}",
                "left-sessions": f"the ECU ended in session {last['post'][0] if last else '?'} which its model does not offer",
                "client-refuses": f"the reply {hx(last['reply']) if last and last['reply'] else '?'} is refused by helpers.parse_pdu ({detail})",
                "reply-not-well-formed": f"the reply {hx(last['reply']) if last and last['reply'] else '?'} does not parse / re-serialise to itself",
            }[clause]
            ctx.disagree(key, f"virtual ECU (seed {real.seed}) after the history {shown}: {what}"[:900],
                         {**self.case_of(real, mini), "clause": clause, "minimised": repro, "handle_client": dropped},
                         impl=(last["impl"] if last else impl)[:600], model="no exception, session offered, reply accepted by the client",
                         spec_violated=True, site="RandomUDSServer / helpers.parse_pdu")
        for key in sorted(self.tie, key=lambda k: self.tie[k][0])[:12]:
            _, a, kw = self.tie[key]
            ctx.disagree(*a, spec_violated=False, site="RandomUDSServer.respond_after_default vs Model/VEcu.lean", **kw)
        self.viol, self.tie = {}, {}


# ------------------------------------------------------------------------------------------------------------------
# -- 6. whole connections -------------------------------------------------------------------------------------------------
HEX_DIGITS = set(b"0123456789abcdefABCDEF")  # what the client's unhexlify takes; the model (and the tie) say lower case


def odd_lines(rng, real):
    """raw lines a client of the line protocol would not write: tolerated variants of a valid request and the kinds
    that end the loop"""
    good = rng.choice(["3e00", "1001", "22f186", "3e80", "2701", rbytes(rng, 1, 6).hex()])
    return rng.choice([
        good.upper().encode(), good.encode() + b"\r", b"  " + good.encode() + b"\t ", b"\x1c" + good.encode() + b"\x1f",
        b"", b" ", b"\r", b"\x0b\x0c", good.encode()[:-1], good.encode() + b"0", b"zz", good.encode() + b"g",
        good[:2].encode() + b" " + good[2:].encode(), b"\xff" + good.encode(), good.encode() + b"\xc2\xa0", b"0x" + good.encode(),
    ])


def conn_script(rng, real, makers, names, n, mixed):
    items, state = [], INIT
    while len(items) < n:
        new, _ = random_items(rng, real, makers, names, state)
        for it in new:
            it["dur"] = rng.choice([0] * 12 + [1, 2, 3, 38, 41])
        items += new
        if mixed and rng.random() < 0.06:
            items.append({"adv": adv_of(rng), "dur": rng.choice([0, 1]), "line": odd_lines(rng, real).hex()})
    return items


def conn_clauses(o, requests_only):
    """the property's own clauses on one exchange of a connection, judged on the real run alone"""
    out = []
    if "line" in o["item"]:
        return out
    nonempty = o["pdu"] is not None and len(o["pdu"]) > 0
    if not nonempty or not requests_only:
        return out
    if not o["alive"]:
        out.append(("dropped-connection", o["end"]))
        return out
    if not o["session_ok"]:
        out.append(("left-sessions", "session-not-offered"))
    w = o["written"]
    if w:
        if not (w.endswith(b"\n") and w.count(b"\n") == 1 and set(w[:-1]) <= HEX_DIGITS and len(w) % 2 == 1 and len(w) > 1):
            out.append(("reply-line-malformed", "line"))
        elif o["verdict"] != "accepted":
            out.append(("client-refuses", o["verdict"]))
        elif o["resp_pdu"] is not None and o["resp_pdu"] != bytes.fromhex(w[:-1].decode()):
            out.append(("client-got-other-bytes", "bytes"))
    elif o["verdict"] != "timeout":
        out.append(("answer-from-nowhere", o["verdict"]))
    if o["rbuf"] or o["sbuf"]:
        out.append(("stale-bytes-left", "rbuf" if o["rbuf"] else "sbuf"))
    return out


def conn_compare(ctx, real, script):
    """-> (index of the first event where something is wrong | None, signature, spec_violated, impl, model, obs, end)"""
    obs, end = CN.drive(real, script)
    out = ctx.lean(CN.lean_lines(real, obs, end.get("limit", 65536)))
    requests_only = all("line" not in it for it in script)
    for i, (o, mo) in enumerate(zip(obs, out[2:])):
        broken = conn_clauses(o, requests_only)
        if broken:
            return i, ("clause", broken[0][0], broken[0][1]), True, o["impl"], CN.model_view(o, mo), obs, end
        if o["orc_problems"]:
            return i, ("draws", "unmodelled"), False, "; ".join(o["orc_problems"]), "-", obs, end
        mv = CN.model_view(o, mo)
        if mv != o["impl"]:
            return i, ("differs", diff_field(o["impl"], mv)), False, o["impl"], mv, obs, end
    mend = " ".join(p for p in out[-1].split(" ") if not p.startswith("served="))
    if requests_only and obs and end["epilogue"] != "ok" and all(o["alive"] for o in obs):
        return len(obs), ("clause", "epilogue-raises", end["epilogue"]), True, end["impl"], mend, obs, end
    if mend != end["impl"]:
        return len(obs), ("differs", "end:" + diff_field(end["impl"], mend)), False, end["impl"], mend, obs, end
    return None, None, False, "", "", obs, end


def diff_field(a, b):
    fa, fb = a.split(" "), b.split(" ")
    for x, y in zip(fa, fb):
        if x != y:
            return x.split("=")[0]
    return "length"


def conn_minimise(ctx, real, script, idx, sig, budget=40):
    script = script[: idx + 1]
    i = len(script) - 2
    while i >= 0 and budget > 0:
        cand = script[:i] + script[i + 1:]
        budget -= 1
        try:
            j, s2, *_ = conn_compare(ctx, real, cand)
        except Exception:  # noqa: BLE001
            j, s2 = None, None
        if j is not None and s2 == sig:
            script = cand[: j + 1] if j < len(cand) else cand
        i -= 1
        i = min(i, len(script) - 2)
    return script


def conn_label(script, idx):
    it = script[min(idx, len(script) - 1)] if script else {}
    if "line" in it:
        return "line:" + it["line"][:16]
    if "key" in it:
        return "key:" + ":".join(str(x) for x in it["key"])
    return "pdu:" + it.get("pdu", "")[:16]


def run_connections(ctx, rn, reals, names):
    rng = ctx.rng
    n_models = ctx.pick(5, 16)
    for real in reals[:n_models]:
        makers = ctor_makers(rng, real)
        plans = [(ctx.pick(40, 100), False)] * ctx.pick(2, 4) + [(ctx.pick(25, 50), True)] * ctx.pick(6, 12)
        plans += [(0, False), (1, False)]
        # directed: connections whose every reply is suppressed (TesterPresent, a session change, a reset with the suppress bit)
        sup = [{"adv": 1, "dur": 0, "pdu": "3e80"}]
        for sess in list(real.server.services.get(1, {}).get(0x10) or [])[:2]:
            sup.append({"adv": 1, "dur": 1, "pdu": bytes([0x10, 0x80 | int(sess)]).hex()})
        for rt in list(real.server.services.get(1, {}).get(0x11) or [])[:1]:
            sup.append({"adv": 1, "dur": 0, "pdu": bytes([0x11, 0x80 | int(rt)]).hex()})
        plans += [("script", [dict(x)]) for x in sup] + [("script", [dict(x) for x in sup]), ("script", [dict(sup[0]), {"adv": 1, "dur": 0, "pdu": "3e00"}])]
        # directed: requests as long as one ISO-TP transfer allows (4095 bytes), on a connection whose reader is built with the
        # limit run() passes to start_server
        for n_bytes in (2049, rng.randrange(2050, 4095), 4095):
            head = rng.choice([bytes([0x2E, 0xF1, 0x90]), bytes([0x31, 0x01, 0x12, 0x34]), bytes([0x36, 0x01]), rbytes(rng, 1, 3)])
            plans.append(("script", [{"adv": 1, "dur": 0, "pdu": (head + rng.randbytes(n_bytes - len(head))).hex()},
                                     {"adv": 1, "dur": 0, "pdu": "3e00"}]))
        if real in reals[:2]:  # the reader limit from both sides: a line of exactly `limit` bytes is served, one more ends the loop
            plans.append(("script", [{"adv": 1, "dur": 0, "line": (b"3e" + b"00" * 32767).hex()}, {"adv": 1, "dur": 0, "line": b"3e00".hex()}]))
            plans.append(("script", [{"adv": 1, "dur": 0, "pdu": "3e00"}, {"adv": 1, "dur": 0, "line": (b"3e" + b"00" * 32768).hex()}]))
        for n, mixed in plans:
            if n == "script":
                script = mixed
            else:
                script = conn_script(rng, real, makers, names, n, mixed)
                if n == 0 and rng.random() < 0.5:
                    script = [{"adv": 1, "dur": 0, "line": odd_lines(rng, real).hex()}]
            try:
                idx, sig, spec, impl, model, obs, end = conn_compare(ctx, real, script)
            except Exception as e:  # noqa: BLE001
                ctx.disagree(f"c14:conn:harness-raised:{type(e).__name__}", f"driving a whole connection raised {e!r}",
                             {"kind": "conn", **rn.case_of(real, [])}, spec_violated=False, site="harness/c14_conn.py")
                continue
            ctx.ev(len(obs) + 1)
            ctx.traces_validated += 1
            for o in obs:
                ctx.kind("conn:" + ("line" if "line" in o["item"] else "request") + ":" + (o["verdict"] if o["alive"] else "ended-" + o["end"]))
                ctx.nontrivial(("conn", real.seed, o["op"], o["state"], o["start"], o["orc"]))
            ctx.kind("conn:end:" + end["impl"].replace("alive=0 ", ""))
            if idx is None:
                continue
            mini = conn_minimise(ctx, real, script, idx, sig)
            try:
                idx2, sig2, spec2, impl2, model2, obs2, _end2 = conn_compare(ctx, real, mini)
            except Exception:  # noqa: BLE001
                idx2 = None
            if idx2 is None or sig2 != sig:
                mini, idx2, impl2, model2 = script[: idx + 1], idx, impl, model
            key = "c14:conn:" + ":".join(str(x) for x in sig) + ":" + conn_label(mini, idx2)
            case = {"kind": "conn", "seed": real.seed, "params": params_json(real.params), "model": real.spec[:2000], "script": mini}
            if spec:
                what = (f"whole connection to the virtual ECU (seed {real.seed}), {len(mini)} event(s), the last one {conn_label(mini, idx2)}: "
                        f"{sig[1]} ({sig[2]}) - the property's clause fails on TCPUDSServerTransport.handle_client with the real client")
            else:
                what = (f"whole connection to the virtual ECU (seed {real.seed}): handle_client / the client and Model/VEcuConn.lean differ "
                        f"in {sig[1]} at event {idx2} ({conn_label(mini, idx2)})")
            ctx.disagree(key, what[:900], case, impl=impl2, model=model2, spec_violated=spec,
                         site="TCPUDSServerTransport.handle_client + LinesTransportMixin + UDSClient.request_unsafe vs Model/VEcuConn.lean")
    ctx.exhaustive_parts.append("whole connections (real handle_client, real TCPLinesTransport + UDSClient.request_unsafe on the other end, "
                                "virtual time): per exchange the line written, the client's verdict, session / security state, "
                                "last_time_active, loop alive, both stream buffers; at the end the peer closes (epilogue observed); "
                                "16 kinds of foreign lines (case, surrounding whitespace, empty, odd length, non-hex, non-ASCII); connections "
                                "of suppressed requests only; requests of 2049..4095 bytes on a reader with the limit run() passes to "
                                "asyncio.start_server (run() is called with start_server replaced by a recorder)")


def replay_conn(ctx, c):
    env = F.make_env(0)
    real = F.Real(env, c["seed"], params_from_json(env, c.get("params", {})))
    script = c.get("script", [])
    idx, sig, spec, impl, model, obs, end = conn_compare(ctx, real, script)
    out = ctx.lean(CN.lean_lines(real, obs, end.get("limit", 65536)))
    for i, (o, mo) in enumerate(zip(obs, out[2:])):
        print(f"event {i}: {o['op']} start={o['start']} stop={o['stop']} oracle [{o['orc'][:80]}]")
        print(f"   implementation: {o['impl'][:300]}")
        print(f"   model         : {CN.model_view(o, mo)[:300]}")
        if i == idx:
            print(f"   {'VIOLATES ' + sig[1] if spec else 'DIFFERS'} {sig}")
    print("peer closes   :", end["impl"])
    print("model         :", out[-1])
    if idx is not None and idx >= len(obs):
        print(f"   {'VIOLATES ' + sig[1] if spec else 'DIFFERS'} {sig}")
    print("DISAGREE" if idx is not None else "agree")
    return idx is not None


def run(ctx):
    # the session / security state machine over whole histories, exhaustively over a small alphabet of request kinds, with
    # both clock reads of handle_request (harness/secsm.py); first, because it installs its own clock and the main part
    # re-installs its own below
    secsm.explore(ctx, "c14")
    env = F.make_env(ctx.seed)
    rn = Runner(ctx, env)
    try:
        _run(ctx, env, rn)
        rn.flush()
    finally:
        rn.finish()


def search(ctx):
    """failing-input search: a second pass with a fresh seed; thorough sizes in the thorough tier, quick sizes plus the
    targeted parts (seed/key dialogues and constructor requests in every session of every model) in the quick tier"""
    if ctx.quick:
        ctx.widened = False
        ctx.c14_targeted = True
    run(ctx)


def _run(ctx, env, rn):
    rng = ctx.rng
    targeted = getattr(ctx, "c14_targeted", False)
    ctx.rule = ("requests handled by a real RandomUDSServer inside a history; distinct = distinct (model, state before, idle, "
                "request bytes, recorded oracle); non-trivial = the request has >= 2 bytes or its service is offered by the ECU")
    reals = []
    for seed, params in model_configs(ctx, env, rng):
        try:
            reals.append(F.Real(env, seed, params))
        except Exception as e:  # noqa: BLE001
            ctx.disagree(f"c14:randomize-raised:{type(e).__name__}", f"RandomUDSServer.randomize raised {e!r}",
                         {"seed": seed, "params": params_json(params)}, spec_violated=False, site="RandomUDSServer.randomize")
    rn.model_check(reals)
    ctx.notes["models"] = len(reals)
    ctx.notes["model_sessions"] = [len(r.server.services) for r in reals]
    names = concrete_request_classes(env)
    covered = set(ctor_makers(rng, reals[0]).keys())
    ctx.ev()
    if set(names) - covered:
        ctx.disagree("c14:generator-misses-request-class:" + ",".join(sorted(set(names) - covered)),
                     "gallia has request classes the structured generator does not build: " + ", ".join(sorted(set(names) - covered)),
                     {"classes": sorted(set(names) - covered)}, spec_violated=False, site="harness/props/C14.py ctor_makers")
    names = sorted(covered & set(names))

    # 0. whole connections with the real client on the other end against Model/VEcuConn.lean (first: independent of the parts below)
    run_connections(ctx, rn, reals, names)

    # 0b. rare-draw search over hundreds of models (harness/c14_rare.py)
    RD.run(ctx, rn, env, session_paths, params_json)

    # 1. random histories up to N requests (mixed: random bytes, sid + payload, session changes, seed/key dialogues,
    #    known services, constructor requests; idle gaps around the 10 s inactivity limit)
    n_hist = ctx.pick(5, 24)
    N = ctx.pick(60, 200)
    for real in reals:
        makers = ctor_makers(rng, real)
        for hno in range(n_hist):
            real.fresh()
            items = []
            reached = rn.reached.setdefault(id(real), {INIT: []})
            state = INIT
            stop = False
            target = N if hno % 2 == 0 else rng.randint(5, N)
            while len(items) < target and not stop:
                new, label = random_items(rng, real, makers, names, state)
                for it in new:
                    items.append(it)
                    o = rn.step(real, items, len(items) - 1, "history:" + label)
                    state = o["post"]
                    if o["exc"] is None and o["session_ok"] and state not in reached and len(reached) < 96:
                        reached[state] = list(items)
                    if o["pre"][0] != o["post"][0]:
                        ctx.kind("event:session-changed")
                    if o["post"][1] is not None and o["post"][1] != o["pre"][1]:
                        ctx.kind("event:unlocked")
                    if o["dt"] > 40 and o["pre"] != INIT:
                        ctx.kind("event:inactivity-reset-of-non-initial-state")
                    if o["reply"] is None and o["exc"] is None and o["post"] != o["pre"]:
                        ctx.kind("event:suppressed-positive-with-state-change")
                    if o["exc"] is not None or not o["session_ok"]:
                        stop = True
                        break
            ctx.traces_validated += 1
            ctx.kind("history-length:" + ("<=20" if len(items) <= 20 else "<=60" if len(items) <= 60 else "<=120" if len(items) <= 120 else "<=204"))
        rn.flush()

    # 2. every offered session of every model: enter it by session control, then the same requests - one of every
    #    request class from gallia's constructors, the seed/key dialogues of that session, the session identifier read
    per_session = ctx.pick(1, 3)
    for real in reals:
        makers = ctor_makers(rng, real)
        paths = session_paths(real)
        sess_list = sorted(paths)
        if ctx.quick and not targeted and len(sess_list) > 6:
            sess_list = [1] + rng.sample([s for s in sess_list if s != 1], 5)
        for sess in sess_list:
            path = paths[sess]
            body = []
            for _ in range(per_session):
                for name in names:
                    it = ctor_item(rng, makers, name)
                    if it is not None:
                        body.append(it)
            body += [{"adv": 1, "pdu": "22f186"}, {"adv": 1, "pdu": "22f186f190", "ctor": "ReadDataByIdentifierRequest"},
                     {"adv": 1, "pdu": "22f190f186"}, {"adv": 1, "pdu": "3e00"}, {"adv": 1, "pdu": "3e80"}]
            # requests that change the state are followed by the way back
            items = list(path)
            for it in body:
                items.append(it)
                p = it["pdu"]
                if p[:2] in ("10", "11"):
                    items += [{"adv": 1, "pdu": "1001"}] + path
            rn.history(real, items, "session-walk")
            for script in seed_key_scripts(real, sess):
                rn.history(real, list(path) + script, "seed-key-script")
        rn.flush()

    # 3. boundary lengths
    for real in reals[: ctx.pick(4, 12)]:
        sts = list(rn.reached.get(id(real), {INIT: []}).items())
        for st, prefix in [sts[0]] + ([rng.choice(sts)] if len(sts) > 1 else []):
            items = boundary_items(rng, real)
            for i in range(len(items)):
                rn.step(real, [items[i]], 0, "boundary-length", force_pre=st, prefix=prefix)
        rn.flush()

    # 4. exhaustive short requests from reached states: every service id alone, with every second byte, and with
    #    2..8 payload bytes; all 256 sub-function bytes of every sub-function service with well-formed tails
    def pick_states(real, k):
        sts = rn.reached.get(id(real), {INIT: []})
        chosen = [INIT]
        classes = {}
        for st in sts:
            if st != INIT:
                classes.setdefault((st[2] is not None, st[1] is not None, st[0] != 1), []).append(st)
        order = sorted(classes, key=lambda c: (-sum(c), c))
        while len(chosen) < k and any(classes.values()):
            for c in order:
                if classes[c] and len(chosen) < k:
                    chosen.append(classes[c].pop(rng.randrange(len(classes[c]))))
        return [(st, sts[st]) for st in chosen]

    def sweep(real, st, prefix, pdu, label):
        rn.step(real, [{"adv": 1, "pdu": pdu.hex()}], 0, label, force_pre=st, prefix=prefix)

    n_full = ctx.pick(1, 5)
    full_states = ctx.pick(2, 3)
    per_len = ctx.pick(1, 6)
    for mi, real in enumerate(reals):
        known = {int(k) for d in real.server.services.values() for k in d}
        for si, (st, prefix) in enumerate(pick_states(real, full_states if mi < n_full else 2)):
            for sid in range(256):
                sweep(real, st, prefix, bytes([sid]), "sweep:sid+0")
            second = range(256) if mi < n_full else sorted(known | set(SUBFN) | {rng.randrange(256) for _ in range(4)})
            for sid in second:
                for b in range(256):
                    sweep(real, st, prefix, bytes([sid, b]), "sweep:sid+1")
            for sid in range(256):
                for n in range(2, 9):
                    for _ in range(per_len if (sid in known or sid in SUBFN) else 1):
                        sweep(real, st, prefix, bytes([sid]) + smart_payload(rng, real, sid, n), f"sweep:sid+{n}")
            for sid in SUBFN:
                for sf in range(256):
                    for tail in subfn_tails(rng, sid):
                        if tail:
                            sweep(real, st, prefix, bytes([sid, sf]) + tail, "sweep:all-sub-functions+tail")
            rn.flush()
    ctx.exhaustive_parts.append(f"every service id alone (256) and with every second byte (65536) on the first {n_full} model(s) x up to "
                                f"{full_states} reached states; on the other models every service id alone and all 256 second bytes "
                                "for every offered and every sub-function service, in up to 2 reached states")
    ctx.exhaustive_parts.append("all 256 sub-function bytes of the 9 sub-function services with every well-formed tail shape, per model "
                                "and state; every service id with 2..8 payload bytes (sampled payloads, listed sub-functions first)")

    # 5. the same histories through the connection loop: the connection must survive, every reply line must be accepted
    loop = asyncio.new_event_loop()
    try:
        for real in reals[: ctx.pick(6, 40)]:
            makers = ctor_makers(rng, real)
            for _ in range(ctx.pick(2, 6)):
                items = []
                state = INIT
                while len(items) < ctx.pick(50, 200):
                    new, _label = random_items(rng, real, makers, names, state)
                    items += new
                alive, dropped_at, replies, caught = loop.run_until_complete(F.drive_client_loop(real, items))
                ctx.ev(len(replies))
                ctx.kind("handle_client:history")
                ctx.traces_validated += 1
                bad_reply = None
                real.last_reply = None
                for i, (it, rep) in enumerate(zip(items, replies)):
                    if rep is None:
                        continue
                    # key items were resolved against the replies of this run
                    real.last_reply = replies[i - 1] if i > 0 else None
                    pdu = real.pdu_of(it)
                    if real.client(rep, pdu, it.get("ctor")) != "accepted":
                        bad_reply = i
                        break
                if dropped_at is not None or not alive:
                    k = dropped_at if dropped_at is not None else len(items) - 1
                    real.last_reply = replies[k - 1] if k > 0 and k - 1 < len(replies) else None
                    sig = ("raises", "?", "?")
                    rn.viol.setdefault("dropped-connection:" + (caught[0][:60] if caught else "?"),
                                       ((k + 1, 0), real, items[: k + 1], sig, "connection dropped: " + "; ".join(caught[:1])))
                elif bad_reply is not None:
                    ctx.kind("handle_client:refused-reply")
                    rn.history(real, items[: bad_reply + 1], "handle_client-refused-reply")
        rn.flush()
    finally:
        loop.close()
    # dropped connections are re-run through handle_request to name the exception (same history, same seeds)
    for prov in [p for p in rn.viol if p.startswith("dropped-connection:")]:
        _, real, items, _sig, impl = rn.viol.pop(prov)
        obs = rn.history(real, items, "handle_client-dropped")
        if not any(F.clauses_broken(o) for o in obs):
            ctx.disagree("c14:dropped-connection:" + prov.split(":", 1)[1], "TCPUDSServerTransport.handle_client dropped the connection "
                         f"during a history that handle_request survives: {impl}", rn.case_of(real, items), impl=impl,
                         model="connection stays open", spec_violated=True, site="TCPUDSServerTransport.handle_client")
    rn.flush()
    if reals:
        ctx.sample({"model": reals[0].spec[:300], "example": "sreq 1 none none 1 22f190 1 0 3 aabb 0 -"})


def replay(ctx, case):
    c = case.get("case", case)
    if c.get("kind") == "history":
        return secsm.replay(ctx, c, "c14")
    if c.get("kind") == "conn":
        return replay_conn(ctx, c)
    env = F.make_env(0)
    real = F.Real(env, c["seed"], params_from_json(env, c.get("params", {})))
    items = c.get("history", [])
    real.fresh()
    lines = ["model " + real.spec]
    obs = []
    for it in items:
        o = real.step(it)
        obs.append(o)
        lines.append(real.lean_line(o))
        if o["exc"] is not None:
            break
    out = ctx.lean(lines)
    print("model flags  :", out[0])
    bad = False
    for o, mo in zip(obs, out[1:]):
        model = mo.rsplit(" ready=", 1)[0]
        broken = F.clauses_broken(o)
        flag = "VIOLATES " + ",".join(c for c, _ in broken) if broken else ("DIFFERS" if model != o["impl"] else "agree")
        bad = bad or bool(broken) or model != o["impl"]
        p = hx(o["pdu"])
        print(f"request {p if len(p) <= 60 else p[:56] + '..'} [{req_label(o)}] state {o['pre']} dt {o['dt']} oracle [{o['orc'][:80]}]")
        print(f"   implementation: {o['impl'][:300]}" + (f"   ({o['exc']})" if o["exc"] else ""))
        print(f"   model         : {mo[:300]}")
        print(f"   {flag}")
    try:
        alive, dropped_at, _r, caught = asyncio.new_event_loop().run_until_complete(F.drive_client_loop(real, items))
        print(f"handle_client: connection alive after the history: {alive}" + (f", dropped at request {dropped_at}: {caught[:1]}" if dropped_at is not None else ""))
        bad = bad or not alive
    except Exception as e:  # noqa: BLE001
        print("handle_client could not be driven:", repr(e))
    print("DISAGREE" if bad else "agree")
    return bad


MANIFEST = {
    "level_text": ("Lean 4 theorems over the typed virtual ECU (Model/VEcu.lean): C13's rule chain with every default behaviour "
                   "on, the handlers of RandomUDSServer.respond_after_default over C01's parser model, typed C02 responses, all "
                   "random decisions a per-request oracle. For every ECU model, state whose session is offered, non-empty "
                   "request and oracle: the reply (if any) is accepted by C03's client model parsePdu as the answer to every "
                   "request object with those bytes, decodes and re-encodes to itself; after any history of non-empty "
                   "requests at any times (inactivity resets included, a different oracle per request) the session is still "
                   "offered and no request hits an assert or index error; every model RandomUDSServer.randomize can build "
                   "(all draw streams) satisfies the hypotheses; the same over histories with both clock reads of handle_request "
                   "(history_reply_accepted_clock); every negative response a handler can return names the request's "
                   "service, carries one of five codes, has a class in the regenerated exception map and is accepted by the "
                   "client (handler_negatives_accepted); no handler reply exceeds 4095 bytes within the stated draw bounds "
                   "(reply_length_bounds); a reportDTCByStatusMask call whose RNG draws one DTC twice is answered positively with the "
                   "merged, pairwise distinct record list (duplicate_dtc_draw_answered). Handler shape (dispatch ladder, NRCs, response classes, "
                   "draws) regenerated from the AST of server.py on every run. Tied to the code by a correspondence run of "
                   "the real RandomUDSServer behind UDSServerTransport.handle_request / TCPUDSServerTransport.handle_client "
                   "with recorded RNG draws and the real helpers.parse_pdu on every reply, incl. all request sequences over 10 / 12 "
                   "request kinds of the security state machine up to length 5 / 3 (6 / 5 thorough) with scripted start / end "
                   "clock reads, compared state by state and reply by reply (harness/secsm.py). "
                   "Whole connections (Model/VEcuConn.lean): TCPUDSServerTransport.handle_client - readline, ASCII decode + strip, "
                   "unhexlify, handle_request, reply line or nothing, the except arm, both breaks, the division after the loop - "
                   "composed with the vECU model on one side and C19's line layer + parsePdu on the other. For every ModelOK model "
                   "(every model randomize() builds), every oracle, every event history: the loop has ended iff the history contains "
                   "end of stream, a line longer than the reader's limit, a line that is not even-length ASCII hex, or an empty "
                   "request, and the recorded cause is that of "
                   "the first such event (conn_end_exact) - so after any history of non-empty requests it is still serving, has "
                   "counted every one of them and the session is offered (conn_never_ends, conn_served_all); what it writes per "
                   "request is nothing or exactly hexlify(reply) + newline - lower-case hex, no inner newline - which the client's "
                   "read() decodes back to the reply bytes leaving exactly what followed (conn_reply_line_wellformed); one "
                   "client.request between quiet points returns the decoded reply of that very request, accepted for every request "
                   "object with those bytes, or times out having consumed nothing because that very reply was suppressed, and "
                   "leaves both streams empty (conn_exchange_accepted); hence after any history - in particular after a suppressed "
                   "reply - nothing is left that a later request could take for its answer (conn_history_quiet, "
                   "conn_no_stale_after_suppress); the exchange view and the event view are the same loop "
                   "(conn_exchanges_are_events). Tied by whole connections against the real handle_client with the real "
                   "TCPLinesTransport + UDSClient.request_unsafe on the other end under virtual time: per exchange the bytes "
                   "written, the client's verdict and returned PDU, session / security state, last_time_active, loop alive, both "
                   "stream buffers; foreign lines of 16 kinds; the peer's close and the loop's epilogue."),
    "level_note": ("Partial: \"neither raises nor drops the connection\" is a statement about Python exceptions; the model has "
                   "the chain's own three exception sites (proved unreachable) and the connection loop's exceptions (decode, unhexlify, "
                   "whatever handle_request raises, the division after the loop; what ends the loop is proved exactly) as outcomes; "
                   "every other exception inside a handler or a response's pdu property is "
                   "excluded by the correspondence run only (random histories up to N = 200, all one- and two-byte requests, "
                   "all sub-function bytes, every request class, seed/key dialogues, every session, boundary lengths, "
                   "handle_client on in-memory streams; rare-draw search: direct handler calls over hundreds of models x sessions x all "
                   "256 status masks / reset types / sampled identifiers, hit table in the evidence distribution under "
                   "rare-draw:stage1:*). Trusted: Lean kernel (propext, Quot.sound, Classical.choice), the "
                   "translators gen/c13_chain.py and gen/c14_handlers.py, the harness incl. its RNG recorder and in-memory stream pair. Modelled rather "
                   "than verified: all Python code; request parsing, response parsing and the client's matcher are the C01 / "
                   "C02 / C03 models (tied to gallia by those properties and re-checked here through the outputs); the "
                   "random number generator is an oracle; asyncio streams by contract; one connection at a time."),
    "technique": "Lean 4 proof (composition of the C13 chain, C01/C02 codecs and C03 matcher models; case analysis over request kinds; induction over histories and over connection event sequences; invariant of the composed client / loop / vECU system; refinement of C16's randomize model to the hypotheses) + regenerated tables + differential correspondence with recorded randomness against the real virtual ECU and the real client-side acceptance test",
    "design_ref": "DESIGN.md section 7, C14",
}
