"""C17 - penlog writer / reader: the real gallia logger -> _ZstdFileHandler -> file -> PenlogReader and the `hr` entry
point, against Model/Penlog.lean (the oracle: the same records, the corresponding slice, each once, in order).

Two ties per case (a sequence of log calls):
  (W) every line the real handler wrote equals the model's `writeLine` of the logged record, byte for byte;
  (R) every navigation mode x priority threshold x container x prefix variant on the real reader (fresh and
      reused) and on `hr` yields exactly the logged records at the indices the model's `select` gives, compared
      field by field (text, priority, tags, timestamp, module, host, line, level).
"""
from __future__ import annotations

import contextlib
import datetime
import gzip
import hashlib
import io
import itertools
import json
import logging
import os
import shutil
import socket
import subprocess
import sys
import tempfile
import time
from pathlib import Path

from common import PY, REPO, setup_repo_import
from lib import c17ext

ID = "C17"
GENS = ["c17_levels", "c17_hr"]
PROOF = "Gallia.Proofs.C17"
DRIVER = "c17"
ORACLE = True
ASSUMPTIONS = [
    "json.dumps / json.loads, zstandard, gzip, mmap / tempfile (identity on bytes), datetime.fromtimestamp (epoch -> civil fields) and the "
    "logging machinery up to the LogRecord are represented by their contracts; the json string escaper / scanner contract is itself tied "
    "(esc / unesc against json); in the hr model json.loads, zstandard and gzip are functions of an environment: the theorems assume "
    "their round-trip contracts (Env.LoadsOk, Env.Decodes, shown satisfiable), and for foreign / damaged input the harness hands the "
    "model what the same library calls return",
    "datetime.isoformat is modelled exactly; datetime.fromisoformat is a port of CPython 3.12's C algorithm for extended-format calendar "
    "dates (YYYY-MM-DD...), tied in both directions on ~5k strings per run; basic-format and week dates and UTC offsets with a fraction "
    "are outside the model (counted as outside-model, never compared)",
    "argparse is modelled as the interpreter under /venv (CPython 3.12.1) behaves for the parser hr.parse_args() builds (its option table, "
    "defaults, choices and exclusive group are regenerated): exact and abbreviated long options, --opt=value, attached short values, "
    "clusters of short flags, --, negative numbers as arguments, only the first run of positionals; an explicit value `--` (-p=--) and "
    "non-ASCII digits / whitespace in -n / -p values are outside the model",
    "text is valid Unicode (scalar values); lone surrogates are exercised for the tie only, never adjacent high+low",
    "offset k (reader API, forward and with reverse=True) is exercised for valid record indices (-len <= k < len, and 0 on an empty log); hr --head / --tail also with a "
    "negative -n (ValueError / IndexError, exit 1, as the code does)",
    "tags are lists of str (or absent) on the writer side; on the reader side any JSON value whose effect on str(record) is determined "
    "(null, string, list of strings, numbers, booleans); nested arrays / objects / non-integral floats where a member is interpreted are "
    "outside the model (counted as outside-model); the file is read after the handler was closed",
    "writer level gates: every run goes through setup_logging(level, logger_name = root or 'gallia') and add_zst_log_handler('gallia', ..., "
    "file_log_level) in a fresh process with GALLIA_LOGLEVEL unset (level=None then means DEBUG) and logging.disable untouched; records are "
    "logged on 'gallia' and its descendants (loggers created by get_logger stay at NOTSET); Logger.isEnabledFor / getEffectiveLevel / "
    "QueueHandler / QueueListener(respect_handler_level) are represented by their contracts (Model/PenlogGate.lean); a logger level set by "
    "user code after setup_logging is outside the model",
    "standard input is a pipe (read once: a second `-` sees nothing); files the process may not read are not exercised (the check runs as "
    "root); hr's output is compared without colours (--color is parsed into the plan, ANSI styling is not modelled), month names as in "
    "the C locale",
]

# RFC 3164 style priorities of the seven levels (the oracle side of the level mapping)
ORACLE_PRIO = {5: 8, 10: 7, 20: 6, 25: 5, 30: 4, 40: 3, 50: 2}
METHOD_LEVEL = {"trace": 5, "debug": 10, "info": 20, "notice": 25, "warning": 30, "error": 40, "critical": 50,
                "result": 25, "exception": 40}
LEVEL_NAME = {5: "TRACE", 10: "DEBUG", 20: "INFO", 25: "NOTICE", 30: "WARNING", 40: "ERROR", 50: "CRITICAL"}
PRIO_NAMES = ["emergency", "alert", "critical", "error", "warning", "notice", "info", "debug", "trace"]
FIELDS = ("text", "priority", "tags", "timestamp", "module", "host", "line", "levelno", "levelname", "func")
LOGGER = "c17verif"


# ------------------------------------------------------------------------------------------------------------
# text generation (seeded; ctx.rng is the only source of randomness)

def _cp_scalar(rng):
    k = rng.random()
    if k < 0.35:
        return rng.randrange(0x20, 0x7F)
    if k < 0.50:
        return rng.choice([0x0A, 0x0D, 0x09, 0x08, 0x0C, 0x00, 0x1B, 0x7F, 0x22, 0x5C, 0x2F, 0x3C, 0x3E, 0x25, 0x7B, 0x7D,
                           0x85, 0x2028, 0x2029, 0x0B, 0x1C, 0x1F, 0x1E])
    if k < 0.60:
        return rng.randrange(0x80, 0x800)
    if k < 0.75:
        c = rng.randrange(0x800, 0x10000)
        return c if not 0xD800 <= c < 0xE000 else 0xFFFD
    if k < 0.80:
        return rng.choice([0xD7FF, 0xE000, 0xFFFE, 0xFFFF, 0x10000, 0x10FFFF, 0xFEFF, 0x1F600, 0x10001, 0xFFFD])
    return rng.randrange(0x10000, 0x110000)


def gen_text(rng, maxlen=40, kind=None):
    kind = kind or rng.choice(["ascii", "ascii", "mixed", "mixed", "mixed", "newlines", "inject", "empty", "ctrl",
                               "astral", "quotes", "percent", "prefixlike"])
    if kind == "empty":
        return ""
    if kind == "ascii":
        return "".join(chr(rng.randrange(0x20, 0x7F)) for _ in range(rng.randint(1, maxlen)))
    if kind == "newlines":
        return "".join(rng.choice(["\n", "\r\n", "a", "b ", "\r", "\n\n", " ", "\x85", "\x0b", "\x0c"])
                       for _ in range(rng.randint(1, maxlen)))
    if kind == "inject":  # tries to smuggle a second record / a prefix into the file
        return rng.choice(["x\n<3>{\"module\": \"evil\", \"data\": \"forged\"}\n", "\n<0>", "a\n{\"version\": 2}\nb",
                           "\\n", "\\u000a", "\"}\n", "</", "<8>", "\n"])
    if kind == "ctrl":
        return "".join(chr(rng.randrange(0, 0x20)) for _ in range(rng.randint(1, maxlen)))
    if kind == "astral":
        return "".join(chr(rng.randrange(0x10000, 0x110000)) for _ in range(rng.randint(1, maxlen)))
    if kind == "quotes":
        return "".join(rng.choice(['"', "\\", "/", "'", "\\\\", '\\"', "u", "\\u", "d83d", "{", "}", "[", "]", ",", ":"])
                       for _ in range(rng.randint(1, maxlen)))
    if kind == "percent":
        return rng.choice(["100%", "%s", "%d %s", "%(x)s", "%%", "{0} {}", "%"])
    if kind == "prefixlike":
        return rng.choice(["<6>", "<", ">", "<6>{", "<12345>", "<x>"]) + gen_text(rng, 5, "ascii")
    return "".join(chr(_cp_scalar(rng)) for _ in range(rng.randint(1, maxlen)))


def gen_call(rng, maxlen=40, long_ok=0):
    m = rng.choice(["trace", "debug", "info", "info", "notice", "warning", "error", "critical", "result", "exception"])
    text = gen_text(rng, maxlen)
    if long_ok and rng.random() < 0.15:
        text = gen_text(rng, long_ok, rng.choice(["ascii", "mixed", "astral", "newlines"]))
    call = {"m": m, "text": text, "tags": None, "exc": None, "created": None, "args": False}
    r = rng.random()
    if m != "result":
        if r < 0.15:
            call["tags"] = []
        elif r < 0.45:
            call["tags"] = [gen_text(rng, 8, rng.choice(["ascii", "mixed", "newlines", "empty", "quotes"]))
                            for _ in range(rng.randint(1, 3))]
    if m == "exception" or rng.random() < 0.08:
        call["exc"] = gen_text(rng, 12, rng.choice(["ascii", "mixed", "newlines"]))
    if rng.random() < 0.25:
        call["created"] = rng.choice([0.0, 1.0, 86400.0, 1e9, 1587648110.62031, 2 ** 31 - 1.0, 4102444800.0,
                                      float(rng.randrange(0, 2 ** 32)), rng.randrange(0, 2 ** 32) + rng.randrange(10 ** 6) / 10 ** 6,
                                      rng.randrange(0, 2 ** 32) + 0.999999, rng.randrange(0, 2 ** 32) + 0.000001])
    if rng.random() < 0.1 and "%" not in text:
        call["args"] = True
    if rng.random() < 0.1:
        call["child"] = True
    if rng.random() < 0.06:
        call["stack"] = True  # stack_info=True: the queue merges the formatted stack into the message
    if rng.random() < 0.06:  # a Python str with a lone surrogate (never a high directly followed by a low one)
        lone = chr(rng.choice([0xD800, 0xDBFF, 0xDC00, 0xDFFF, rng.randrange(0xD800, 0xE000)]))
        call["text"] = rng.choice([lone + "a" + call["text"], call["text"] + "a" + lone, lone, lone + "x" + lone])
    return call


def simple_calls(levels):
    return [{"m": {5: "trace", 10: "debug", 20: "info", 25: "notice", 30: "warning", 40: "error", 50: "critical"}[l],
             "text": f"m{i}", "tags": None, "exc": None, "created": 1600000000.0 + i, "args": False}
            for i, l in enumerate(levels)]


SHRINK_LEVELS = [20, 30, 10, 40, 5, 50, 25]


# ------------------------------------------------------------------------------------------------------------
# the real side

class _Capture(logging.Filter):
    """sees every LogRecord before the handlers; optionally pins the timestamp"""

    def __init__(self, plan, tz_of):
        super().__init__()
        self.plan = plan
        self.tz_of = tz_of
        self.i = 0
        self.out = []

    def filter(self, record):
        call = self.plan[self.i]
        self.i += 1
        if call["created"] is not None:
            record.created = call["created"]
        exc_text = logging.Formatter().formatException(record.exc_info) if record.exc_info else None
        self.out.append({"created": record.created, "line": f"{record.pathname}:{record.lineno}",
                         "func": record.funcName, "exc_text": exc_text, "levelname": record.levelname,
                         "attrs": c17ext.attrs_of(record, self.tz_of())})
        return True


def _tok(s):
    return "s" + ",".join(str(ord(c)) for c in s)


def _tags_tok(tags):
    if tags is None:
        return "n"
    return "t" + ";".join(_tok(t) for t in tags)


class Env:
    def __init__(self, ctx):
        setup_repo_import()
        import gallia.log as glog
        import gallia.cli.hr as hr

        self.ctx = ctx
        self.glog = glog
        self.hr = hr
        self.host = socket.gethostname()
        self.root = Path(tempfile.mkdtemp(prefix="c17-", dir=os.environ.get("VERIF_TMP") or None))
        self.n = 0

    @property
    def tz(self):
        """the zone the writer stamps records with (`gallia.log.tz`, fixed at import; the second layer varies it)"""
        return self.glog.tz

    def close(self):
        shutil.rmtree(self.root, ignore_errors=True)

    # -- writer ------------------------------------------------------------------------------------------
    def write_log(self, calls):
        """log `calls` through the real logger + _ZstdFileHandler; returns a Log"""
        glog = self.glog
        self.n += 1
        d = self.root / f"l{self.n}"
        d.mkdir()
        path = d / "T.json.zst"
        parent = glog.get_logger(LOGGER)
        parent.setLevel(1)
        parent.propagate = False
        cap = _Capture(calls, lambda: glog.tz)
        child = glog.get_logger(LOGGER + ".sub")
        logging.disable(logging.NOTSET)
        try:
            h = glog.add_zst_log_handler(LOGGER, path, glog.Loglevel.TRACE)
            h.queue_handler.addFilter(cap)  # sees every record before QueueHandler.prepare
            try:
                for c in calls:
                    lg = child if c.get("child") else parent
                    extra = {"tags": c["tags"]} if c["tags"] is not None else None
                    msg, args = (c["text"], ()) if not c["args"] else ("%s|%d", (c["text"], 7))
                    f = getattr(lg, c["m"])
                    if c["exc"] is not None:
                        try:
                            raise ValueError(c["exc"])
                        except ValueError:
                            if c["m"] == "exception":
                                f(msg, *args, extra=extra, stack_info=bool(c.get("stack")))
                            else:
                                f(msg, *args, exc_info=True, extra=extra, stack_info=bool(c.get("stack")))
                    elif c["m"] == "exception":
                        lg.error(msg, *args, extra=extra, stack_info=bool(c.get("stack")))
                    else:
                        f(msg, *args, extra=extra, stack_info=bool(c.get("stack")))
            finally:
                glog.remove_zst_log_handler(LOGGER, h)
        finally:
            logging.disable(logging.CRITICAL)
        expected = []
        for c, k in zip(calls, cap.out):
            text = c["text"] if not c["args"] else f"{c['text']}|7"
            if k["exc_text"] is not None:  # logging.Formatter.format contract
                text = text + ("" if text.endswith("\n") else "\n") + k["exc_text"]
            if k["attrs"]["stack"]:
                text = text + ("" if text.endswith("\n") else "\n") + k["attrs"]["stack"]
            lv = METHOD_LEVEL[c["m"]]
            expected.append({
                "text": text, "priority": ORACLE_PRIO[lv],
                "tags": ["result"] if c["m"] == "result" else c["tags"],
                "timestamp": datetime.datetime.fromtimestamp(k["created"], datetime.timezone.utc).isoformat(),
                "module": LOGGER + (".sub" if c.get("child") else ""), "host": self.host, "line": k["line"], "levelno": lv, "levelname": LEVEL_NAME[lv],
                "func": k["func"],
                "_iso": datetime.datetime.fromtimestamp(k["created"], self.tz).isoformat(),
                "_created": k["created"],
            })
        return Log(self, d, path, expected, len(cap.out), [k["attrs"] for k in cap.out])

    # -- model -------------------------------------------------------------------------------------------
    def model_lines(self, expected):
        lines = ["reset"]
        for e in expected:
            lines.append(" ".join(["rec", _tok(e["module"]), _tok(e["host"]), _tok(e["text"]), _tok(e["_iso"]), str(e["priority"]),
                                   _tags_tok(e["tags"]), _tok(e["line"]), "n", str(e["levelno"]), _tok(e["levelname"]),
                                   _tok(e["func"])]))
        return lines


class Log:
    def __init__(self, env, d, zst_path, expected, n_seen, attrs=None):
        import zstandard

        self.env = env
        self.dir = d
        self.expected = expected
        self.n_seen = n_seen
        self.attrs = attrs or []  # what _JSONFormatter.format reads from every LogRecord (the model's LogRec)
        with open(zst_path, "rb") as f:
            self.raw = {1: zstandard.ZstdDecompressor().stream_reader(f).read()}
        lines = self.raw[1].split(b"\n")
        self.tail_garbage = lines[-1]
        self.lines = lines[:-1]
        self.raw[0] = b"".join((l[l.index(b">") + 1:] if l.startswith(b"<") and b">" in l else l) + b"\n" for l in self.lines)
        self._paths = {(1, "zst"): zst_path}

    def path(self, pfx, container):
        import zstandard

        key = (pfx, container)
        if key not in self._paths:
            name = "T" if pfx else "F"
            if container == "plain":
                p = self.dir / f"{name}.json"
                p.write_bytes(self.raw[pfx])
            elif container == "gz":
                p = self.dir / f"{name}.json.gz"
                with gzip.open(p, "wb") as f:
                    f.write(self.raw[pfx])
            elif container == "zst":
                p = self.dir / f"{name}.json.zst"
                p.write_bytes(zstandard.ZstdCompressor().compress(self.raw[pfx]))
            else:
                raise ValueError(container)
            self._paths[key] = p
        return self._paths[key]


def canon_record(r):
    text = r.data if r.stacktrace is None else r.data + "\n" + r.stacktrace
    return {"text": text, "priority": int(r.priority), "tags": r.tags,
            "timestamp": r.datetime.astimezone(datetime.timezone.utc).isoformat(), "module": r.module, "host": r.host,
            "line": r.line, "levelno": r._python_level_no, "levelname": r._python_level_name, "func": r._python_func_name}


def pub(e):
    return {k: e[k] for k in FIELDS}


def _consume(it, cap):
    out = []
    for r in it:
        out.append(canon_record(r))
        if len(out) > cap:
            return "runaway"
    return out


def api_op(glog, reader, op, cap):
    """one navigation call on a reader, made the way `hr` makes it"""
    try:
        if op[0] == "len":
            return len(reader)
        mode, arg, prio = op[0], op[1], op[2]
        P = glog.PenlogPriority(prio)
        if mode == "forward":
            it = reader.records(P)
        elif mode == "reverse":
            it = reader.records(P, reverse=True)
        elif mode == "offset":
            it = reader.records(P, offset=arg)
        elif mode == "revoffset":  # backwards from record `arg` down to the first record
            it = reader.records(P, offset=arg, reverse=True)
        elif mode == "head":
            it = itertools.islice(reader.records(P), arg)
        elif mode == "partial":  # a forward generator abandoned after `arg` records
            it = itertools.islice(reader.records(P), arg)
        else:
            raise ValueError(mode)
        return _consume(it, cap)
    except Exception as e:  # noqa: BLE001  - canonicalised: exception class only
        return f"raises-{type(e).__name__}"


def hr_inprocess(env, argv, cap):
    """gallia.cli.hr.main() in-process: returns (printed records | outcome string, stdout text)"""
    hr = env.hr
    recs = []
    text = io.StringIO()

    def fake_print(obj, end="\n"):
        recs.append(canon_record(obj))
        text.write(str(obj) + end)
        if len(recs) > cap:
            raise RuntimeError("runaway")

    old_argv = sys.argv
    sys.argv = ["hr", *argv]
    hr.print = fake_print
    err = io.StringIO()
    try:
        with contextlib.redirect_stderr(err), contextlib.redirect_stdout(io.StringIO()):
            try:
                hr.main()
                code = None
            except SystemExit as e:
                code = e.code
            except RuntimeError as e:
                if str(e) == "runaway":
                    return "runaway", ""
                return f"raises-{type(e).__name__}", ""
            except Exception as e:  # noqa: BLE001
                return f"raises-{type(e).__name__}", ""
    finally:
        sys.argv = old_argv
        del hr.print
    if code not in (0, None):
        return f"exit-{code}", ""
    return recs, text.getvalue()


def fmt_expected(env, e):
    """what `hr` prints for a record (PenlogRecord.__str__ without colours)"""
    dt = datetime.datetime.fromtimestamp(e["_created"], env.tz)
    s = dt.strftime("%b %d %H:%M:%S.%f")[:-3] + " " + e["module"]
    if e["tags"]:
        s += f" [{', '.join(e['tags'])}]"
    return s + ": " + e["text"] + "\n"


def signature(impl, oracle):
    if isinstance(impl, str):
        return impl
    if isinstance(oracle, int) or isinstance(impl, int):
        return "wrong-len"
    ci = [json.dumps(x, sort_keys=True) for x in impl]
    co = [json.dumps(x, sort_keys=True) for x in oracle]
    if sorted(ci) == sorted(co):
        return "wrong-order"
    if len(ci) == len(co):
        diff = set()
        for a, b in zip(impl, oracle):
            diff |= {k for k in FIELDS if a[k] != b[k]}
        if len(diff) == 1:
            return "field-differs-" + diff.pop()
    so = set(co)
    if all(x in so for x in ci):
        if len(ci) > len(co) or len(set(ci)) < len(ci) and len(set(co)) == len(co):
            return "duplicate-records"
        if len(ci) < len(co):
            return "missing-records"
    if len(ci) > len(co) and all(x in set(ci) for x in co):
        return "extra-records"
    return "wrong-records"


def mode_arg(mode, arg):
    return 0 if mode in ("forward", "reverse") else arg


# ------------------------------------------------------------------------------------------------------------
# evaluation of one case: (calls, plan) -> disagreements

def evaluate(env, calls, plan):
    """plan: list of probes
         ("api",   pfx, container, [op, ...])           ops on ONE reader, in order (fresh reader = one op)
         ("hr",    pfx, [container, ...], mode, arg, prio_arg)   in-process hr over one or more files
         ("stdin", pfx, mode, arg, prio_arg)            hr as a subprocess reading `-`
       returns (list of raw disagreement dicts, stats dict)"""
    ctx = env.ctx
    glog = env.glog
    log = env.write_log(calls)
    exp = log.expected
    n = len(exp)
    out = []
    stats = {"records": n, "probes": 0}

    # model: lines + every query the plan needs
    queries = {}
    lines = env.model_lines(exp)

    def q(pfx, mode, arg, prio):
        if mode == "partial":
            mode = "head"
        if mode == "revoffset":  # derived in `oracle` from the model's forward selection
            mode = "forward"
        k = (pfx, mode, mode_arg(mode, arg), prio)
        if k not in queries:
            queries[k] = len(lines)
            if mode == "offset" and arg < 0:
                lines.append(f"sel {pfx} tail {-arg} {prio}")  # offset -j = the last j lines
            else:
                lines.append(f"sel {pfx} {mode} {mode_arg(mode, arg)} {prio}")
        return k

    def prio_of(prio_arg):
        if prio_arg is None:
            return 6
        return int(prio_arg) if str(prio_arg).isdigit() else PRIO_NAMES.index(str(prio_arg).lower())

    for p in plan:
        if p[0] == "api":
            for op in p[3]:
                if op[0] != "len":
                    q(p[1], op[0], op[1], op[2])
        elif p[0] == "hr":
            q(p[1], p[3], p[4], prio_of(p[5]))
        else:
            q(p[1], p[2], p[3], prio_of(p[4]))
    len_at = {}
    for pfx in (0, 1):
        len_at[pfx] = len(lines)
        lines.append(f"len {pfx}")
    res = ctx.lean(lines)

    # (W) writer tie: the real file, line by line, against the model
    if log.n_seen != len(calls) or len(log.lines) != n or log.tail_garbage != b"":
        out.append({"layer": "writer", "mode": "file", "sig": "line-count", "probe": None,
                    "impl": {"lines": len(log.lines), "unterminated_tail": log.tail_garbage.hex()},
                    "oracle": {"lines": n}, "what": f"{len(calls)} records logged, {len(log.lines)} lines in the file"})
    nopfx_lines = log.raw[0].split(b"\n")
    for i, e in enumerate(exp):
        mt, mf = res[1 + i].split()
        real = log.lines[i] + b"\n" if i < len(log.lines) else b""
        if real.hex() != mt:
            model_b = bytes.fromhex(mt)
            j = next((k for k in range(min(len(real), len(model_b))) if real[k] != model_b[k]), min(len(real), len(model_b)))
            out.append({"layer": "writer", "mode": "line", "sig": "line-bytes-differ", "probe": {"record": i},
                        "impl": real[max(0, j - 40): j + 40].decode("ascii", "replace"),
                        "oracle": model_b[max(0, j - 40): j + 40].decode("ascii", "replace"),
                        "what": f"line {i} written by the handler differs from the oracle line at byte {j}", "tie_only": True})
            break
        nopfx = (nopfx_lines[i] + b"\n") if i < len(nopfx_lines) - 1 else b""
        if nopfx.hex() != mf:
            out.append({"layer": "writer", "mode": "line", "sig": "noprefix-line-differs", "probe": {"record": i},
                        "impl": nopfx[:80].decode("ascii", "replace"), "oracle": bytes.fromhex(mf)[:80].decode("ascii", "replace"),
                        "what": f"line {i} without its prefix differs from the oracle line", "tie_only": True})
            break
    for pfx in (0, 1):
        if int(res[len_at[pfx]]) != n:
            out.append({"layer": "model", "mode": "len", "sig": "model-len", "probe": {"pfx": pfx}, "impl": n,
                        "oracle": int(res[len_at[pfx]]), "what": "model offset table length differs from the record count",
                        "tie_only": True})

    def oracle(pfx, mode, arg, prio):
        if mode == "revoffset":  # reverse of the forward selection cut after record k (no model mode of its own)
            k = arg + n if arg < 0 else arg
            return [i for i in reversed(oracle(pfx, "forward", 0, prio)) if i <= k]
        r = res[queries[q(pfx, mode, arg, prio)]]
        idx_s, ok = r.split()
        idx = [] if idx_s == "-" else [int(x) for x in idx_s.split(",")]
        if ok != "ok":
            out.append({"layer": "model", "mode": mode, "sig": "model-parse", "probe": {"pfx": pfx, "arg": arg, "prio": prio},
                        "impl": None, "oracle": r, "what": "the model does not parse its own line back", "tie_only": True})
        return idx

    cap = 4 * n + 10
    for p in plan:
        stats["probes"] += 1
        if p[0] == "api":
            _, pfx, container, ops = p
            try:
                reader = glog.PenlogReader(log.path(pfx, container))
            except Exception as e:  # noqa: BLE001
                impl = f"raises-{type(e).__name__}"
                out.append({"layer": "api", "mode": "open", "sig": impl, "probe": {"pfx": pfx, "container": container, "ops": ops},
                            "impl": impl, "oracle": "a reader over %d records" % n, "n": n,
                            "what": f"PenlogReader({container}, {n} records) {impl}"})
                continue
            try:
                for k, op in enumerate(ops):
                    got = api_op(glog, reader, op, cap)
                    if op[0] == "len":
                        want = n
                    else:
                        idx = oracle(pfx, op[0], op[1], op[2])
                        want = [pub(exp[i]) for i in idx]
                    if got != want:
                        sig = signature(got, want)
                        hist = [o[0] for o in ops[:k]]
                        out.append({"layer": "api", "mode": op[0], "sig": sig, "n": n,
                                    "probe": {"pfx": pfx, "container": container, "ops": [list(o) for o in ops[: k + 1]]},
                                    "history": hist, "impl": _brief(got), "oracle": _brief(want),
                                    "what": f"reader.{_opstr(op)} on a {n}-record log ({container}, prefix={pfx}"
                                            + (f", after {hist}" if hist else "") + f"): {sig}"})
                        break
            finally:
                with contextlib.suppress(Exception):
                    reader.close()
        elif p[0] == "hr":
            _, pfx, containers, mode, arg, prio_arg = p
            idx = oracle(pfx, mode, arg, prio_of(prio_arg))
            want = [pub(exp[i]) for i in idx] * len(containers)
            want_text = "".join(fmt_expected(env, exp[i]) for i in idx) * len(containers)
            argv = _hr_argv(mode, arg, prio_arg) + [str(log.path(pfx, c)) for c in containers]
            got, text = hr_inprocess(env, argv, cap * len(containers))
            if got != want or (not isinstance(got, str) and text != want_text):
                sig = signature(got, want) if got != want else "format-differs"
                out.append({"layer": "hr", "mode": mode, "sig": sig, "n": n,
                            "probe": {"pfx": pfx, "containers": containers, "argv": argv[:-len(containers)], "arg": arg, "prio": prio_arg},
                            "impl": _brief(got) if got != want else text[:300], "oracle": _brief(want) if got != want else want_text[:300],
                            "what": f"hr {' '.join(argv[:-len(containers)])} on a {n}-record log ({'+'.join(containers)}, prefix={pfx}): {sig}"})
        else:
            _, pfx, mode, arg, prio_arg = p
            idx = oracle(pfx, mode, arg, prio_of(prio_arg))
            want_text = "".join(fmt_expected(env, exp[i]) for i in idx)
            argv = _hr_argv(mode, arg, prio_arg) + ["-"]
            pr = subprocess.run([PY, "-m", "gallia.cli.hr", *argv], input=log.raw[pfx], stdout=subprocess.PIPE, stderr=subprocess.PIPE,
                                env={**os.environ, "PYTHONPATH": str(REPO / "src"), "PYTHONUTF8": "1", "NO_COLOR": "1"}, timeout=120)
            got_text = pr.stdout.decode("utf-8", "replace")
            if pr.returncode != 0 or got_text != want_text:
                errl = pr.stderr.decode("utf-8", "replace").strip().split("\n")[-1][:200]
                sig = f"exit-{pr.returncode}" if pr.returncode != 0 else "output-differs"
                if pr.returncode != 0 and "Error" in errl:
                    sig = "raises-" + errl.split(":")[0].split(".")[-1]
                out.append({"layer": "hr-stdin", "mode": mode, "sig": sig, "n": n,
                            "probe": {"pfx": pfx, "argv": argv, "arg": arg, "prio": prio_arg},
                            "impl": {"exit": pr.returncode, "stdout": got_text[:300], "stderr": errl}, "oracle": want_text[:300],
                            "what": f"hr {' '.join(argv)} (stdin) on a {n}-record log (prefix={pfx}): {sig}"})
    shutil.rmtree(log.dir, ignore_errors=True)
    return out, stats


def _hr_argv(mode, arg, prio_arg):
    argv = [] if prio_arg is None else ["-p", str(prio_arg)]
    if mode == "reverse":
        argv += ["-r"]
    elif mode == "head":
        argv += ["--head", "-n", str(arg)]
    elif mode == "tail":
        argv += ["-t", "-n", str(arg)]
    elif mode != "forward":
        raise ValueError(mode)
    return argv


def _opstr(op):
    if op[0] == "len":
        return "__len__()"
    m, a, p = op
    return {"forward": f"records({p})", "reverse": f"records({p}, reverse=True)", "offset": f"records({p}, offset={a})", "revoffset": f"records({p}, offset={a}, reverse=True)",
            "head": f"islice(records({p}), {a})", "partial": f"islice(records({p}), {a})"}[m]


def _brief(x):
    if isinstance(x, list):
        return [f"{r['text'][:24]!r}@{r['timestamp']}/p{r['priority']}" if isinstance(r, dict) else r for r in x[:12]] + (
            [f"... {len(x)} records"] if len(x) > 12 else [])
    return x


# ------------------------------------------------------------------------------------------------------------
# shrinking + reporting

def _same(d, cls):
    return (d["layer"], d["mode"], d["sig"]) == cls


def _probe_variants(d, L, wide):
    """the probe of disagreement `d`, re-targeted at a log of L simple records: candidate (plan, descr) in fixed order.
    narrow pass: threshold 8, plain file; wide pass: also the original threshold / container"""
    layer, mode = d["layer"], d["mode"]
    pr = d["probe"] or {}
    p0 = _num_prio(d)
    prios = [8] + ([p0] if wide and p0 != 8 else [])
    pfxs = [1, 0] if pr.get("pfx", 1) == 1 else [0, 1]

    def clip(o):
        if o[0] == "len":
            return ("len",)
        if o[0] in ("offset", "revoffset"):
            return (o[0], max(-L, min(o[1], L - 1)) if L else 0, 8)
        return (o[0], min(o[1], L + 1), 8)

    if layer == "api":
        conts = ["plain"] + ([pr["container"]] if wide and pr.get("container", "plain") != "plain" else [])
        if mode == "open":
            for c in conts:
                for pfx in pfxs:
                    yield [("api", pfx, c, [("forward", 0, 8)])], {"len": L, "container": c, "pfx": pfx}
            return
        ops = [tuple(o) for o in pr["ops"]]
        last = ops[-1]
        hists = [[]]
        if len(ops) > 1:
            hists += [[clip(o)] for o in ops[:-1]] + ([[clip(o) for o in ops[:-1]]] if len(ops) > 2 else [])
        args = [0] if last[0] in ("forward", "reverse", "len") else (list(range(-L, L)) or [0]) if last[0] == "offset" else list(range(0, L + 3))
        for hist in hists:
            for a in args:
                for p in prios:
                    for c in conts:
                        for pfx in pfxs:
                            op = ("len",) if last[0] == "len" else (last[0], a, p)
                            yield [("api", pfx, c, hist + [op])], {"len": L, "arg": a, "prio": p, "container": c, "pfx": pfx,
                                                                   "after": [_opname(o) for o in hist]}
    elif layer == "hr":
        conts = [["plain"]] + ([pr["containers"]] if wide and pr.get("containers", ["plain"]) != ["plain"] else [])
        for a in ([0] if mode in ("forward", "reverse") else range(0, L + 3)):
            for p in prios + ([None] if wide and pr.get("prio") is None else []):
                for c in conts:
                    for pfx in pfxs:
                        yield [("hr", pfx, c, mode, a, p)], {"len": L, "arg": a, "prio": p, "containers": c, "pfx": pfx}
    elif layer == "hr-stdin":
        for a in ([0] if mode in ("forward", "reverse") else range(0, L + 3)):
            for pfx in pfxs:
                yield [("stdin", pfx, mode, a, 8)], {"len": L, "arg": a, "prio": 8, "pfx": pfx}


def _opname(o):
    return o[0] if o[0] in ("len", "forward", "reverse") else f"{o[0]}({o[1]})"


def _num_prio(d):
    pr = d["probe"] or {}
    if d["layer"] == "api" and pr.get("ops"):
        last = pr["ops"][-1]
        return last[2] if len(last) > 2 else 8
    p = pr.get("prio")
    if p is None:
        return 6
    return int(p) if str(p).isdigit() else PRIO_NAMES.index(str(p).lower())


def shrink(env, d, calls):
    """canonical smallest reproduction of disagreement class (layer, mode, sig): fixed order, simple records first"""
    cls = (d["layer"], d["mode"], d["sig"])
    if d["layer"] in ("api", "hr", "hr-stdin"):
        for wide in (False, True):
            budget = 300
            for L in range(0, 7):
                cs = simple_calls([SHRINK_LEVELS[i % 7] for i in range(L)])
                for plan, descr in _probe_variants(d, L, wide):
                    budget -= 1
                    if budget < 0:
                        break
                    ds, _ = evaluate(env, cs, plan)
                    hit = next((x for x in ds if _same(x, cls)), None)
                    if hit is not None:
                        key = f"{cls[0]}:{cls[1]}:{cls[2]}:" + ",".join(f"{k}={_kv(v)}" for k, v in descr.items())
                        return key, hit, {"calls": cs, "plan": plan}
    # content dependent: one record at a time, then one code point at a time
    probe_plan = _replan(d)
    for c in calls:
        ds, _ = evaluate(env, [c], probe_plan) if probe_plan is not None else ([], None)
        hit = next((x for x in ds if (x["layer"], x["sig"]) == (cls[0], cls[2])), None)
        if hit is None:
            continue
        base = {"m": c["m"], "text": "", "tags": None, "exc": None, "created": 1600000000.0, "args": False}
        for variant, label in _content_variants(c):
            ds2, _ = evaluate(env, [{**base, **variant}], probe_plan)
            hit2 = next((x for x in ds2 if (x["layer"], x["sig"]) == (cls[0], cls[2])), None)
            if hit2 is not None:
                return f"{cls[0]}:{cls[1]}:{cls[2]}:{label}", hit2, {"calls": [{**base, **variant}], "plan": probe_plan}
        return f"{cls[0]}:{cls[1]}:{cls[2]}:record={hashlib.sha256(json.dumps(c, sort_keys=True).encode()).hexdigest()[:10]}", hit, {
            "calls": [c], "plan": probe_plan}
    return f"{cls[0]}:{cls[1]}:{cls[2]}:unshrunk", d, {"calls": calls, "plan": probe_plan}


def _kv(v):
    if isinstance(v, list):
        return "+".join(str(x) for x in v) or "none"
    return str(v)


def _replan(d):
    pr = d["probe"] or {}
    if d["layer"] == "api" and "ops" in pr:
        return [("api", pr["pfx"], pr["container"], [("forward", 0, 8)])]
    if d["layer"] in ("writer", "model"):
        return [("api", 1, "plain", [("forward", 0, 8)])]
    if d["layer"] == "hr":
        return [("hr", pr["pfx"], ["plain"], "forward", 0, 8)]
    if d["layer"] == "hr-stdin":
        return [("stdin", pr["pfx"], "forward", 0, 8)]
    return [("api", 1, "plain", [("forward", 0, 8)])]


def _content_variants(c):
    def cls_of(ch):
        o = ord(ch)
        return f"U+{o:04X}"

    if c["created"] is not None:
        yield {"created": c["created"]}, f"created={c['created']!r}"
    else:
        yield {"created": 1600000000.123456, "text": "a"}, "timestamp-with-microseconds"
    if c["tags"] is not None:
        if c["tags"] == []:
            yield {"tags": []}, "tags=[]"
        for t in c["tags"]:
            for ch in sorted(set(t)):
                yield {"tags": [ch]}, f"tag-char={cls_of(ch)}"
            yield {"tags": [t]}, "tag=" + hashlib.sha256(t.encode("utf-8", "surrogatepass")).hexdigest()[:8]
        yield {"tags": ["t"]}, "tags-present"
    if c["exc"] is not None:
        yield {"exc": "e", "m": c["m"]}, "exception-trace"
    if c["args"]:
        yield {"args": True, "text": "a"}, "args"
    if c["m"] == "result":
        yield {"m": "result", "text": "a"}, "result"
    for ch in sorted(set(c["text"])):
        yield {"text": ch}, f"text-char={cls_of(ch)}"
    for a, b in sorted(set(zip(c["text"], c["text"][1:]))):
        yield {"text": a + b}, f"text-pair={cls_of(a)}+{cls_of(b)}"
    if c["text"] == "":
        yield {"text": ""}, "text-empty"
    if len(c["text"]) > 1000:
        yield {"text": "a" * len(c["text"])}, f"text-length>={10 ** (len(str(len(c['text']))) - 1)}"
    yield {"text": "a"}, f"method={c['m']}"


def report(env, ctx, raw_disagreements, calls):
    for d in raw_disagreements:
        cls = (d["layer"], d["mode"], d["sig"])
        if cls in env_seen(env):
            continue
        env_seen(env).add(cls)
        tie_only = d.get("tie_only", False)
        try:
            key, hit, case = shrink(env, d, calls)
        except Exception as e:  # noqa: BLE001
            key, hit, case = f"{cls[0]}:{cls[1]}:{cls[2]}:unshrunk", d, {"calls": calls, "plan": _replan(d), "shrink_error": repr(e)}
        ctx.disagree(key, hit["what"], {"calls": case["calls"], "plan": _jsonable(case["plan"]), "first_seen": {"what": d["what"], "probe": d["probe"]}},
                     impl=hit["impl"], model=hit["oracle"], spec_violated=not tie_only,
                     site={"api": "PenlogReader.records / _parse_file_structure / seek_to_*", "hr": "gallia.cli.hr._main",
                           "hr-stdin": "gallia.cli.hr.main (stdin)", "writer": "_JSONFormatter.format / _ZstdFileHandler.emit",
                           "model": "Model/Penlog.lean"}.get(d["layer"], d["layer"]))


def env_seen(env):
    if not hasattr(env, "_seen"):
        env._seen = set()
    return env._seen


def _jsonable(plan):
    return json.loads(json.dumps(plan))


def _plan_from_json(plan):
    out = []
    for p in plan:
        if p[0] == "api":
            out.append(("api", p[1], p[2], [tuple(o) for o in p[3]]))
        else:
            out.append(tuple(p))
    return out


# ------------------------------------------------------------------------------------------------------------
# plans

THRESHOLDS = list(range(9))


def full_plan(n, containers, rng=None, hr_every=1):
    """every mode x every argument 0..n+2 x every threshold x prefix variants, fresh reader each; the container rotates"""
    plan = []
    k = 0
    for pfx in (1, 0):
        for prio in THRESHOLDS:
            probes = [("forward", 0), ("reverse", 0)]
            probes += [("offset", a) for a in (range(-n, n) if n else [0])]
            probes += [("revoffset", a) for a in range(-n, n)]
            probes += [("head", a) for a in range(0, n + 3)]
            for mode, a in probes:
                plan.append(("api", pfx, containers[k % len(containers)], [(mode, a, prio)]))
                k += 1
            for mode, a in [("forward", 0), ("reverse", 0)] + [("head", a) for a in range(0, n + 3)] + [("tail", a) for a in range(0, n + 3)]:
                if k % hr_every == 0:
                    plan.append(("hr", pfx, [containers[k % len(containers)]], mode, a, rng.choice([prio, str(prio), PRIO_NAMES[prio], PRIO_NAMES[prio].upper()]) if rng else prio))
                k += 1
        plan.append(("api", pfx, containers[k % len(containers)], [("len",)]))
    return plan


def sampled_plan(rng, n, containers, k_api, k_reuse, k_hr):
    def arg_for(mode):
        if mode == "offset":
            return rng.randrange(-n, n) if n else 0
        if mode in ("head", "tail", "partial"):
            return rng.choice([0, 1, 2, max(n - 1, 0), n, n + 1, n + 7, 100, rng.randint(0, n + 2)])
        return 0

    def rand_op(modes):
        m = rng.choice(modes)
        return ("len",) if m == "len" else (m, arg_for(m), rng.choice(THRESHOLDS + [8, 8, 6]))

    plan = []
    for _ in range(k_api):
        plan.append(("api", rng.choice([0, 1]), rng.choice(containers), [rand_op(["forward", "reverse", "offset", "head"])]))
    for _ in range(k_reuse):
        ops = [rand_op(["forward", "reverse", "offset", "head", "partial", "len", "reverse", "len"]) for _ in range(rng.randint(2, 5))]
        plan.append(("api", rng.choice([0, 1]), rng.choice(containers), ops))
    for _ in range(k_hr):
        m = rng.choice(["forward", "reverse", "head", "tail", "tail"])
        p = rng.choice(THRESHOLDS + [None])
        if p is not None:
            p = rng.choice([p, PRIO_NAMES[p], PRIO_NAMES[p].capitalize()])
        files = [rng.choice(containers)] if rng.random() < 0.85 else [rng.choice(containers), rng.choice(containers)]
        plan.append(("hr", rng.choice([0, 1]), files, m, arg_for(m), p))
    return plan


def reuse_plan(n, container):
    """one reader reused: every ordered pair of operations (incl. len) at threshold 8"""
    base = [("forward", 0, 8), ("reverse", 0, 8), ("offset", max(n - 1, 0), 8), ("offset", -n if n else 0, 8), ("head", 1, 8), ("partial", 1, 8), ("len",)]
    plan = []
    for pfx in (1, 0):
        for a in base:
            for b in base:
                plan.append(("api", pfx, container, [a, b]))
        plan.append(("api", pfx, container, [("reverse", 0, 8), ("len",), ("forward", 0, 5), ("reverse", 0, 3), ("len",)]))
    return plan


# ------------------------------------------------------------------------------------------------------------
# parts

def part_levels(env, ctx):
    glog = env.glog
    lines = [f"lvl {l}" for l in range(64)] + [f"tolvl {p}" for p in range(10)]
    res = ctx.lean(lines)
    for l in range(64):
        try:
            impl = int(glog.PenlogPriority.from_level(l).value)
        except ValueError:
            impl = None
        want = ORACLE_PRIO.get(l)
        ctx.ev()
        ctx.kind("levels:from_level")
        model = None if res[l] == "none" else int(res[l])
        if model != want:
            ctx.disagree(f"levels:model-from_level:{l}", "model level table differs from the oracle table", {"level": l}, impl=impl, model=model, spec_violated=False)
        if impl != want:
            ctx.disagree(f"levels:from_level:{l}", f"PenlogPriority.from_level({l}) = {impl}, expected {want}", {"level": l},
                         impl=impl, model=want, spec_violated=True, site="PenlogPriority.from_level")
    inv = {v: k for k, v in ORACLE_PRIO.items()}
    for p in range(10):
        try:
            impl = int(glog.PenlogPriority(p).to_level().value)
        except ValueError:
            impl = None
        want = inv.get(p)
        model = None if res[64 + p] == "none" else int(res[64 + p])
        ctx.ev()
        ctx.kind("levels:to_level")
        if model != want:
            ctx.disagree(f"levels:model-to_level:{p}", "model priority table differs from the oracle table", {"priority": p}, impl=impl, model=model, spec_violated=False)
        if impl != want:
            ctx.disagree(f"levels:to_level:{p}", f"PenlogPriority({p}).to_level() = {impl}, expected {want}", {"priority": p},
                         impl=impl, model=want, spec_violated=True, site="PenlogPriority.to_level")
    for p, name in enumerate(PRIO_NAMES):
        for s in (name, name.upper(), name.capitalize(), str(p)):
            try:
                impl = int(glog.PenlogPriority.from_str(s).value)
            except ValueError:
                impl = None
            ctx.ev()
            ctx.kind("levels:from_str")
            if impl != p:
                ctx.disagree(f"levels:from_str:{s.lower()}", f"PenlogPriority.from_str({s!r}) = {impl}, expected {p}", {"string": s},
                             impl=impl, model=p, spec_violated=True, site="PenlogPriority.from_str")
    ctx.exhaustive_parts.append("from_level for 0..63, to_level for 0..9, from_str for every name (3 spellings) and number")


def part_escape(env, ctx):
    """the string escaper / scanner of the model against json.dumps / json.loads"""
    rng = ctx.rng
    strs = []
    if ctx.quick and not ctx.widened:
        blocks = [(0, 0x3000), (0xD7F0, 0xE010), (0xFFF0, 0x10010), (0x1F5F0, 0x1F610), (0x10FFF0, 0x110000)]
        ctx.exhaustive_parts.append("escaper: every code point of U+0000..2FFF, D7F0..E00F, FFF0..1000F, 1F5F0..1F60F, 10FFF0..10FFFF")
    else:
        blocks = [(0, 0x110000)]
        ctx.exhaustive_parts.append("escaper: every code point U+0000..10FFFF")
    for a, b in blocks:
        for s in range(a, b, 2048):
            strs.append("".join(chr(c) for c in range(s, min(s + 2048, b))))
    for _ in range(ctx.pick(300, 3000)):
        strs.append(gen_text(rng, 30))
    for _ in range(ctx.pick(100, 1000)):  # surrogates in every arrangement (tie only)
        strs.append("".join(chr(rng.choice([0xD800, 0xDBFF, 0xDC00, 0xDFFF, 0x41, 0x1F600, rng.randrange(0xD800, 0xE000)]))
                            for _ in range(rng.randint(1, 6))))
    res = ctx.lean(["esc " + _tok(s) for s in strs])
    lits = []
    for s, r in zip(strs, res):
        ctx.ev()
        ctx.kind("escape:dumps")
        real = json.dumps(s)
        if real.encode().hex() != r:
            bad = next((c for c in s if json.dumps(c).encode().hex() != ctx.lean(["esc " + _tok(c)])[0]), s[:1])
            ctx.disagree(f"escape:dumps:U+{ord(bad):04X}" if bad else "escape:dumps:empty", "model JSON string escaper differs from json.dumps",
                         {"text": [ord(c) for c in (bad or s)]}, impl=json.dumps(bad or s), model="<model>", spec_violated=False, site="json.dumps contract")
        lits.append(real)
    # literals json.dumps never produces: upper-case hex, \/, escaped printable characters, arbitrary \u sequences
    for _ in range(ctx.pick(600, 6000)):
        parts = []
        for _ in range(rng.randint(0, 8)):
            k = rng.random()
            if k < 0.3:
                parts.append(chr(rng.choice([c for c in range(0x20, 0x7F) if c not in (0x22, 0x5C)])))
            elif k < 0.5:
                parts.append("\\" + rng.choice('"\\/bfnrt'))
            elif k < 0.9:
                u = rng.choice([rng.randrange(0x10000), rng.randrange(0xD800, 0xDC00), rng.randrange(0xDC00, 0xE000), rng.randrange(0x80)])
                h = f"{u:04x}"
                parts.append("\\u" + (h if rng.random() < 0.5 else h.upper()))
            elif k < 0.95:
                parts.append(rng.choice(["\\x", "\\u12", "\\u12g4", "\\", "\n", "\x1f", "\\U0041", "\\a", "\t"]))
            else:
                parts.append(rng.choice(["\\ud83d\\ude00", "\\ud83d\\u0041", "\\ude00\\ud83d", "\\ud83dA", "\\ud83d\\ud83d\\ude00"]))
        lits.append('"' + "".join(parts) + '"')
    res = ctx.lean(["unesc " + (l.encode().hex() or "-") for l in lits])
    for l, r in zip(lits, res):
        ctx.ev()
        ctx.kind("escape:loads")
        try:
            v = json.loads(l)
            real = "s" + ",".join(str(ord(c)) for c in v) if isinstance(v, str) else "bad"
        except ValueError:
            real = "bad"
        if real != r:
            ctx.disagree("escape:loads:" + hashlib.sha256(l.encode()).hexdigest()[:8], "model JSON string scanner differs from json.loads",
                         {"literal": l}, impl=real[:200], model=r[:200], spec_violated=False, site="json.loads contract")
    ctx.traces_validated += len(strs) + len(lits)


def part_burst(env, ctx, k):
    glog = env.glog
    env.n += 1
    d = env.root / f"burst{env.n}"
    d.mkdir()
    path = d / "T.json.zst"
    lg = glog.get_logger(LOGGER)
    lg.setLevel(1)
    lg.propagate = False
    logging.disable(logging.NOTSET)
    try:
        h = glog.add_zst_log_handler(LOGGER, path, glog.Loglevel.TRACE)
        try:
            for i in range(k):
                (lg.debug, lg.info, lg.trace)[i % 3](f"burst record {i}")
        finally:
            glog.remove_zst_log_handler(LOGGER, h)
    finally:
        logging.disable(logging.CRITICAL)
    reader = glog.PenlogReader(path)
    try:
        n = len(reader)
        texts = [r.data for r in reader.records(glog.PenlogPriority.TRACE)]
    finally:
        getattr(reader, "close", lambda: None)()
    ctx.ev()
    ctx.kind("burst")
    ctx.nontrivial(("burst", k))
    want = [f"burst record {i}" for i in range(k)]
    if n != k or texts != want:
        i = next((j for j, (a, b) in enumerate(zip(texts, want)) if a != b), min(len(texts), len(want)))
        ctx.disagree("writer:burst:records-lost", f"{k} records logged in a tight loop, the file holds {n} ({len(texts)} read back); first difference at record {i}",
                     {"burst": k}, impl={"len": n, "read": len(texts)}, model={"len": k}, spec_violated=True, site="add_zst_log_handler / _ZstdFileHandler")


# ------------------------------------------------------------------------------------------------------------
# writer gates: setup_logging(console level) -> add_zst_log_handler(file level) -> records of every level -> file
# (each run in a fresh process: setup_logging takes over a logger, starts listener threads and registers atexit hooks)

GATE_LEVELS = [5, 10, 20, 25, 30, 40, 50]
LEVEL_METHOD = {5: "trace", 10: "debug", 20: "info", 25: "notice", 30: "warning", 40: "error", 50: "critical"}
GATE_LOGGERS = ["gallia", "gallia.c17", "gallia.c17.sub.leaf"]
GATE_CHILD = Path(__file__).resolve().parent.parent / "lib" / "c17gate_child.py"


def gate_configs(rng, wide):
    """(name, console part, file part) in a fixed order: every console level (explicit, through get_log_level(verbose), and
    level=None) x file level with / without --trace-log as get_file_log_level derives it x the logger setup_logging takes
    over (the root logger as cli/gallia.py does, and its default "gallia"); then explicit file levels (sampled)"""
    consoles = [{"console": None, "verbose": v} for v in (0, 1, 2, 3)] + [{"console": l, "verbose": None} for l in GATE_LEVELS] + [
        {"console": None, "verbose": None}]
    out = []
    for name in ("", "gallia"):
        for c in consoles:
            files = [{"file": None, "trace_log": True}, {"file": None, "trace_log": False}]
            if c["verbose"] is not None:
                files.append({"file": None, "trace_log": None})
            for f in files:
                out.append((name, c, f))
    extra = [(name, c, {"file": l, "trace_log": None}) for name in ("", "gallia") for c in consoles for l in GATE_LEVELS]
    out += extra if wide else rng.sample(extra, 10)
    return out


def gate_records(rng, simple=None):
    if simple is not None:
        return [["gallia.c17", LEVEL_METHOD[l], f"m{i}"] for i, l in enumerate(simple)]
    lv = GATE_LEVELS + [rng.choice(GATE_LEVELS) for _ in range(rng.randint(0, 6))]
    rng.shuffle(lv)
    recs = []
    for l in lv:
        m = LEVEL_METHOD[l] if l != 25 or rng.random() < 0.7 else "result"
        text = gen_text(rng, 12, rng.choice(["ascii", "mixed", "newlines", "inject"])).encode("utf-8", "replace").decode()
        recs.append([rng.choice(GATE_LOGGERS), m, text])
    return recs


def gate_spec(cfg, records):
    name, c, f = cfg
    return {"name": name, **c, **f, "records": records}


def gate_child(env, spec):
    env.n += 1
    d = env.root / f"gate{env.n}"
    d.mkdir()
    envp = {k: v for k, v in os.environ.items() if k != "GALLIA_LOGLEVEL"}
    envp.update({"PYTHONPATH": str(REPO / "src"), "PYTHONUTF8": "1", "NO_COLOR": "1"})
    try:
        pr = subprocess.run([PY, str(GATE_CHILD)], input=json.dumps({**spec, "path": str(d / "log.json.zst")}).encode(),
                            stdout=subprocess.PIPE, stderr=subprocess.PIPE, env=envp, timeout=60)
        try:
            return json.loads(pr.stdout.decode().strip().split("\n")[-1])
        except ValueError:
            return {"error": f"exit-{pr.returncode}: " + pr.stderr.decode("utf-8", "replace").strip().split("\n")[-1][:200]}
    except subprocess.TimeoutExpired:
        return {"error": "timeout"}
    finally:
        shutil.rmtree(d, ignore_errors=True)


def gate_eval(env, specs):
    """runs the specs (fresh process each, 8 at a time) and the model; returns per spec (result, oracle, model, verdict)"""
    from concurrent.futures import ThreadPoolExecutor

    dirs_before = env.n
    env.n += len(specs) + 1
    def one(i_spec):
        i, spec = i_spec
        e2 = type("E", (), {"n": dirs_before + i, "root": env.root})()
        return gate_child(e2, spec)
    with ThreadPoolExecutor(8) as ex:
        results = list(ex.map(one, enumerate(specs)))
    lines = []
    for spec, r in zip(specs, results):
        v = "n" if spec.get("verbose") is None else str(spec["verbose"])
        t = {True: "t", False: "f", None: "n"}[spec.get("trace_log")]
        lines += [f"conlvl {v}", f"filelvl {t} {v}"]
        mc = spec["console"] if spec["console"] is not None else r.get("console") or 10
        mf = spec["file"] if spec["file"] is not None else r.get("file") or 10
        recs = ",".join(f"{len(ln.split('.')) - (1 if spec['name'] == 'gallia' else 0)}:{METHOD_LEVEL[m]}" for ln, m, _ in spec["records"])
        lines.append(f"gate {mc} {mf} {recs or '-'}")
    res = env.ctx.lean(lines)
    out = []
    for k, (spec, r) in enumerate(zip(specs, results)):
        m_con, m_file, m_flags = res[3 * k], res[3 * k + 1], res[3 * k + 2]
        if "error" in r:
            out.append((r, None, None, ("impl", "raises", r["error"])))
            continue
        # the levels the run has, as the model derives them from the options (verbose None + console None: DEBUG)
        want_con = spec["console"] if spec["console"] is not None else (int(m_con) if spec.get("verbose") is not None else 10)
        want_file = spec["file"] if spec["file"] is not None else int(m_file)
        verdict = None
        if r["console"] is not None and r["console"] != want_con:
            verdict = ("tie", "console-level", f"get_log_level gives {r['console']}, the model {want_con}")
        elif r["file"] != want_file:
            verdict = ("tie", "file-level", f"get_file_log_level gives {r['file']}, the model {want_file}")
        oracle = [[METHOD_LEVEL[m], text, ln, ORACLE_PRIO[METHOD_LEVEL[m]]] for ln, m, text in spec["records"] if METHOD_LEVEL[m] >= r["file"]]
        model = [rec for rec, fl in zip(spec["records"], m_flags[1:]) if fl == "1"]
        model = [[METHOD_LEVEL[m], text, ln, ORACLE_PRIO[METHOD_LEVEL[m]]] for ln, m, text in model]
        if verdict is None and (model != oracle or len(m_flags) - 1 != len(spec["records"])):
            verdict = ("tie", "model-gate", "the gate model keeps other records than those at or above the file level")
        if verdict is None and (r["read"] != oracle or r["len"] != len(oracle)):
            lv_o = [x[0] for x in oracle]
            lv_r = [x[0] for x in r["read"]]
            missing = sorted({l for l in lv_o if lv_r.count(l) < lv_o.count(l)})
            extra = sorted({l for l in lv_r if lv_r.count(l) > lv_o.count(l)})
            sig = "missing-records" if missing and not extra else "extra-records" if extra and not missing else "wrong-records"
            verdict = ("impl", sig, f"logged levels {[METHOD_LEVEL[m] for _, m, _ in spec['records']]}: the file holds {lv_r} (len {r['len']}), "
                                    f"expected every record at or above the file level {r['file']}: {lv_o}"
                                    + (f"; missing levels {missing}" if missing else "") + (f"; unexpected levels {extra}" if extra else ""))
        out.append((r, oracle, model, verdict))
    return out


def _gate_descr(spec, r):
    con = r.get("console") if spec["console"] is None else spec["console"]
    how_c = f"verbose={spec['verbose']}" if spec.get("verbose") is not None else "level=None" if spec["console"] is None else "explicit"
    how_f = f"trace_log={spec['trace_log']}" if spec.get("trace_log") is not None else "explicit" if spec["file"] is not None else "no trace_log attribute"
    return (f"setup_logging(level={con} [{how_c}], logger_name={spec['name']!r}) + add_zst_log_handler('gallia', ..., "
            f"file_log_level={r.get('file', spec['file'])} [{how_f}])")


def part_gate(env, ctx):
    rng = ctx.rng
    cfgs = gate_configs(rng, ctx.widened or not ctx.quick)
    specs = [gate_spec(cfg, gate_records(rng)) for cfg in cfgs]
    specs += [gate_spec(cfgs[i], []) for i in (0, 1)]  # a run that logs nothing
    results = gate_eval(env, specs)
    first = None
    failing = 0
    for spec, (r, oracle, model, verdict) in zip(specs, results):
        ctx.ev()
        ctx.kind("gate:logger=" + (spec["name"] or "root"), f"gate:console={r.get('console')}", f"gate:file={r.get('file')}")
        ctx.nontrivial(("gate", json.dumps(spec, sort_keys=True)))
        ctx.traces_validated += 1
        if verdict is not None:
            failing += 1
            if first is None:
                first = (spec, r, oracle, verdict)
    ctx.exhaustive_parts.append("writer gates, a fresh process per run: setup_logging on the root logger / on 'gallia' x console level {every Loglevel, "
                                "get_log_level(0..3), None} x file level {--trace-log, no --trace-log, derived from verbose} (+ explicit file levels, "
                                "sampled in the quick tier) x records of all 7 levels on 'gallia' and descendants: the file read back = the records at or above the file level")
    if first is None:
        return
    spec, r, oracle, verdict = first
    cfg = (spec["name"], {"console": spec["console"], "verbose": spec.get("verbose")}, {"file": spec["file"], "trace_log": spec.get("trace_log")})
    # canonical small case: the same run, one simple record; the first level (fixed order) that shows the same verdict
    singles = [gate_spec(cfg, gate_records(rng, [l])) for l in GATE_LEVELS] + [gate_spec(cfg, gate_records(rng, GATE_LEVELS))]
    hit = None
    for sp, (r2, o2, m2, v2) in zip(singles, gate_eval(env, singles)):
        if v2 is not None and v2[:2] == verdict[:2]:
            hit = (sp, r2, o2, v2)
            break
    if hit is None:
        hit = (spec, r, oracle, verdict)
    sp, r2, o2, v2 = hit
    con = r2.get("console") if sp["console"] is None else sp["console"]
    key = (f"writer:gate:{v2[1]}:logger={sp['name'] or 'root'}:console={con}:file={r2.get('file', sp['file'])}:"
           f"levels={'+'.join(str(METHOD_LEVEL[m]) for _, m, _ in sp['records']) or 'none'}")
    ctx.disagree(key, f"{_gate_descr(sp, r2)}: {v2[2]}" + (f" ({failing} of {len(specs)} runs differ)" if failing > 1 else ""),
                 {"kind": "gate", "spec": sp, "first_seen": _gate_descr(spec, r)},
                 impl={"file_records": r2.get("read"), "len": r2.get("len"), "error": r2.get("error")}, model={"file_records": o2},
                 spec_violated=v2[0] == "impl", site="setup_logging / add_zst_log_handler / get_file_log_level")


def run(ctx):
    env = Env(ctx)
    rng = ctx.rng
    ctx.rule = ("a case = one sequence of log calls through the real logger and _ZstdFileHandler, read back by PenlogReader / hr; "
                "distinct = distinct (call sequence, probe) pairs; non-trivial = the log holds >= 1 record or the probe is a "
                "navigation on the empty log; second layer: distinct (log, input files, argument vector, output cut) tuples of hr.main(), "
                "distinct argument vectors against argparse, distinct foreign JSON objects against parse_json")
    t0 = time.time()
    try:
        part_levels(env, ctx)
        part_gate(env, ctx)
        part_escape(env, ctx)

        def go(calls, plan, label):
            ds, st = evaluate(env, calls, plan)
            ctx.ev(st["probes"])
            ctx.kind(label)
            for p in plan:
                ctx.kind("probe:" + p[0] + ":" + (p[3][-1][0] if p[0] == "api" else p[3] if p[0] == "hr" else p[2]))
                if p[0] == "api":
                    ctx.kind("container:" + p[2], "prefix:" + str(p[1]))
                    if len(p[3]) > 1:
                        ctx.kind("reader-reused")
                elif p[0] == "hr":
                    ctx.kind("container:" + "+".join(p[2]), "prefix:" + str(p[1]))
                else:
                    ctx.kind("container:stdin", "prefix:" + str(p[1]))
            ctx.nontrivial((label, json.dumps(calls, sort_keys=True), len(plan), ctx.evaluations))
            ctx.distinct.update(hash((ctx.evaluations, i)) for i in range(len(plan)))
            ctx.traces_validated += st["probes"]
            ctx.kind(f"records:{min(st['records'], 64) if st['records'] < 8 else '8-15' if st['records'] < 16 else '16+'}")
            if ds:
                report(env, ctx, ds, calls)
            return ds

        conts = ["plain", "zst", "gz"]
        # 1. exhaustive over small logs: every level sequence up to length L, every mode / argument / threshold / prefix
        L = ctx.pick(2, 3)
        for n in range(0, L + 1):
            for levels in itertools.product([5, 10, 20, 25, 30, 40, 50], repeat=n):
                go(simple_calls(list(levels)), full_plan(n, conts, rng, hr_every=ctx.pick(3, 1)), f"exhaustive-levels:len{n}")
        ctx.exhaustive_parts.append(f"every level sequence of length 0..{L} x every mode x every argument (offset -n..n-1, head/tail 0..n+2) x "
                                    "every threshold 0..8 x prefix present/absent; fresh reader per probe; container rotating over plain/.zst/.gz")
        # 2. one reader reused: every ordered pair of operations
        for n in (0, 1, 2, 3, 5):
            go(simple_calls([SHRINK_LEVELS[i % 7] for i in range(n)]), reuse_plan(n, conts[n % 3]), "reuse-pairs")
        ctx.exhaustive_parts.append("one reader reused: every ordered pair of {forward, reverse, offset, negative offset, head, abandoned generator, len} on logs of 0,1,2,3,5 records")
        # 3. seeded: rich text, tags, exception traces, pinned timestamps, all levels
        n_cases = ctx.pick(110, 900)
        for i in range(n_cases):
            n = rng.choice([0, 1, 1, 2, 3, 4, 5, 7, 10, rng.randint(0, ctx.pick(24, 60))])
            calls = [gen_call(rng, 40, long_ok=ctx.pick(3000, 20000) if i % 10 == 0 else 0) for _ in range(n)]
            go(calls, sampled_plan(rng, n, conts, 8, 4, 6), "seeded-rich")
            if ctx.quick and not ctx.widened and time.time() - t0 > 55:
                ctx.notes["seeded_cases_cut_short_at"] = i
                break
        # 4. very long lines
        for k in ctx.pick([20000, 100000], [20000, 100000, 400000]):
            calls = [gen_call(rng, 10), {"m": "info", "text": gen_text(rng, k, "mixed"), "tags": None, "exc": None, "created": None, "args": False},
                     {"m": "warning", "text": "x" * k, "tags": ["t"], "exc": None, "created": None, "args": False}, gen_call(rng, 10)]
            go(calls, sampled_plan(rng, 4, conts, 6, 2, 4), "very-long-lines")
        # 4b. bursts: thousands of records logged in a tight loop, faster than the writer thread compresses them - every one must be
        #     in the file, in order (the hand-over queue between the logging call and the writer is unbounded)
        for k in ctx.pick([50000], [50000, 150000]):
            part_burst(env, ctx, k)
        # 5. the real entry point as a process: stdin container and files
        for i in range(ctx.pick(6, 40)):
            n = rng.choice([0, 1, 2, 3, 6])
            calls = [gen_call(rng, 20) for _ in range(n)]
            for c in calls:  # a process boundary: text must be encodable
                c["text"] = c["text"].encode("utf-8", "replace").decode()
            m = ["forward", "reverse", "head", "tail", "tail", "forward"][i % 6]
            a = rng.choice([0, 1, n, n + 1, 100])
            go(calls, [("stdin", i % 2, m, a, rng.choice([8, "trace", 6, None, "warning"]))], "hr-process-stdin")
        ctx.sample({"calls": 3, "probe": "hr -p 8 -t -n 5 (plain, prefix)", "result": "the 3 records, in order"})
        # 6. second layer: the hr command line, container detection, the record schema (lib/c17ext.py)
        t1 = time.time()
        follow = c17ext.argv_follow_up(env, ctx, env.write_log, simple_calls)
        c17ext.part_small(env, ctx, follow)
        c17ext.part_iso(env, ctx)
        c17ext.part_argv(env, ctx, follow)
        c17ext.part_format_direct(env, ctx)
        c17ext.part_reader_objects(env, ctx)
        c17ext.part_schema_written(env, ctx, env.write_log, gen_call)
        c17ext.part_hr(env, ctx, env.write_log, simple_calls, gen_call, budget_s=20)
        c17ext.part_process(env, ctx, env.write_log, simple_calls)
        ctx.notes["second_layer_wall_s"] = round(time.time() - t1, 1)
    finally:
        env.close()


def replay(ctx, case):
    env = Env(ctx)
    try:
        c = case.get("case", case)
        if c.get("kind") == "hr2":
            return c17ext.replay_hr2(env, ctx, c, env.write_log)
        if c.get("kind") == "gate":
            (r, oracle, _model, verdict), = gate_eval(env, [c["spec"]])
            print(json.dumps(c["spec"], indent=1)[:4000])
            print(_gate_descr(c["spec"], r))
            if verdict is None:
                print("implementation and oracle agree on this case")
                return 0
            print(f"DISAGREE [writer:gate:{verdict[1]}] {verdict[2]}\n  impl  : {r.get('read', r.get('error'))}\n  oracle: {oracle}")
            return 1
        if "plan" not in c:
            print(json.dumps(c, indent=1)[:4000])
            print("this case is a single call of a small function; see `what`, `impl` and `model` of the replay file")
            return 1
        calls, plan = c["calls"], _plan_from_json(c["plan"])
        ds, _ = evaluate(env, calls, plan)
        print(json.dumps({"calls": calls, "plan": c["plan"]}, indent=1)[:4000])
        if not ds:
            print("implementation and oracle agree on this case")
            return 0
        for d in ds:
            print(f"DISAGREE [{d['layer']}:{d['mode']}:{d['sig']}] {d['what']}\n  impl  : {d['impl']}\n  oracle: {d['oracle']}")
        return 1
    finally:
        env.close()


MANIFEST = {
    "level_text": ("Lean 4 theorems over the penlog oracle. Lines: a written line has no inner newline and is pure ASCII; splitting the "
                   "file gives back exactly the written lines; the ensure_ascii escaper is inverted by the JSON string scanner for "
                   "all Unicode text (surrogate pairs, control characters); every written line parses back to its flat record, with and "
                   "without the <prio> prefix, and the prefix priority equals the record's; level <-> priority is a bijection on the "
                   "7 levels (table regenerated from the live enums); forward / reverse / offset k / tail n / head n / len over the "
                   "offset table equal filter, reverse, drop, drop (len - n), take, length of the logged sequence for all logs, also "
                   "shorter than n and empty. Writer gates (file_gets_every_record_at_or_above_file_level): for every console level of "
                   "setup_logging, every file level >= 1 and every sequence of records on the configured logger or any descendant the file "
                   "gets exactly the records at or above the FILE level, in order (with --trace-log: all of them, trace_log_file_gets_all); "
                   "tied by runs of the real setup_logging + add_zst_log_handler + PenlogReader in fresh processes over every console level "
                   "(explicit, get_log_level(0..3), None) x file level (get_file_log_level with / without --trace-log, explicit) x root / "
                   "'gallia' logger. Schema: a logging.LogRecord (any of the 7 levels incl. TRACE / NOTICE, tags present / empty / "
                   "absent, exception text, timestamp with microseconds and any whole-second UTC offset) through QueueHandler.prepare, "
                   "_JSONFormatter.format and emit is read back by parse_json as exactly the expected PenlogRecord, all members "
                   "(record_roundtrip); isoformat is inverted by a port of CPython's fromisoformat for every valid datetime; the "
                   "written object has exactly the 12 regenerated member names; unknown members are ignored, absent optional members "
                   "read like null, absent required members are refused. hr: the argument vector as argparse reads it (hrPlan): "
                   "regenerated option table / defaults (100 lines, INFO), two different mode options are always refused, names and "
                   "numbers of a priority give the same plan in any letter case; the decompressor is chosen by the name's suffix alone "
                   "(<stem>.zst / <stem>.gz, characterised exactly) and a file stored for its name opens to its content given the codec "
                   "round-trip contract; hr_output_eq_slice: for every argument vector that parses and every set of inputs (plain / "
                   ".zst / .gz / standard input, with or without prefix) hr emits, file by file, exactly the slice of each written "
                   "sequence its arguments denote, as the records read back, and exits with 0; exit codes 65 / 1 / 2 and the cut-off "
                   "by a closed output pipe are part of the model. Tied to the code by correspondence runs of the real logger -> "
                   "_ZstdFileHandler -> file -> PenlogReader and of hr.main() in-process and as a process: byte-exact lines, field by "
                   "field records incl. the aware timestamp and the printed text; every small level sequence x mode x threshold; every "
                   "mode x n in {absent, 0, 1, len-1, len, len+1} x priority by name / number x prefix x container; 1..3 inputs of mixed "
                   "kinds (misleading names, truncated / foreign / junk content, missing, directory, fifo, stdin); ~6k argument vectors "
                   "against argparse; ~1.9k foreign JSON objects against parse_json; ~5k strings against fromisoformat; UTC offsets "
                   "incl. seconds-granular ones and DST switch instants."),
    "level_note": ("Trusted: Lean kernel (axioms propext, Quot.sound, Classical.choice), json / zstandard / gzip / mmap / "
                   "datetime.fromtimestamp contracts (json.loads, zstandard and gzip enter the hr theorems as hypotheses Env.LoadsOk / "
                   "Env.Decodes; the json string escaper and scanner contract is itself checked against json.dumps / json.loads), "
                   "the harness. The byte-level parser accepts the writer's JSON shape only; other JSON reaches the schema model as "
                   "the value json.loads returns. argparse and fromisoformat are modelled as CPython 3.12.1 behaves and checked "
                   "against the running interpreter on every run; inputs the model declares outside its scope are counted, not compared."),
    "technique": "Lean 4 proof (induction over records / code points / argument strings, parser round trips, functional induction over the argparse loop) + regenerated tables + differential correspondence against the real logger, reader and hr",
    "design_ref": "DESIGN.md section 7, C17",
}
