"""C20 - target URIs, host:port strings, integer notation and range expressions.

Real `gallia.utils.auto_int / unravel / unravel_2d`, `command.config` range field types, `net.split_host_port /
join_host_port`, `TargetURI` (from_parts, hostname, port, qs_flat), `DoIPConfig / HSFZConfig / ISOTPConfig` and the
HSFZ / ISO-TP discovery scanners against Model/Parse.lean (the oracle the property names)."""
import asyncio
import ipaddress
import itertools
import sys
import types

import c20_ext
from common import setup_repo_import

ID = "C20"
GENS = ["c20_tables"]
PROOF = "Gallia.Proofs.C20"
DRIVER = "c20"
ORACLE = True
ASSUMPTIONS = [
    "a Python str holding a lone surrogate is outside the model (quote_plus raises UnicodeEncodeError; Lean's Char is a Unicode scalar value)",
    "the network location of a raw URI is ASCII without userinfo; urlsplit's NFKC check of non-ASCII hosts and its bracket / IPvFuture "
    "validation are outside the model (hosts are generated over names, IPv4 and IPv6 literals; parameters and paths are arbitrary text)",
    "IP-literal hosts are compared as addresses (ipaddress canonical form) on both sides",
    "plain pydantic int fields (ack_timeout, frame_txtime, tx_dl) are C18's parseLaxInt after trimming the characters pydantic trims "
    "(regenerated table); the theorem covers decimal text with optional sign, leading zeros, a .0 suffix and surrounding white space - "
    "digit-group underscores, texts longer than 4300 digits and float-like texts are covered by the tie only",
    "range widths are kept <= 5000 (the real code and the model both enumerate ranges)",
    "connect() is followed up to the first network call: name resolution, the socket and the connection itself are replaced by "
    "recorders; every setsockopt block (ISO-TP CAN_ISOTP_OPTS / CAN_ISOTP_LL_OPTS / CAN_ISOTP_RECV_FC, can-raw CAN_RAW_FD_FRAMES) and "
    "the bound CAN ids are recorded and compared byte for byte with the oracle's block; a struct.pack range error for an out-of-range "
    "number is recorded as 'connect() stops here' and compared with the oracle's range check",
    "the layout of struct can_isotp_options / can_isotp_ll_options / can_isotp_fc_options, the option numbers, flag bits and CAN_EFF_FLAG "
    "are written down from linux/can/isotp.h, linux/can/raw.h, linux/can.h in Model/ParseTransport.lean (trusted base); __u32 in host "
    "byte order is taken as little endian; TCP-based transports set no URI-dependent socket option (DoIP's SO_LINGER is constant); "
    "can-raw filters (set_filter) are programmed by scanners after connect(), not from the URI, and are not followed",
    "only the transports of the built-in registry on this platform (linux: tcp, tcp-lines, doip, hsfz, isotp, can-raw, unix, unix-lines); "
    "plugin transports would break the `all_schemes_modelled` obligation rather than be modelled",
]

WS = " \t\n\r\x0b\x0c"


def hs(s: str) -> str:
    """a text on the driver's line protocol: hex of its UTF-8 bytes"""
    return s.encode("utf-8").hex() if s else "-"


def unhs(h: str) -> str:
    return "" if h == "-" else bytes.fromhex(h).decode("utf-8")


def hb(b: bytes) -> str:
    return b.hex() if b else "-"


def show_nats(l):
    return ",".join(str(x) for x in l) if l else "[]"


def show_2d(d):
    if not d:
        return "{}"
    return ";".join(f"{k}:" + ("all" if v is None else show_nats(v)) for k, v in d.items())


def canon_host(h: str) -> str:
    try:
        return str(ipaddress.ip_address(h))
    except ValueError:
        return h


def show_args(d: dict) -> str:
    return ",".join(f"{hs(k)}={hs(v)}" for k, v in d.items()) if d else "none"


def canon_args_token(tok: str) -> str:
    return tok


# ---------------------------------------------------------------------------------------------------------
# real side, canonical strings in the driver's output format
# ---------------------------------------------------------------------------------------------------------
class Real:
    def __init__(self):
        setup_repo_import()
        import gallia.command  # noqa  (import order)
        from gallia.command import config as cfgmod
        from gallia.net import join_host_port, split_host_port
        from gallia.transports.base import TargetURI
        from gallia.transports.doip import DoIPConfig
        from gallia.transports.hsfz import HSFZConfig
        from gallia.transports.isotp import ISOTPConfig
        from gallia.utils import auto_int, unravel, unravel_2d
        import pydantic

        self.auto_int, self.unravel, self.unravel_2d = auto_int, unravel, unravel_2d
        self.split_host_port, self.join_host_port = split_host_port, join_host_port
        self.TargetURI = TargetURI
        self.cfg = {"doip": DoIPConfig, "hsfz": HSFZConfig, "isotp": ISOTPConfig}
        self.process_ranges = cfgmod._process_ranges
        self.ta_ranges = pydantic.TypeAdapter(cfgmod.Ranges)
        self.ta_ranges2d = pydantic.TypeAdapter(cfgmod.Ranges2D)
        self.ta_autoint = pydantic.TypeAdapter(cfgmod.AutoInt)
        self.ValidationError = pydantic.ValidationError

    def int(self, s):
        try:
            return f"some {self.auto_int(s)}"
        except ValueError:
            return "none"

    def field_int(self, s):
        try:
            return f"some {self.ta_autoint.validate_python(s)}"
        except (ValueError, self.ValidationError):
            return "none"

    def unravel1(self, s):
        try:
            return show_nats(self.unravel(s))
        except ValueError:
            return "err"

    def unravel2(self, s):
        try:
            return show_2d(self.unravel_2d(s))
        except ValueError:
            return "err"

    def pranges(self, v):
        try:
            return show_nats(self.process_ranges(v))
        except ValueError:
            return "err"

    def field_ranges(self, v):
        try:
            return show_nats(self.ta_ranges.validate_python(v))
        except (ValueError, self.ValidationError):
            return "err"

    def field_ranges2d(self, v):
        try:
            return show_2d(self.ta_ranges2d.validate_python(v))
        except (ValueError, self.ValidationError):
            return "err"

    def split(self, s, d):
        try:
            h, p = self.split_host_port(s, d)
        except ValueError:
            return "err"
        return f"{hs(canon_host(h))} {'none' if p is None else p}"

    def join(self, h, p):
        return hs(self.join_host_port(h, p))

    def from_parts(self, scheme, host, port, args):
        try:
            return hs(str(self.TargetURI.from_parts(scheme, host, port, args)))
        except Exception as e:  # noqa
            return "exc:" + type(e).__name__

    def parse(self, raw):
        try:
            u = self.TargetURI(raw)
        except ValueError:
            return "err"
        if u.url.scheme == "":
            return "err"  # not a URI at all (TargetURI.scheme raises)
        try:
            port = u.port
            port = "none" if port is None else str(port)
        except ValueError:
            port = "err"
        try:
            host = u.hostname
        except ValueError:
            return "err"
        host = "none" if host is None else hs(canon_host(host))
        return f"{hs(u.url.scheme)} {host} {port} {show_args(u.qs_flat)} {hs(u.path)}"

    def qs_flat(self, raw):
        try:
            return self.TargetURI(raw).qs_flat
        except ValueError:
            return None

    def config(self, scheme, args: dict):
        cls = self.cfg[scheme]
        try:
            c = cls(**args)
        except (self.ValidationError, TypeError):
            return "err"

        def f(name, short):
            if name not in c.model_fields_set:
                return f"{short}=dflt"
            v = getattr(c, name)
            if isinstance(v, bool):
                return f"{short}={'true' if v else 'false'}"
            return f"{short}={int(v)}"

        if scheme == "doip":
            names = [("src_addr", "src"), ("target_addr", "tgt"), ("activation_type", "act"), ("protocol_version", "ver")]
        elif scheme == "hsfz":
            names = [("src_addr", "src"), ("dst_addr", "dst"), ("ack_timeout", "ack")]
        else:
            names = [("src_addr", "src"), ("dst_addr", "dst"), ("is_extended", "ext"), ("is_fd", "fd"),
                     ("frame_txtime", "ft"), ("ext_address", "ea"), ("rx_ext_address", "ra"), ("tx_padding", "tp"),
                     ("rx_padding", "rp"), ("tx_dl", "dl")]
        return " ".join(f(n, s) for n, s in names)


def canon_model_split(out: str) -> str:
    if out in ("err", "bad-op"):
        return out
    h, p = out.split()
    return f"{hs(canon_host(unhs(h)))} {p}"


def canon_model_parse(out: str) -> str:
    if out in ("err", "bad-op"):
        return out
    sch, h, p, a, path = out.split()
    if h != "none":
        h = hs(canon_host(unhs(h)))
    return f"{sch} {h} {p} {a} {path}"


# ---------------------------------------------------------------------------------------------------------
# generators
# ---------------------------------------------------------------------------------------------------------
def rand_sp(rng, ws=WS, url_safe=False):
    base = rng.choice("dddxxxob")
    n_ws = (lambda: rng.choice([0, 0, 0, 1, 2])) if not url_safe else (lambda: 0)
    return {
        "base": base,
        "upper": rng.random() < 0.25,
        "plus": (rng.random() < 0.15) and not url_safe,
        "usP": rng.random() < 0.1,
        "zeros": rng.choice([0, 0, 0, 1, 2, 5]),
        "us": "".join(rng.choice("0001") for _ in range(rng.choice([0, 0, 3, 8, 20]))),
        "wsL": "".join(rng.choice(ws) for _ in range(n_ws())) if ws else "",
        "wsR": "".join(rng.choice(ws) for _ in range(n_ws())) if ws else "",
    }


def sp_tok(sp):
    return ".".join([sp["base"], "1" if sp["upper"] else "0", "1" if sp["plus"] else "0", "1" if sp["usP"] else "0",
                     str(sp["zeros"]), sp["us"] or "-", hs(sp["wsL"]), hs(sp["wsR"])])


def rand_nat(rng, small=False):
    if small:
        return rng.randrange(0, 8)
    return rng.choice([0, 1, rng.randrange(0, 16), rng.randrange(0, 0x100), rng.randrange(0, 0x800), rng.randrange(0, 0x10000)])


def rand_elems(rng, ws, small=False, maxn=5, allow_empty=True):
    n = rng.randint(0 if allow_empty else 1, maxn)
    out = []
    for _ in range(n):
        if rng.random() < 0.5:
            out.append(("o", rand_nat(rng, small), rand_sp(rng, ws)))
        else:
            a = rand_nat(rng, small)
            width = rng.choice([-3, -1, 0, 0, 1, 2, 5, 17, 40]) if not small else rng.choice([-2, -1, 0, 1, 2, 3])
            b = max(0, a + width)
            out.append(("r", a, b, rand_sp(rng, ws), rand_sp(rng, ws)))
    return out


def elems_tok(es):
    if not es:
        return "e"
    toks = []
    for e in es:
        if e[0] == "o":
            toks.append(f"o/{e[1]}/{sp_tok(e[2])}")
        else:
            toks.append(f"r/{e[1]}/{e[2]}/{sp_tok(e[3])}/{sp_tok(e[4])}")
    return ",".join(toks)


def elems_kind(es):
    k = set()
    for e in es:
        if e[0] == "o":
            k.add("single")
        elif e[2] < e[1]:
            k.add("reversed")
        elif e[2] == e[1]:
            k.add("one-element-range")
        else:
            k.add("range")
    return k


def rand_items(rng):
    ws2 = "\t\n\r\x0b\x0c"
    items = []
    for _ in range(rng.randint(0, 4)):
        r = rng.random()
        if r < 0.08:
            items.append(([], None))  # doubled space
            continue
        outer = rand_elems(rng, ws2, small=True, maxn=2, allow_empty=rng.random() < 0.1)
        if rng.random() < 0.3:
            items.append((outer, None))
        else:
            items.append((outer, rand_elems(rng, ws2, small=rng.random() < 0.5, maxn=3, allow_empty=rng.random() < 0.2)))
    if not items:
        items.append(([], None))
    return items


def items_tok(items):
    return ";".join(elems_tok(o) if i is None else elems_tok(o) + "|" + elems_tok(i) for o, i in items)


def rand_name(rng, upper_ok=True):
    labels = []
    for _ in range(rng.choice([1, 1, 2, 3])):
        n = rng.randint(1, 8)
        lab = "".join(rng.choice("abcdefghijklmnopqrstuvwxyz0123456789-_") for _ in range(n))
        labels.append(lab)
    h = ".".join(labels)
    if upper_ok and rng.random() < 0.15:
        h = "".join(c.upper() if rng.random() < 0.5 else c for c in h)
    return h


def rand_v4(rng):
    return rng.choice(["0.0.0.0", "255.255.255.255", "127.0.0.1",
                       ".".join(str(rng.randrange(256)) for _ in range(4))])


def rand_v6(rng, zone_ok=True):
    groups = [rng.choice([0, 0, 0, 1, rng.randrange(0x10000)]) for _ in range(8)]
    ip = ipaddress.IPv6Address(int.from_bytes(b"".join(g.to_bytes(2, "big") for g in groups), "big"))
    form = rng.choice(["compressed", "compressed", "exploded", "upper", "full-nozero", "mapped", "special"])
    if form == "compressed":
        s = str(ip)
    elif form == "exploded":
        s = ip.exploded
    elif form == "upper":
        s = str(ip).upper()
    elif form == "full-nozero":
        s = ":".join(f"{g:x}" for g in groups)
    elif form == "mapped":
        s = "::ffff:" + rand_v4(rng)
    else:
        s = rng.choice(["::", "::1", "fe80::1", "ff02::1:2", "2001:db8::", "1::"])
    if zone_ok and rng.random() < 0.1:
        s += "%" + rng.choice(["eth0", "lo", "1", "vcan0"])
    return s, form


def rand_host(rng):
    k = rng.choice(["name", "name", "v4", "v6", "v6"])
    if k == "name":
        return rand_name(rng), "name"
    if k == "v4":
        return rand_v4(rng), "ipv4"
    s, form = rand_v6(rng)
    return s, "ipv6-" + form


def rand_port(rng):
    return rng.choice([None, None, 0, 1, 80, 6801, 13400, 65535, rng.randrange(65536), rng.randrange(65536)])


def url_int(rng, n=None):
    """an integer literal as a scanner / user writes it into a URI query (parameter alphabet only)"""
    if n is None:
        n = rng.choice([rng.randrange(0x100), rng.randrange(0x800), rng.randrange(0x10000), rng.randrange(1 << 32)])
    return rng.choice([f"{n:#x}", f"{n:#02x}", hex(n), str(n), f"{n:#o}", f"{n:#b}", f"{n:#06X}", f"0x{n:04x}",
                       f"{n:_d}", f"-{n:#x}"])


def rand_args(rng, scheme):
    if scheme == "doip":
        a = {"src_addr": url_int(rng), "target_addr": url_int(rng)}
        if rng.random() < 0.5:
            a["activation_type"] = url_int(rng, rng.choice([0, 1, 0xE0, 0xFF]))
        if rng.random() < 0.5:
            a["protocol_version"] = url_int(rng, rng.choice([1, 2, 3, 0xFF]))
    elif scheme == "hsfz":
        a = {"src_addr": url_int(rng), "dst_addr": url_int(rng)}
        if rng.random() < 0.6:
            a["ack_timeout"] = rng.choice([1000, 0, 500, rng.randrange(100000), str(rng.randrange(5000))])
    elif scheme == "isotp":
        a = {}
        if rng.random() < 0.7:
            a["is_fd"] = rng.choice(["true", "false"])
            a["is_extended"] = rng.choice(["true", "false", "True", "1", "0", "no", "on"])
        a["src_addr"] = url_int(rng)
        a["dst_addr"] = url_int(rng)
        for k in ("ext_address", "rx_ext_address", "tx_padding", "rx_padding"):
            if rng.random() < 0.3:
                a[k] = url_int(rng, rng.randrange(256))
        if rng.random() < 0.2:
            a["frame_txtime"] = str(rng.randrange(100))
        if rng.random() < 0.2:
            a["tx_dl"] = rng.choice(["8", "64", 12])
    else:
        a = {}
        for _ in range(rng.randint(0, 3)):
            a["".join(rng.choice("abcxyz_") for _ in range(rng.randint(1, 5)))] = "".join(
                rng.choice("0123456789abcdefx_.-") for _ in range(rng.randint(1, 6)))
    # mutations: missing required key, junk value, blank value, order shuffled
    r = rng.random()
    kind = "valid"
    if a and r < 0.06:
        del a[rng.choice(list(a))]
        kind = "key-dropped"
    elif a and r < 0.12:
        a[rng.choice(list(a))] = rng.choice(["hans", "0x", "1__0", "010", "0b2", "truee"])
        kind = "junk-value"
    elif a and r < 0.2:
        items = list(a.items())
        rng.shuffle(items)
        a = dict(items)
        kind = "shuffled"
    elif r < 0.25:
        a["extra_" + rng.choice("abc")] = "1"
        kind = "extra-key"
    return a, kind


# ---------------------------------------------------------------------------------------------------------
# comparison plumbing
# ---------------------------------------------------------------------------------------------------------
class Batch:
    """collects (driver line, implementation result, meta) and compares after one driver call"""

    def __init__(self, ctx):
        self.ctx = ctx
        self.rows = []

    def add(self, line, impl, fn, case, canon=None, shrink=None, site=""):
        self.rows.append((line, impl, fn, case, canon, shrink, site))

    def flush(self):
        ctx = self.ctx
        if not self.rows:
            return
        out = ctx.lean([r[0] for r in self.rows])
        shrunk_per_fn = {}
        for (line, impl, fn, case, canon, shrink, site), mo in zip(self.rows, out):
            if canon:
                mo = canon(mo)
            if mo == "bad-op":
                raise RuntimeError(f"driver did not understand: {line}")
            if impl == mo:
                continue
            n = shrunk_per_fn.get(fn, 0)
            shrunk_per_fn[fn] = n + 1
            if n >= 6:
                continue
            if shrink:
                case, impl, mo = shrink(case, impl, mo)
            key = f"{fn}:{case_key(case)}"
            ctx.disagree(key, f"{fn} differs from the oracle on {case!r}: impl={impl} oracle={mo}", {"fn": fn, "input": case},
                         impl=impl, model=mo, spec_violated=True, site=site or fn)
        self.rows = []


def case_key(case):
    if isinstance(case, str):
        return repr(case)
    if isinstance(case, dict):
        return ",".join(f"{k}={case[k]!r}" for k in sorted(case))
    return repr(case)


def too_wide(s: str, limit=5000) -> bool:
    """harness-side filter: a candidate whose ranges would enumerate more than `limit` numbers is not evaluated"""
    import re
    for m in re.finditer(r"(?=(?<![0-9A-Za-z_+])([0-9A-Za-z_+]+)\s*-\s*([0-9A-Za-z_+]+))", s):
        try:
            if int(m.group(2), 0) - int(m.group(1), 0) > limit:
                return True
        except ValueError:
            pass
    return False


def make_str_shrinker(ctx, op, real_fn, canon=None, extra=""):
    """greedy character deletion keeping `real != oracle`"""

    def shrink(case, impl, mo):
        s = case
        for _ in range(200):
            cands = [s[:i] + s[i + 1:] for i in range(len(s))]
            cands = [c for c in dict.fromkeys(cands) if not too_wide(c)]
            if not cands:
                break
            outs = ctx.lean([f"{op} {hs(c)}{extra}" for c in cands])
            nxt = None
            for c, o in zip(cands, outs):
                o = canon(o) if canon else o
                r = real_fn(c)
                if r != o:
                    nxt = (c, r, o)
                    break
            if nxt is None:
                break
            s, impl, mo = nxt
        return s, impl, mo

    return shrink


def all_strings(alphabet, maxlen):
    for n in range(0, maxlen + 1):
        for t in itertools.product(alphabet, repeat=n):
            yield "".join(t)


# ---------------------------------------------------------------------------------------------------------
# the discovery scanners (real code, fake buses)
# ---------------------------------------------------------------------------------------------------------
def run_hsfz_discoverer(real, host, port, src_addr, start, stop, answering):
    import gallia.commands.discover.hsfz as mod
    from vloop import vrun

    found = []

    class DB:
        async def insert_discovery_result(self, s):
            found.append(s)

    class Conn:
        def __init__(self, dst):
            self.dst = dst

        async def close(self):
            pass

    async def connect(h, p, src, dst, ack):
        return Conn(dst)

    netloc = f"[{host}]:{port}" if ":" in host else f"{host}:{port}"
    cfg = mod.HSFZDiscovererConfig.model_construct(target=real.TargetURI(f"hsfz://{netloc}"), reversed=False,
                                                   src_addr=src_addr, start=start, stop=stop, timeout=0.5)
    sc = mod.HSFZDiscoverer.__new__(mod.HSFZDiscoverer)
    sc.config = cfg
    sc.artifacts_dir = None
    sc.db_handler = DB()

    async def _probe(conn, req, timeout):
        return conn.dst in answering

    sc._probe = _probe
    saved = mod.HSFZConnection
    mod.HSFZConnection = types.SimpleNamespace(connect=connect)
    try:
        vrun(sc.main())
    finally:
        mod.HSFZConnection = saved
    return found


def run_isotp_discoverer(real, iface, start, stop, padding, extended, tester, is_fd, is_ext, answers):
    """answers: {ID: replying can id}"""
    import gallia.commands.discover.uds.isotp as mod
    from vloop import vrun

    found = []

    class DB:
        async def insert_discovery_result(self, s):
            found.append(s)

    class FakeCAN:
        def __init__(self):
            self.config = types.SimpleNamespace(is_fd=is_fd, is_extended=is_ext)
            self.q = []

        async def get_idle_traffic(self, t):
            return []

        def set_filter(self, *a, **k):
            pass

        async def sendto(self, pdu, timeout=None, dst=None):
            ident = pdu[0] if extended else dst
            self.q = [(answers[ident], b"\x02\x7e\x00")] if ident in answers else []

        async def recvfrom(self, timeout=None):
            if self.q:
                return self.q.pop(0)
            await asyncio.sleep(timeout)
            raise TimeoutError

    class RC:
        SCHEME = "can-raw"

        @staticmethod
        async def connect(t):
            return FakeCAN()

    cfg = mod.IsotpDiscovererConfig.model_construct(
        target=real.TargetURI(f"can-raw://{iface}"), start=start, stop=stop, padding=padding, pdu=bytes([0x3E, 0]),
        sleep=0.01, extended_addr=extended, tester_addr=tester, query=False, info_did=0xF197, sniff_time=1, timeout=0.5)
    sc = mod.IsotpDiscoverer.__new__(mod.IsotpDiscoverer)
    sc.config = cfg
    sc.artifacts_dir = None
    sc.db_handler = DB()
    saved = mod.RawCANTransport
    mod.RawCANTransport = RC
    try:
        vrun(sc.main())
    finally:
        mod.RawCANTransport = saved
    return found


# ---------------------------------------------------------------------------------------------------------
def run(ctx):
    real = Real()
    rng = ctx.rng
    ctx.rule = ("one case = one (function, input) pair evaluated on the real code and on the oracle; distinct = distinct "
                "(function, input); non-trivial = input is non-empty and is not a bare decimal number / bare host")
    B = Batch(ctx)

    def nt(fn, s):
        ctx.ev()
        ctx.nontrivial((fn, s if isinstance(s, str) else repr(s)))

    direct = {}

    def limited(kind, n=3):
        """at most `n` reports per class of direct (un-shrunk) disagreement"""
        direct[kind] = direct.get(kind, 0) + 1
        return direct[kind] <= n

    # ---- 1. integers -------------------------------------------------------------------------------------
    shr_int = make_str_shrinker(ctx, "int", real.int)
    alpha = "0179afxob_+- gX"
    n_int = 0
    for s in all_strings(alpha, ctx.pick(4, 5)):
        B.add(f"int {hs(s)}", real.int(s), "auto_int", s, shrink=shr_int, site="utils.auto_int")
        n_int += 1
    ctx.ev(n_int)
    ctx.kind(*["int:exhaustive-small-alphabet"] * 1)
    ctx.dist["int:exhaustive-small-alphabet"] += n_int - 1
    ctx.distinct.add(hash(("int-exh", n_int)))
    ctx.exhaustive_parts.append(f"auto_int on every string of length <= {ctx.pick(4, 5)} over '{alpha}' ({n_int} strings)")
    B.flush()

    # spelled integers: the theorem's own `spell` renders, the real code must read the number back
    specs = []
    for _ in range(ctx.pick(1500, 15000)):
        sp = rand_sp(rng)
        z = rng.choice([0, 1, -1, rng.randrange(-300, 300), rng.randrange(-(1 << 16), 1 << 16),
                        rng.randrange(-(1 << 70), 1 << 70)])
        specs.append((sp, z))
    outs = ctx.lean([f"spell {sp_tok(sp)} {z}" for sp, z in specs])
    for (sp, z), o in zip(specs, outs):
        s = unhs(o)
        nt("auto_int", s)
        ctx.kind(f"int:spelled-base-{sp['base']}" + ("-neg" if z < 0 else ""))
        exp = f"some {z}"
        B.add(f"int {hs(s)}", real.int(s), "auto_int", s, shrink=shr_int, site="utils.auto_int")
        r = real.int(s)
        if r != exp and limited("auto_int-spell"):
            ctx.disagree(f"auto_int-spell:{sp['base']}:{s!r}", f"auto_int({s!r}) = {r}, the spelled integer is {z}",
                         {"fn": "auto_int", "input": s, "spelled": z}, impl=r, model=exp, spec_violated=True, site="utils.auto_int")
        r2 = real.field_int(s)
        if r2 != exp and limited("AutoInt-field"):
            ctx.disagree(f"AutoInt-field:{sp['base']}:{s!r}", f"AutoInt field on {s!r} = {r2}, the spelled integer is {z}",
                         {"fn": "AutoInt", "input": s, "spelled": z}, impl=r2, model=exp, spec_violated=True, site="command.config.AutoInt")
    # Python's own notations and near misses
    for _ in range(ctx.pick(600, 6000)):
        n = rng.choice([rng.randrange(300), rng.randrange(1 << 20), rng.randrange(1 << 64)])
        s = rng.choice(["{:#x}", "{:#o}", "{:#b}", "{:d}", "{:_d}", "{:#_x}", "{:#010x}", "{:#X}", " {:d}\n", "-{:#x}", "+{:d}",
                        "0{:d}", "{:x}", "{:d}_", "_{:d}", "0x{:x}g", "{:d} 1", "0b{:d}", "0o{:d}", "- {:d}", "{:#x} \t"]).format(n)
        nt("auto_int", s)
        ctx.kind("int:python-format-or-near-miss")
        B.add(f"int {hs(s)}", real.int(s), "auto_int", s, shrink=shr_int, site="utils.auto_int")
    B.flush()

    # ---- 2. one-dimensional ranges -----------------------------------------------------------------------
    shr_u1 = make_str_shrinker(ctx, "unravel", real.unravel1)
    alpha1 = "013-, x"
    cnt = 0
    for s in all_strings(alpha1, ctx.pick(5, 6)):
        B.add(f"unravel {hs(s)}", real.unravel1(s), "unravel", s, shrink=shr_u1, site="utils.unravel")
        cnt += 1
    ctx.ev(cnt)
    ctx.dist["unravel:exhaustive-small-alphabet"] += cnt
    ctx.distinct.add(hash(("u1-exh", cnt)))
    ctx.exhaustive_parts.append(f"unravel on every string of length <= {ctx.pick(5, 6)} over '{alpha1}' ({cnt} strings)")
    B.flush()

    cases = [rand_elems(rng, WS) for _ in range(ctx.pick(1200, 12000))]
    cases += [[("r", 0x10, 0x2F, rand_sp(rng, ""), rand_sp(rng, "")), ("o", 0x3E, rand_sp(rng, ""))]]
    toks = [elems_tok(es) for es in cases]
    rendered = ctx.lean([f"render {t}" for t in toks])
    denoted = ctx.lean([f"denote {t}" for t in toks])
    for es, r, d in zip(cases, rendered, denoted):
        s = unhs(r)
        nt("unravel", s)
        ctx.kind(*[f"unravel:{k}" for k in sorted(elems_kind(es))] or ["unravel:empty"])
        impl = real.unravel1(s)
        if impl != d and limited("unravel-render"):
            s2, impl2, d2 = s, impl, d
            ctx.disagree(f"unravel-render:{s2!r}", f"unravel({s2!r}) = {impl2}; the expression denotes {d2}",
                         {"fn": "unravel", "input": s2, "elements": elems_tok(es)}, impl=impl2, model=d2, spec_violated=True,
                         site="utils.unravel")
        B.add(f"unravel {hs(s)}", impl, "unravel", s, shrink=shr_u1, site="utils.unravel")
    B.flush()
    # Ranges field (command/config._process_ranges): strings whose elements carry no inner whitespace, separated by
    # commas and / or whitespace; CLI word lists
    shr_pr = make_str_shrinker(ctx, "pranges", real.pranges)
    pr_cases = []
    pr_specs = [rand_elems(rng, "", maxn=5) for _ in range(ctx.pick(600, 6000))]
    sp_reqs = []
    for es in pr_specs:
        for e in es:
            sp_reqs += [(e[2], e[1])] if e[0] == "o" else [(e[3], e[1]), (e[4], e[2])]
    sp_out = iter(ctx.lean([f"spell {sp_tok(sp)} {n}" for sp, n in sp_reqs]))
    for es in pr_specs:
        pieces = []
        for e in es:
            if e[0] == "o":
                pieces.append(unhs(next(sp_out)))
            else:
                a = unhs(next(sp_out))
                pieces.append(a + "-" + unhs(next(sp_out)))
        seps = [rng.choice([",", ",", " ", "  ", "\t", "\n"]) for _ in pieces]
        s = "".join(p + sep for p, sep in zip(pieces, seps))
        s = s[:-len(seps[-1])] if pieces else s
        if rng.random() < 0.2:
            s = rng.choice([" ", "\t"]) + s + rng.choice([" ", "\n"])
        pr_cases.append((s, pieces))
    for s, pieces in pr_cases:
        nt("Ranges", s)
        ctx.kind("ranges-field:string")
        B.add(f"pranges {hs(s)}", real.pranges(s), "_process_ranges", s, shrink=shr_pr, site="command.config._process_ranges")
        B.add(f"pranges {hs(s)}", real.field_ranges(s), "Ranges-field", s, shrink=None, site="command.config.Ranges")
        if pieces:
            ctx.kind("ranges-field:word-list")
            joined = ",".join(pieces)
            B.add(f"unravel {hs(joined)}", real.field_ranges(list(pieces)), "Ranges-field-list", joined, site="command.config.Ranges")
    B.flush()

    # ---- 3. two-dimensional ranges -----------------------------------------------------------------------
    shr_u2 = make_str_shrinker(ctx, "unravel2d", real.unravel2)
    alpha2 = "12-,: "
    cnt = 0
    for s in all_strings(alpha2, ctx.pick(6, 7)):
        B.add(f"unravel2d {hs(s)}", real.unravel2(s), "unravel_2d", s, shrink=shr_u2, site="utils.unravel_2d")
        cnt += 1
    ctx.ev(cnt)
    ctx.dist["unravel2d:exhaustive-small-alphabet"] += cnt
    ctx.distinct.add(hash(("u2-exh", cnt)))
    ctx.exhaustive_parts.append(f"unravel_2d on every string of length <= {ctx.pick(6, 7)} over '{alpha2}' ({cnt} strings)")
    B.flush()

    cases2 = [rand_items(rng) for _ in range(ctx.pick(1200, 12000))]
    toks2 = [items_tok(it) for it in cases2]
    rendered = ctx.lean([f"render2d {t}" for t in toks2])
    denoted = ctx.lean([f"denote2d {t}" for t in toks2])
    for items, r, d in zip(cases2, rendered, denoted):
        s = unhs(r)
        nt("unravel_2d", s)
        keys = [e[1] for o, _ in items for e in o]
        ctx.kind("unravel2d:items-%d" % len(items))
        if any(i is None and o for o, i in items):
            ctx.kind("unravel2d:bare-outer-key")
        if len(keys) != len(set(keys)):
            ctx.kind("unravel2d:repeated-outer-key")
        impl = real.unravel2(s)
        if impl != d and limited("unravel2d-render"):
            ctx.disagree(f"unravel2d-render:{s!r}", f"unravel_2d({s!r}) = {impl}; the expression denotes {d}",
                         {"fn": "unravel_2d", "input": s, "items": items_tok(items)}, impl=impl, model=d, spec_violated=True,
                         site="utils.unravel_2d")
        B.add(f"unravel2d {hs(s)}", impl, "unravel_2d", s, shrink=shr_u2, site="utils.unravel_2d")
        words = s.split(" ")
        B.add(f"unravel2d {hs(s)}", real.field_ranges2d(words), "Ranges2D-field-list", s, site="command.config.Ranges2D")
        B.add(f"unravel2d {hs(s)}", real.field_ranges2d(s), "Ranges2D-field", s, site="command.config.Ranges2D")
    B.flush()

    # ---- 4. host:port ------------------------------------------------------------------------------------
    fixed_hosts = ["ecu.example", "192.168.0.10", "fe80::1", "::1"]
    cnt = 0
    sj_reported = set()
    port_range = range(0, 65536)
    for h in fixed_hosts[: ctx.pick(3, 4)]:
        for p in port_range:
            j = real.join_host_port(h, p)
            B.add(f"join {hs(h)} {p}", hs(j), "join_host_port", {"host": h, "port": p}, shrink=shrink_join(ctx, real),
                  site="net.join_host_port")
            # the round trip the property names, on the real functions
            rt = real.split(j, None)
            exp = f"{hs(canon_host(h))} {p}"
            if rt != exp and h not in sj_reported:
                sj_reported.add(h)
                pm = min_port(lambda q: real.split(real.join_host_port(h, q), None) != f"{hs(canon_host(h))} {q}", p)
                ctx.disagree(f"split-join:{h}:{pm}", f"split_host_port(join_host_port({h!r}, {pm})) is not ({h!r}, {pm})",
                             {"fn": "split_join", "host": h, "port": pm}, impl=real.split(real.join_host_port(h, pm), None),
                             model=f"{hs(canon_host(h))} {pm}", spec_violated=True, site="net.split_host_port/join_host_port")
            cnt += 1
    ctx.ev(cnt)
    ctx.dist["hostport:join-split-all-ports"] += cnt
    ctx.distinct.add(hash(("hp-exh", cnt)))
    ctx.exhaustive_parts.append(f"join_host_port / split_host_port round trip for every port 0..65535 on {fixed_hosts[: ctx.pick(3, 4)]}")
    B.flush()
    # every port digit string of length <= 5 over a small digit alphabet, with / without default
    cnt = 0
    for h in ["h", "10.0.0.1", "[fe80::1]"]:
        for ps in all_strings("01569", 5):
            for d in (None, 22):
                s = f"{h}:{ps}"
                B.add(f"split {hs(s)} {'none' if d is None else d}", real.split(s, d), "split_host_port", {"s": s, "default": d},
                      canon=canon_model_split, shrink=shrink_split(ctx, real), site="net.split_host_port")
                cnt += 1
    ctx.ev(cnt)
    ctx.dist["hostport:split-exhaustive-port-strings"] += cnt
    ctx.distinct.add(hash(("hp-exh2", cnt)))
    ctx.exhaustive_parts.append("split_host_port on host ':' every digit string of length <= 5 over '01569' (3 host kinds, default none / 22)")
    B.flush()
    for _ in range(ctx.pick(1500, 15000)):
        h, hk = rand_host(rng)
        p = rand_port(rng)
        d = rng.choice([None, None, 22, 0])
        if p is None:
            s = h if rng.random() < 0.7 or ":" not in h else f"[{h}]"
        else:
            j = real.join_host_port(h, p)
            B.add(f"join {hs(h)} {p}", hs(j), "join_host_port", {"host": h, "port": p}, shrink=shrink_join(ctx, real),
                  site="net.join_host_port")
            s = f"[{h}]:{p}" if ":" in h else f"{h}:{p}"
            if rng.random() < 0.08:
                s = s.rsplit(":", 1)[0] + ":" + rng.choice(["", "65536", "99999", "+80", " 80", "0x50", "-1", "8a", "00080"])
        nt("split_host_port", s)
        ctx.kind(f"hostport:{hk}:" + ("no-port" if p is None else "port"))
        B.add(f"split {hs(s)} {'none' if d is None else d}", real.split(s, d), "split_host_port", {"s": s, "default": d},
              canon=canon_model_split, shrink=shrink_split(ctx, real), site="net.split_host_port")
    B.flush()

    # ---- 5. URIs -----------------------------------------------------------------------------------------
    from gallia.transports.schemes import TransportScheme
    schemes = [s.value for s in TransportScheme]
    uri_cases = []
    for h in ["ecu", "10.0.0.1", "fe80::1", "::1"]:
        for p in [None, 0, 1, 6801, 65535]:
            for sch in ("doip", "hsfz", "isotp"):
                uri_cases.append((sch, h, p, rand_args(rng, sch)[0], "grid"))
    for _ in range(ctx.pick(2500, 25000)):
        sch = rng.choice(["doip", "hsfz", "isotp", "doip", "hsfz", "isotp"] + schemes)
        if sch in ("isotp", "can-raw"):
            h, hk = rng.choice(["can0", "vcan0", "can1"]) if rng.random() < 0.7 else rand_name(rng), "iface"
            p = None
        else:
            h, hk = rand_host(rng)
            p = rand_port(rng)
        a, ak = rand_args(rng, sch)
        uri_cases.append((sch, h, p, a, f"{hk}:{ak}"))
    lines = []
    for sch, h, p, a, _ in uri_cases:
        sa = {k: str(v) for k, v in a.items()}
        lines.append(f"fromparts {hs(sch)} {hs(h)} {'none' if p is None else p} {show_args(sa)}")
    model_uris = ctx.lean(lines)
    parse_lines = [f"parse {m}" for m in model_uris]
    model_parsed = [canon_model_parse(x) for x in ctx.lean(parse_lines)]
    cfg_lines, cfg_idx = [], []
    for i, ((sch, h, p, a, _), mp) in enumerate(zip(uri_cases, model_parsed)):
        if sch in real.cfg and mp != "err":
            cfg_lines.append(f"config {sch} {mp.split()[3]}")
            cfg_idx.append(i)
    model_cfg = dict(zip(cfg_idx, ctx.lean(cfg_lines)))
    shrink_budget = {}

    def budget(k):
        shrink_budget[k] = shrink_budget.get(k, 0) + 1
        return shrink_budget[k] <= 5

    for i, ((sch, h, p, a, kind), mu, mp) in enumerate(zip(uri_cases, model_uris, model_parsed)):
        case = {"scheme": sch, "host": h, "port": p, "args": {k: a[k] for k in a}}
        nt("from_parts", repr(case))
        ctx.kind(f"uri:{sch}", f"uri:{kind}", "uri:port-none" if p is None else "uri:port")
        ru = real.from_parts(sch, h, p, a)
        raw = unhs(ru) if not ru.startswith("exc:") else None
        rp = real.parse(raw) if raw is not None else "exc"
        sh = shrink_uri(ctx, real)
        if ru != mu and budget("str"):
            c2, i2, m2 = sh(case, "str")
            ctx.disagree("from_parts-string:" + case_key(c2), f"TargetURI.from_parts{tuple(c2.values())} renders {i2!r}; expected {m2!r}",
                         {"fn": "from_parts", **c2}, impl=i2, model=m2, spec_violated=True, site="TargetURI.from_parts")
        if rp != mp and budget("parse"):
            c2, i2, m2 = sh(case, "parse")
            ctx.disagree("from_parts-parse-back:" + case_key(c2),
                         f"TargetURI.from_parts{tuple(c2.values())} does not parse back to its parts: got {i2}, expected {m2}",
                         {"fn": "from_parts+parse", **c2}, impl=i2, model=m2, spec_violated=True, site="TargetURI")
        if i in model_cfg and raw is not None:
            q = real.qs_flat(raw)
            rc = real.config(sch, q) if q is not None else "err"
            if rc != model_cfg[i] and budget("config-" + sch):
                c2, i2, m2 = sh(case, "config")
                ctx.disagree(f"config-{sch}:" + case_key(c2), f"{sch} config built from the URI differs: got {i2}, expected {m2}",
                             {"fn": "config", **c2}, impl=i2, model=m2, spec_violated=True, site=f"{sch} config")
            ctx.traces_validated += 1
    # hand-written / scanner-template raw URIs (doip discovery f-strings, the pinned test URIs and variations)
    raws = []
    for _ in range(ctx.pick(800, 8000)):
        h, hk = rand_host(rng)
        host = f"[{h}]" if ":" in h else h
        port = rng.choice([13400, 0, 65535, rng.randrange(65536)])
        pv, rat, src, tgt = rng.choice([2, 3, 0xFF]), rng.choice([0, 1, 0xE0]), rng.randrange(0x10000), rng.randrange(0x10000)
        raws.append(("doip", f"doip://{host}:{port}?protocol_version={pv}&activation_type={rat:#x}&src_addr={src:#x}&target_addr={tgt:#x}"))
        raws.append(("doip", f"doip://{host}:{port}?protocol_version={pv}&activation_type={rat:#x}&src_addr={src:#x}"))
        raws.append((None, f"doip://{host}:{port}"))
        a, _k = rand_args(rng, "isotp")
        q = "&".join(f"{k}={v}" for k, v in a.items())
        raws.append(("isotp", rng.choice([f"isotp://can0?{q}", f"isotp://can0?{q}&src_addr=7", f"isotp://can0/?{q}#frag", f"ISOTP://CAN0?{q}&&x="])))
    raws += [(None, "doip://h:"), (None, "doip://h:65536"), (None, "doip://h:x"), (None, "doip://[::1]"), (None, "doip://[::1]:0"),
             (None, "doip:h"), (None, "doip:///p"), (None, "doip://"), (None, "nocolon"), (None, "doip:?a=1"), (None, "1doip://h"), (None, "doip://h?a=1&a=2&b=&c")]
    plines = [f"parse {hs(r)}" for _, r in raws]
    pm = [canon_model_parse(x) for x in ctx.lean(plines)]
    clines, cidx = [], []
    for i, ((sch, r), mp) in enumerate(zip(raws, pm)):
        nt("TargetURI", r)
        ctx.kind("uri:raw-" + (sch or "plain"))
        rp = real.parse(r)
        if rp != mp and limited("TargetURI-parse"):
            ctx.disagree(f"TargetURI-parse:{r!r}", f"TargetURI({r!r}) reads {rp}; expected {mp}", {"fn": "parse", "input": r},
                         impl=rp, model=mp, spec_violated=True, site="TargetURI")
        if sch and mp != "err":
            clines.append(f"config {sch} {mp.split()[3]}")
            cidx.append(i)
    for i, mc in zip(cidx, ctx.lean(clines)):
        sch, r = raws[i]
        q = real.qs_flat(r)
        rc = real.config(sch, q) if q is not None else "err"
        if rc != mc and limited(f"config-{sch}-raw"):
            ctx.disagree(f"config-{sch}-raw:{r!r}", f"{sch} config from {r!r}: got {rc}, expected {mc}", {"fn": "config", "input": r},
                         impl=rc, model=mc, spec_violated=True, site=f"{sch} config")
        ctx.traces_validated += 1

    # ---- 6. the discovery scanners -----------------------------------------------------------------------
    n_found = 0
    for _ in range(ctx.pick(25, 250)):
        h, hk = rng.choice([("ecu", "name"), ("10.0.0.7", "ipv4"), ("fe80::7", "ipv6"), ("::1", "ipv6"), rand_host(rng)])
        if "%" in h:
            continue
        port = rng.choice([6801, 0, 1, 65535, rng.randrange(65536)])
        src = rng.choice([0xF4, 0, 0xFF, rng.randrange(256)])
        start = rng.randrange(0, 250)
        stop = start + rng.randrange(0, 6)
        answering = {d for d in range(start, stop + 1) if rng.random() < 0.6}
        try:
            found = run_hsfz_discoverer(real, h, port, src, start, stop, answering)
        except Exception as e:  # noqa
            found = [f"exc:{type(e).__name__}:{e}"]
        ctx.kind(f"scanner:hsfz:{hk}")
        exp = [(h, port, src, d) for d in sorted(answering)]
        got = []
        for raw in found:
            ctx.ev()
            n_found += 1
            got.append(scanner_readback(real, "hsfz", raw))
        want = [f"hsfz {hs(canon_host(h.lower()))} {port} src={src} dst={d} ack=1000" for (_h, _p, _s, d) in exp]
        if got != want:
            k = next((i for i in range(min(len(got), len(want))) if got[i] != want[i]), 0)
            ctx.disagree(f"hsfz-discoverer:{hk}:port={'0' if port == 0 else 'n'}",
                         f"HSFZ discoverer on {h!r}:{port} src={src:#x} emitted {found[k] if k < len(found) else None!r}, which does not read back as "
                         f"{want[k] if k < len(want) else None}",
                         {"fn": "hsfz-discoverer", "host": h, "port": port, "src": src, "answering": sorted(answering), "emitted": found},
                         impl=got[k] if k < len(got) else None, model=want[k] if k < len(want) else None, spec_violated=True,
                         site="commands/discover/hsfz.py")
        ctx.traces_validated += 1
        nt("hsfz-discoverer", repr((h, port, src, start, stop, sorted(answering))))
    for _ in range(ctx.pick(25, 250)):
        iface = rng.choice(["can0", "vcan0", "can1"])
        extended = rng.random() < 0.4
        start = rng.randrange(0, 0xF0) if extended else rng.randrange(0, 0x7F0)
        stop = start + rng.randrange(0, 6)
        padding = rng.choice([None, 0, 0xAA, 0x55, rng.randrange(256)])
        tester = rng.choice([0x6F1, rng.randrange(0x100, 0x7FF)])
        is_fd, is_ext = rng.random() < 0.3, rng.random() < 0.3
        answers = {i: rng.randrange(0x800, 0x900) for i in range(start, stop + 1) if rng.random() < 0.6}
        try:
            found = run_isotp_discoverer(real, iface, start, stop, padding, extended, tester, is_fd, is_ext, answers)
        except Exception as e:  # noqa
            found = [f"exc:{type(e).__name__}:{e}"]
        ctx.kind("scanner:isotp:" + ("extended" if extended else "normal") + (":padding" if padding is not None else ""))
        want = []
        for i in sorted(answers):
            b = lambda v: "true" if v else "false"  # noqa
            pad = "dflt" if padding is None else str(padding)
            if extended:
                want.append(f"isotp {hs(iface)} none src={tester} dst={answers[i]} ext={b(is_ext)} fd={b(is_fd)} ft=dflt ea={i} "
                            f"ra={tester & 0xFF} tp={pad} rp={pad} dl=dflt")
            else:
                want.append(f"isotp {hs(iface)} none src={i} dst={answers[i]} ext={b(is_ext)} fd={b(is_fd)} ft=dflt ea=dflt ra=dflt "
                            f"tp={pad} rp={pad} dl=dflt")
        got = []
        for raw in found:
            ctx.ev()
            n_found += 1
            got.append(scanner_readback(real, "isotp", raw))
        if got != want:
            k = next((i for i in range(min(len(got), len(want))) if got[i] != want[i]), 0)
            ctx.disagree(f"isotp-discoverer:{'extended' if extended else 'normal'}",
                         f"ISO-TP discoverer emitted {found[k] if k < len(found) else None!r}, which does not read back as {want[k] if k < len(want) else None}",
                         {"fn": "isotp-discoverer", "iface": iface, "start": start, "stop": stop, "padding": padding, "extended": extended,
                          "tester": tester, "answers": answers, "emitted": found},
                         impl=got[k] if k < len(got) else None, model=want[k] if k < len(want) else None, spec_violated=True,
                         site="commands/discover/uds/isotp.py")
        # the oracle must read the emitted URIs the same way
        for raw in found:
            if not raw.startswith("exc:"):
                raws_line = f"parse {hs(raw)}"
                B.add(raws_line, real.parse(raw), "TargetURI(scanner-output)", raw, canon=canon_model_parse, site="TargetURI")
        ctx.traces_validated += 1
        nt("isotp-discoverer", repr((iface, start, stop, padding, extended, tester, sorted(answers.items()))))
    B.flush()
    ctx.notes["scanner_uris_read_back"] = n_found

    # ---- 7. percent-encoding, Unicode edge, arbitrary parameter maps, every transport, unix sockets ---------
    c20_ext.run_ext(ctx, real, B, sys.modules[__name__], nt, limited)
    B.flush()
    ctx.sample({"fn": "unravel", "input": unhs(ctx.lean([f"render {toks[0]}"])[0]), "oracle": ctx.lean([f"denote {toks[0]}"])[0]})
    ctx.sample({"fn": "from_parts", "case": repr(uri_cases[3][:4]), "oracle": unhs(model_uris[3]), "parsed": model_parsed[3]})


def scanner_readback(real, scheme, raw):
    """what the transport of `scheme` would use when given the emitted URI"""
    if raw.startswith("exc:"):
        return raw
    p = real.parse(raw)
    if p == "err":
        return "unparseable"
    sch, host, port, _args, _path = p.split()
    q = real.qs_flat(raw)
    return f"{unhs(sch)} {host} {port} {real.config(scheme, q)}"


def min_port(fails, p):
    for q in (0, 1, 80):
        if q < p and fails(q):
            return q
    return p


def shrink_join(ctx, real):
    def shrink(case, impl, mo):
        h, p = case["host"], case["port"]
        cands = [(hh, pp) for hh in dict.fromkeys(["h", "1.2.3.4", "::1", h]) for pp in dict.fromkeys([0, 1, 80, p])]
        outs = ctx.lean([f"join {hs(hh)} {pp}" for hh, pp in cands])
        for (hh, pp), o in zip(cands, outs):
            r = real.join(hh, pp)
            if r != o:
                return {"host": hh, "port": pp}, unhs(r), unhs(o)
        return case, impl, mo

    return shrink


def shrink_split(ctx, real):
    """in-scope shrinking: simpler host kinds first, then shorter port text, then no default"""

    def differs(s, d):
        o = canon_model_split(ctx.lean([f"split {hs(s)} {'none' if d is None else d}"])[0])
        r = real.split(s, d)
        return r != o, r, o

    def shrink(case, impl, mo):
        s, d = case["s"], case["default"]
        if s.startswith("["):
            host, _, rest = s.partition("]")
            host += "]"
        else:
            host, sep, rest = s.partition(":") if s.count(":") == 1 else (s, "", "")
            rest = sep + rest
        best = (s, d, impl, mo)
        for hh in ("h", "1.2.3.4", "[::1]"):
            if hh == host:
                break
            bad, r, o = differs(hh + rest, d)
            if bad:
                host = hh
                best = (hh + rest, d, r, o)
                break
        port = rest[1:] if rest.startswith(":") else None
        if port is not None:
            changed = True
            while changed and len(port) > 1:
                changed = False
                for i in range(len(port)):
                    c = port[:i] + port[i + 1:]
                    bad, r, o = differs(f"{host}:{c}", d)
                    if bad:
                        port, best, changed = c, (f"{host}:{c}", d, r, o), True
                        break
        if best[1] is not None:
            bad, r, o = differs(best[0], None)
            if bad:
                best = (best[0], None, r, o)
        return {"s": best[0], "default": best[1]}, best[2], best[3]

    return shrink


def shrink_uri(ctx, real):
    def evaluate(c, what):
        sa = {k: str(v) for k, v in c["args"].items()}
        mu = ctx.lean([f"fromparts {hs(c['scheme'])} {hs(c['host'])} {'none' if c['port'] is None else c['port']} {show_args(sa)}"])[0]
        ru = real.from_parts(c["scheme"], c["host"], c["port"], c["args"])
        if what == "str":
            return (unhs(ru) if not ru.startswith("exc:") else ru), unhs(mu)
        mp = canon_model_parse(ctx.lean([f"parse {mu}"])[0])
        raw = unhs(ru) if not ru.startswith("exc:") else None
        if what == "parse":
            return (real.parse(raw) if raw is not None else "exc"), mp
        mc = ctx.lean([f"config {c['scheme']} {mp.split()[3]}"])[0] if mp != "err" else "err"
        q = real.qs_flat(raw) if raw is not None else None
        return (real.config(c["scheme"], q) if q is not None else "err"), mc

    def shrink(case, what):
        cur = dict(case)
        cur["args"] = dict(case["args"])
        if what != "config" and cur["scheme"] != "tcp":
            c = dict(cur, scheme="tcp")
            i, m = evaluate(c, what)
            if i != m:
                cur = c
        # fixed order: drop parameters, simplify the port, simplify the host
        for k in list(cur["args"]):
            c = dict(cur, args={x: v for x, v in cur["args"].items() if x != k})
            i, m = evaluate(c, what)
            if i != m:
                cur = c
        for k in list(cur["args"]):
            for v in ("1", "0x1"):
                if str(cur["args"][k]) == v:
                    break
                c = dict(cur, args={**cur["args"], k: v})
                i, m = evaluate(c, what)
                if i != m:
                    cur = c
                    break
        for p in (None, 0, 1):
            if cur["port"] == p:
                break
            c = dict(cur, port=p)
            i, m = evaluate(c, what)
            if i != m:
                cur = c
                break
        for h in ("h", "1.2.3.4", "::1"):
            if cur["host"] == h:
                break
            c = dict(cur, host=h)
            i, m = evaluate(c, what)
            if i != m:
                cur = c
                break
        i, m = evaluate(cur, what)
        return cur, i, m

    return shrink


def replay(ctx, case):
    """re-run one recorded case on the current tree and print both sides"""
    real = Real()
    c = case.get("case", {})
    fn = c.get("fn")
    print("recorded:", {k: case.get(k) for k in ("key", "what", "impl", "model")})
    ops = {"auto_int": ("int", real.int), "unravel": ("unravel", real.unravel1), "unravel_2d": ("unravel2d", real.unravel2),
           "_process_ranges": ("pranges", real.pranges), "parse": ("parse", real.parse)}
    differs = False
    if fn in ops and isinstance(c.get("input"), str):
        op, f = ops[fn]
        mo = ctx.lean([f"{op} {hs(c['input'])}"])[0]
        if fn == "parse":
            mo = canon_model_parse(mo)
        impl = f(c["input"])
        print(f"now: {fn}({c['input']!r}) impl={impl} oracle={mo}")
        differs = impl != mo
    elif fn == "split_host_port":
        i = c["input"]
        mo = canon_model_split(ctx.lean([f"split {hs(i['s'])} {'none' if i['default'] is None else i['default']}"])[0])
        impl = real.split(i["s"], i["default"])
        print(f"now: split_host_port({i['s']!r}, {i['default']}) impl={impl} oracle={mo}")
        differs = impl != mo
    elif fn in ("join_host_port", "split_join"):
        i = c["input"] if "input" in c else c
        mo = ctx.lean([f"join {hs(i['host'])} {i['port']}"])[0]
        impl = real.join(i["host"], i["port"])
        print(f"now: join_host_port({i['host']!r}, {i['port']}) impl={unhs(impl)!r} oracle={unhs(mo)!r}; "
              f"split(join) = {real.split(real.join_host_port(i['host'], i['port']), None)}")
        differs = impl != mo
    elif fn in ("from_parts", "from_parts+parse", "config"):
        if "scheme" in c:
            sh = shrink_uri(ctx, real)
            for what in ("str", "parse") + (("config",) if c["scheme"] in real.cfg else ()):
                _c, i, m = sh({k: c[k] for k in ("scheme", "host", "port", "args")}, what)
                print(f"now [{what}]: impl={i!r} oracle={m!r}")
                differs = differs or i != m
    else:
        r = c20_ext.replay_ext(ctx, real, sys.modules[__name__], c)
        if r is None:
            print("no specialised replay for this case; recorded case printed above")
        else:
            differs = r
    return differs


MANIFEST = {
    "level_text": ("Lean 4 theorems over the parsing oracle: every spelling of every integer (sign, 0x/0o/0b in either case, leading "
                   "zeros, digit-group underscores, surrounding white space incl. the non-ASCII spaces int() skips, decimal digits of "
                   "any Unicode script) is read back as that integer, the base-0 rule rejects 010, and whatever auto_int accepts "
                   "consists of ASCII, Unicode spaces and Unicode decimal digits only (U+001C..1F are not skipped); a range "
                   "expression rendered in any of these notations denotes exactly the strictly increasing, duplicate-free union of "
                   "its numbers and inclusive ranges (reversed ranges empty), per outer key in the two-dimensional form with a bare "
                   "key meaning all; host:port join/split for names, IPv4, IPv6 and every port 0..65535; percent-encoding "
                   "(quote_plus / unquote_plus / unquote_to_bytes, UTF-8 with U+FFFD replacement) round-trips every byte string "
                   "and every text; TargetURI.from_parts / parse round-trips scheme, host, port and ANY parameter map with distinct "
                   "names and non-blank values (`&`, `=`, `#`, `?`, `%`, `+`, space, non-ASCII included), and qs_flat of any "
                   "parameter list is exactly 'blank values dropped, first value of a name kept'; for every transport of the "
                   "live registry (tcp, tcp-lines, doip, hsfz, isotp, can-raw, unix, unix-lines) the settings read from such a URI "
                   "are the numbers / truth values written, in every spelling the field's reader accepts (auto_int: all bases; plain "
                   "int: decimal with sign, leading zeros, .0, white space; bool: every accepted word in any capitalisation), "
                   "unknown parameters ignored, and connect() goes on with the written host, the written or default port (13400 / "
                   "6801) or the written unix path, after a scheme check that refuses every other scheme (HSFZ has none); the ISO-TP "
                   "option block handed to setsockopt is struct can_isotp_options and decodes, as the kernel reads it, to the numbers "
                   "the URI states under ext_address / tx_padding / rx_padding / rx_ext_address with exactly the flags of the settings "
                   "present (isotp_opts_roundtrip, isotp_uri_programs_written_numbers). Tied to "
                   "the code by regenerated tables (transport registry with field kinds / required flags / connect facts by AST, "
                   "TransportScheme, the Unicode space / digit tables of the running interpreter, pydantic's trim set, quote's safe "
                   "set) and a differential run of the real auto_int, unravel, unravel_2d, Ranges/Ranges2D/AutoInt field types, "
                   "split_host_port/join_host_port, urllib quoting, TargetURI, every transport's pydantic config and connect() "
                   "(network calls recorded, every setsockopt block and the bound CAN ids compared with the oracle's over all combinations of "
                   "absent / 0 / hex / decimal / octal / binary spellings of the optional ISO-TP settings), and the HSFZ / ISO-TP discovery scanners (fake buses): exhaustive over small "
                   "alphabets, all ports, every BMP code point in digit / space position, all byte strings <= 2 for the codecs; "
                   "Hypothesis text for parameter names and values; seeded over the grammars."),
    "level_note": ("Trusted: Lean kernel (axioms propext, Quot.sound, Classical.choice), urlsplit's handling of non-ASCII / malformed "
                   "network locations, ipaddress, pydantic's lax int beyond the tied texts, the harness; lone surrogates outside; "
                   "IP-literal hosts compared as addresses; connect() observed up to the first network call; kernel struct layouts / constants written down from the "
                   "headers; little-endian host."),
    "technique": ("Lean 4 proof (structural / well-founded induction over the parsers, renderers and codecs; table facts by kernel "
                  "evaluation) + regenerated tables with agreement obligations + differential correspondence against the real parsers, "
                  "config models and connect() methods"),
    "design_ref": "DESIGN.md section 7, C20",
}
