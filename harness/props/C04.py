"""C04 - one client request ends with the outcome its reply / fault sequence implies.

The real `UDSClient.request()` runs on a scripted fake transport (a `BaseTransport` subclass whose k-th `read()`
produces the k-th event of the script: TimeoutError, ConnectionError, b"", or a real PDU) under the virtual-time
loop, and is compared with `Model/Client.lean` (driver `c04`): the sequence of write / read(timeout) / reconnect
calls with their virtual timestamps, the outcome (class, which read was returned, `__cause__` presence) and the
virtual time consumed.

Widened cases (`"x": 1`, model `Model/ClientIO.lean`, driver command `runx`): the scripted transport can also fail in
`write()` (TimeoutError / ConnectionError, j-th write) and in `connect()` during `reconnect_unsafe()` (ConnectionError /
TimeoutError / OSError, m-th reconnect); the client's mutex is instrumented, so the compared call sequence is
acquire, write(timeout, result), read(k, timeout), reconnect(result), release with virtual timestamps.  The client
timeout may be `None` or 0 there (`timeout if timeout else 0`, `_read`'s `timeout is None and self.timeout`).

Session cases (`{"session": [step, ...]}`, model `Model/ClientSession.lean`): several requests, one after the other, in
ONE fresh process, over 24 request kinds whose services share sub-function ids.  `runSession` keeps nothing between
requests (theorems `session_step`, `session_history_irrelevant`), so every step is compared with the model of that step
alone; a step that ends differently only because of what the process requested before is a failing input whose replay
is the whole (minimised) session.

Whether a difference falsifies the *property* is decided by the specification `Spec/ClientSpec.lean` (widened cases:
`Spec/ClientIOSpec.lean`): by the theorems `implied_iff_run`, `writes_eq`, `reads_le`, `elapsed_le`, `first_final` and
`pending_no_write` of `Proofs/C04.lean` (widened: the same names with `_io`) an observed behaviour satisfies the
specification iff its outcome and number of write attempts equal the model's, it stays within the proved bounds, it
never reads past a final reply and never transmits right after a responsePending.  Every other difference (sleep lengths, reconnects, timeouts passed) is a broken
tie and not a failing input.
"""
import asyncio
import multiprocessing
import subprocess

from common import LEAN, setup_repo_import
from vloop import Stall, VLoop

ID = "C04"
GENS = ["c04_limits"]
PROOF = "Gallia.Proofs.C04"
DRIVER = "c04"
ORACLE = False
ASSUMPTIONS = [
    "a busyRepeatRequest that arrives after a responsePending is a final reply (the request was acknowledged as "
    "received, so it is returned and not retransmitted); specification and code agree on this reading",
    "a read that does not time out takes a fixed latency smaller than both the request timeout and the 0.5 s poll "
    "interval; a reply arriving during a backoff sleep is represented by the next read returning it immediately",
    "reading of the property for faults outside its alphabet: a TimeoutError / ConnectionError raised by write() is a "
    "retry-worthy event of the same kind as the corresponding read fault (one write attempt per event, failed attempts "
    "counted, no read in that attempt); a failing reconnect_unsafe() (ConnectionError / TimeoutError / other OSError) ends "
    "the request with that exception - the property lists no reconnect failure and names no error for it, so the "
    "specification names the outcome reconnectFailed(m, kind) and does not count it as a violation; the harness "
    "identifies it by the raised exception object (or a re-raise chained to it) and compares its kind",
    "write() that does not time out and reconnect_unsafe() take no virtual time; transport.reconnect(None) itself "
    "(close, connect, the ConnectionError it re-raises) is C08's subject and is represented by its result only",
    "max_retry >= 0 (range(max_retry + 1) is empty below that and the initial MissingResponse would surface); the "
    "effective timeout may be None or 0: a transport call that got no deadline and still raises TimeoutError does so on "
    "its own account (0 ms); a transport that blocks forever without a deadline is outside the model; with timeout 0 "
    "only replies that are already there (latency 0) are delivered",
    "sessions: the requests of a session are issued one after the other (C05 covers concurrent callers); half of the "
    "sessions use one client object (UDSClient or ECU) and one transport object for all requests (`shared`; only timeout, "
    "max_retry and the mutex are set per request, and a client whose transport was left closed by a failed reconnect is "
    "replaced), the others a client of its own per request; every request has its own event script.  What can be carried "
    "from one request to the next is thus process-level state (module / class attributes of the parser and the client "
    "classes) and, in shared sessions, attributes of the client instance.  Every session starts in a process forked from a helper that has imported gallia and built the request "
    "objects but has never parsed a PDU",
    "asyncio.Lock is released by `async with` whatever leaves the block (contract of asyncio; observed on an "
    "instrumented lock in every widened case)",
]

ALPHA = "tcebpmfnP"  # timeout connErr empty busy pending mismatch malformed negFinal posFinal
CLASS = {"t": "t", "c": "L", "e": "L", "b": "b", "p": "p", "m": "I", "f": "I", "n": "F", "P": "F"}
NAMES = {"t": "timeout", "c": "connErr", "e": "empty", "b": "busy", "p": "pending", "m": "mismatch",
         "f": "malformed", "n": "negFinal", "P": "posFinal"}

# ---------------------------------------------------------------------------------------------------------
# scripts: list of (letter, count); canonical text form `p*119,P`
# ---------------------------------------------------------------------------------------------------------


def compress(letters):
    out = []
    for ch in letters:
        if out and out[-1][0] == ch:
            out[-1] = (ch, out[-1][1] + 1)
        else:
            out.append((ch, 1))
    return out


def script_text(rl):
    if not rl:
        return "-"
    return ",".join(ch if n == 1 else f"{ch}*{n}" for ch, n in rl)


def parse_script(txt):
    if txt == "-":
        return []
    out = []
    for it in txt.split(","):
        if "*" in it:
            ch, n = it.split("*")
            out.append((ch, int(n)))
        else:
            out.append((it, 1))
    return out


def script_len(rl):
    return sum(n for _, n in rl)


class Script:
    """random access into a run-length script followed by the pad event forever"""

    def __init__(self, rl, pad):
        self.rl = rl
        self.pad = pad
        self.starts = []
        pos = 0
        for ch, n in rl:
            self.starts.append((pos, pos + n, ch))
            pos += n
        self.n = pos
        self._i = 0

    def at(self, k):
        if k >= self.n:
            return self.pad
        i = self._i
        if not (i < len(self.starts) and self.starts[i][0] <= k):
            i = 0
        while not (self.starts[i][0] <= k < self.starts[i][1]):
            i += 1
        self._i = i
        return self.starts[i][2]


def mk_case(script, cm=0, ct=1000, rt=None, rm=None, lat=10, pad="t", req=0, var=0):
    """script: text or run-length list; times in ms"""
    if not isinstance(script, str):
        script = script_text(script)
    return {"script": script, "pad": pad, "cm": cm, "ct": ct, "rt": rt, "rm": rm, "lat": lat, "req": req, "var": var}


W_ALPHA = "oTC"    # what a write() does: ok, TimeoutError, ConnectionError
RC_ALPHA = "oCTO"  # what a reconnect does: ok, ConnectionError, TimeoutError, OSError
W_NAMES = {"o": "write ok", "T": "write TimeoutError", "C": "write ConnectionError"}
RC_NAMES = {"o": "reconnect ok", "C": "reconnect ConnectionError", "T": "reconnect TimeoutError", "O": "reconnect OSError"}


def mk_xcase(script, w="-", rc="-", wpad="o", rcpad="o", **kw):
    """widened case: `w` what the j-th write() does, `rc` what the m-th reconnect does (text or letters)"""
    c = mk_case(script, **kw)
    c.update(x=1, w=w if ("," in w or "*" in w or len(w) <= 1) else script_text(compress(w)), wpad=wpad,
             rc=rc if ("," in rc or "*" in rc or len(rc) <= 1) else script_text(compress(rc)), rcpad=rcpad)
    return c


def is_x(c):
    return bool(c.get("x"))


def case_line(c):
    def o(x):
        return "none" if x is None else str(x)
    if is_x(c):
        return (f"runx {o(c['ct'])} {c['cm']} {o(c['rt'])} {o(c['rm'])} {c['lat']} {c['script']} {c['pad']} "
                f"{c['w']} {c['wpad']} {c['rc']} {c['rcpad']}")
    return f"run {c['ct']} {c['cm']} {o(c['rt'])} {o(c['rm'])} {c['lat']} {c['script']} {c['pad']}"


# ---------------------------------------------------------------------------------------------------------
# the implementation side
# ---------------------------------------------------------------------------------------------------------

_G = {}


def _gallia():
    """import the real modules once per process and build the fake transport + request / PDU tables"""
    if _G:
        return _G
    setup_repo_import()
    from gallia.services.uds.core import service
    from gallia.services.uds.core.client import UDSClient, UDSRequestConfig
    from gallia.services.uds.ecu import ECU
    from gallia.services.uds.core.exception import IllegalResponse, MissingResponse
    from gallia.transports.base import BaseTransport, TargetURI

    class FakeTransport(BaseTransport, scheme="fake"):
        state = None  # shared by the instances `reconnect()` creates

        def __init__(self, target):
            super().__init__(target)

        @classmethod
        async def connect(cls, target, timeout=None):
            st = cls.state
            m = st.m
            st.m += 1
            ev = st.rcscript.at(m) if st.x else "o"
            st.log.append(("n", st.now(), ev, m))
            if ev != "o":
                st.rc_raised = {"C": ConnectionRefusedError("scripted reconnect"), "T": TimeoutError("scripted reconnect"),
                                "O": OSError(113, "scripted reconnect: no route to host")}[ev]
                st.rc_fail = (m, ev)
                raise st.rc_raised
            return cls(target if isinstance(target, TargetURI) else TargetURI(target))

        async def close(self):
            self.state.log.append(("x", self.state.now()))
            self.is_closed = True

        async def write(self, data, timeout=None, tags=None):
            st = self.state
            j = st.j
            st.j += 1
            ev = st.wscript.at(j) if st.x else "o"
            st.log.append(("w", st.now(), bytes(data), timeout, self.is_closed, ev))
            if ev == "T":
                if timeout is None:
                    raise TimeoutError("scripted write")  # a transport-internal timeout: no deadline was given
                async with asyncio.timeout(timeout):
                    await asyncio.Event().wait()
            if ev == "C":
                st.w_raised = st.conn_errors[(j + st.var) % len(st.conn_errors)]("scripted write")
                raise st.w_raised
            return len(data)

        async def read(self, timeout=None, tags=None):
            st = self.state
            k = st.k
            st.k += 1
            if k > st.read_cap:
                raise _TooManyReads()  # beyond the proved bound on reads (reads_le / reads_le_io): the request does not end
            ev = st.script.at(k)
            if len(st.log) < 5000:
                st.log.append(("r", st.now(), k, timeout, self.is_closed))
            if st.x and ev == "t" and timeout is None:
                raise TimeoutError("scripted read")  # a transport-internal timeout: no deadline was given
            async with asyncio.timeout(timeout):
                if ev == "t":
                    await asyncio.Event().wait()
                if st.lat or not st.x:
                    await asyncio.sleep(st.lat)
                if ev == "c":
                    raise st.conn_errors[(k + st.var) % len(st.conn_errors)]("scripted")
                if ev == "e":
                    return b""
                return st.pdu(k)

    def rdbi_pos(k):
        return bytes([0x62, 0xF1, 0x90, (k >> 8) & 0xFF, k & 0xFF])

    def raw_pos(k):
        return bytes([0xFA, (k >> 8) & 0xFF, k & 0xFF])

    def dsc_pos(k):
        return bytes([0x50, 0x03, 0x00, 0x19, (k >> 8) & 0xFF, k & 0xFF])

    def rc_pos(k):
        return bytes([0x71, 0x01, 0x02, 0x03, (k >> 8) & 0xFF, k & 0xFF])

    nrcs = [0x31, 0x33, 0x11, 0x12, 0x13, 0x22, 0x10, 0x7E, 0x7F, 0x14, 0x24, 0x35, 0x36, 0x37, 0x72]
    reqs = [
        dict(name="ReadDataByIdentifier", req=service.ReadDataByIdentifierRequest(0xF190), sid=0x22, pos=rdbi_pos,
             mismatch=["62f191aa", "7f1078", "7f1021", "5003001901f4", "7f3e78", "7e00", "7f2721"],
             malformed=["62", "62f1", "7f22", "7f", "7f2200", "7f22ff", "7f221100", "7f2205"]),
        dict(name="RawRequest(unknown service)", req=service.RawRequest(bytes.fromhex("ba0102")), sid=0xBA, pos=raw_pos,
             mismatch=["fb00", "7fbb78", "7f2221", "62f190aa", "7f22ff"],
             malformed=["7fba", "7f", "7fba00", "7fbaff", "7fba3100"]),
        dict(name="DiagnosticSessionControl", req=service.DiagnosticSessionControlRequest(0x03), sid=0x10, pos=dsc_pos,
             mismatch=["7f2278", "7f2221", "62f190aa", "7e00"],
             malformed=["50", "7f10", "7f", "7f1023", "7f10ff", "7f101200"]),
        dict(name="RoutineControl", req=service.StartRoutineRequest(0x0203), sid=0x31, pos=rc_pos,
             mismatch=["7f2278", "7f3e21", "5003001901f4", "6701aa", "7f3e05"],
             malformed=["71", "7f31", "7f", "7f3101", "7f313b", "7f31ff"]),
    ]

    # request kinds 4.. : services whose requests share sub-function ids with one another (31 0x, 19 0x, 2C 0x, 10 0x, 11 0x,
    # 27 0x, 28 0x, 85 0x, 3E 00).  They are used by the session cases (several requests in ONE fresh process); the table is
    # built from constructors only - nothing is parsed here, so the process the sessions start from has no parsing history
    def kk(k):
        return bytes([(k >> 8) & 0xFF, k & 0xFF])

    fam = [
        ("RoutineControl/startRoutine", service.StartRoutineRequest(0x0203), lambda k: bytes.fromhex("71010203") + kk(k)),
        ("RoutineControl/stopRoutine", service.StopRoutineRequest(0x0203), lambda k: bytes.fromhex("71020203") + kk(k)),
        ("RoutineControl/requestRoutineResults", service.RequestRoutineResultsRequest(0x0203),
         lambda k: bytes.fromhex("71030203") + kk(k)),
        ("ReadDTCInformation/reportNumberOfDTCByStatusMask", service.ReportNumberOfDTCByStatusMaskRequest(0xFF),
         lambda k: bytes.fromhex("5901ff01") + kk(k)),
        ("ReadDTCInformation/reportDTCByStatusMask", service.ReportDTCByStatusMaskRequest(0xFF),
         lambda k: bytes.fromhex("5902ff12") + kk(k) + b"\x2f"),
        ("ReadDTCInformation/reportSupportedDTC", service.ReportSupportedDTCRequest(),
         lambda k: bytes.fromhex("590aff12") + kk(k) + b"\x2f"),
        ("DynamicallyDefineDataIdentifier/defineByIdentifier", service.DefineByIdentifierRequest(0xF301, [0xF190], [1], [2]),
         lambda k: bytes.fromhex("6c01f301")),
        ("DynamicallyDefineDataIdentifier/defineByMemoryAddress", service.DefineByMemoryAddressRequest(0xF302, [0x1000], [4]),
         lambda k: bytes.fromhex("6c02f302")),
        ("DynamicallyDefineDataIdentifier/clear", service.ClearDynamicallyDefinedDataIdentifierRequest(0xF303),
         lambda k: bytes.fromhex("6c03f303")),
        ("DiagnosticSessionControl/default", service.DiagnosticSessionControlRequest(0x01),
         lambda k: bytes.fromhex("50010019") + kk(k)),
        ("DiagnosticSessionControl/programming", service.DiagnosticSessionControlRequest(0x02),
         lambda k: bytes.fromhex("50020019") + kk(k)),
        ("ECUReset/hardReset", service.ECUResetRequest(0x01), lambda k: bytes.fromhex("5101")),
        ("ECUReset/softReset", service.ECUResetRequest(0x03), lambda k: bytes.fromhex("5103")),
        ("SecurityAccess/requestSeed", service.RequestSeedRequest(0x01), lambda k: bytes.fromhex("6701") + kk(k)),
        ("SecurityAccess/sendKey", service.SendKeyRequest(0x02, b"\x11\x22"), lambda k: bytes.fromhex("6702")),
        ("CommunicationControl/enableRxDisableTx", service.CommunicationControlRequest(0x01, 0x01),
         lambda k: bytes.fromhex("6801")),
        ("CommunicationControl/disableRxTx", service.CommunicationControlRequest(0x03, 0x01), lambda k: bytes.fromhex("6803")),
        ("ControlDTCSetting/on", service.ControlDTCSettingRequest(0x01), lambda k: bytes.fromhex("c501")),
        ("ControlDTCSetting/off", service.ControlDTCSettingRequest(0x02), lambda k: bytes.fromhex("c502")),
        ("TesterPresent", service.TesterPresentRequest(), lambda k: bytes.fromhex("7e00")),
    ]
    for name, rq, pos in fam:
        sid, sub = rq.pdu[0], rq.pdu[1]
        same_sub = [p(0).hex() for _, r2, p in fam if r2.pdu[1] == sub and r2.pdu[0] != sid]
        same_sid = [p(0).hex() for _, r2, p in fam if r2.pdu[0] == sid and r2.pdu[1] != sub]
        other = 0x19 if sid == 0x31 else 0x31
        reqs.append(dict(name=name, req=rq, sid=sid, pos=pos,
                         mismatch=same_sub[:3] + same_sid[:2] + [f"7f{other:02x}78", f"7f{other:02x}21", "62f190aa"],
                         malformed=[f"{sid + 0x40:02x}", f"7f{sid:02x}", "7f", f"7f{sid:02x}00", f"7f{sid:02x}ff"]))
    for r in reqs:
        r["tag"] = bytes(r["req"].pdu[:2]).hex()

    class State:
        conn_errors = [ConnectionResetError, BrokenPipeError, ConnectionAbortedError, ConnectionError]

        def __init__(self, case):
            self.script = Script(parse_script(case["script"]), case["pad"])
            self.x = is_x(case)
            self.wscript = Script(parse_script(case["w"]), case["wpad"]) if self.x else None
            self.rcscript = Script(parse_script(case["rc"]), case["rcpad"]) if self.x else None
            self.j = 0
            self.m = 0
            self.rc_raised = None
            self.rc_fail = None
            self.w_raised = None
            self.k = 0
            self.lat = case["lat"] / 1000
            self.var = case["var"]
            self.R = reqs[case["req"] % len(reqs)]
            self.log = []
            self.t0 = 0.0
            self.read_cap = _read_cap(case)

        def now(self):
            return asyncio.get_event_loop().time() - self.t0

        def pdu(self, k):
            ev = self.script.at(k)
            R = self.R
            sid = R["sid"]
            v = k + self.var
            if ev == "b":
                return bytes([0x7F, sid, 0x21])
            if ev == "p":
                return bytes([0x7F, sid, 0x78])
            if ev == "n":
                return bytes([0x7F, sid, nrcs[v % len(nrcs)]])
            if ev == "P":
                return R["pos"](k)
            if ev == "m":
                return bytes.fromhex(R["mismatch"][v % len(R["mismatch"])])
            if ev == "f":
                return bytes.fromhex(R["malformed"][v % len(R["malformed"])])
            raise AssertionError(ev)

    class LogLock(asyncio.Lock):
        """the client's mutex, with acquire / release recorded in the transport's log"""

        def __init__(self, st):
            super().__init__()
            self.st = st

        async def acquire(self):
            r = await super().acquire()
            self.st.log.append(("L", self.st.now()))
            return r

        def release(self):
            self.st.log.append(("U", self.st.now()))
            super().release()

    _G.update(LogLock=LogLock)
    _G.update(service=service, UDSClient=UDSClient, ECU=ECU, UDSRequestConfig=UDSRequestConfig, IllegalResponse=IllegalResponse,
              MissingResponse=MissingResponse, FakeTransport=FakeTransport, TargetURI=TargetURI, State=State, reqs=reqs)
    return _G


def ms(t):
    return int(round(t * 1000))


async def impl_case(case, reuse=None):
    """run one request of the real client; returns the canonical observation.  `reuse`: a dict that carries the client
    object from one request of a session to the next (same object, same transport unless the client reconnected)"""
    G = _gallia()
    st = G["State"](case)
    FT = G["FakeTransport"]
    FT.state = st
    client = reuse.get("client") if reuse is not None else None
    if client is not None and not client.transport.is_closed:
        # the session's client issues this request too; only its configuration attributes are set for the step
        client.timeout = None if case["ct"] is None else case["ct"] / 1000
        client.max_retry = case["cm"]
        client.mutex = G["LogLock"](st) if st.x else asyncio.Lock()
    else:
        tr = FT(G["TargetURI"]("fake://script"))
        # every third case runs on the ECU class (the UDSClient subclass all scanners use: its _request wraps the exchange with state tracking and
        # database logging and must hand the same outcome through), the others on the plain client
        klass = G["ECU"] if (case["var"] + len(case["script"])) % 3 == 2 else G["UDSClient"]
        client = klass(tr, timeout=None if case["ct"] is None else case["ct"] / 1000, max_retry=case["cm"])
        if st.x:
            client.mutex = G["LogLock"](st)
    if reuse is not None:
        reuse["client"] = client
    if case["rt"] is None and case["rm"] is None:
        cfg = None if case["var"] % 2 == 0 else G["UDSRequestConfig"]()
    else:
        cfg = G["UDSRequestConfig"](timeout=None if case["rt"] is None else case["rt"] / 1000, max_retry=case["rm"])
    req = st.R["req"]
    loop = asyncio.get_event_loop()
    st.t0 = loop.time()
    detail = ""
    try:
        try:
            resp = await _bounded(client.request(req, cfg), _time_cap(case))
        except _Unbounded:
            raise
        except _TooManyReads:
            raise _Unbounded() from None
        except Exception as e:
            if st.rc_raised is not None and isinstance(e, OSError) and _in_chain(e, st.rc_raised):
                # the exception of the failed reconnect (or a re-raise of it) ends the request; its kind is what counts
                kind = "C" if isinstance(e, ConnectionError) else "T" if isinstance(e, TimeoutError) else "O"
                raise _RcFailed(kind) from None
            if st.w_raised is not None and e is st.w_raised:
                raise _WEscaped(type(e).__name__) from None
            raise
        last = st.k - 1
        got = bytes(resp.pdu)
        if last >= 0 and st.script.at(last) not in "tce" and got == st.pdu(last):
            out = f"reply:{last}"
        else:
            j = next((j for j in range(st.k) if st.script.at(j) not in "tce" and st.pdu(j) == got), None)
            out = f"reply:stale{j}" if j is not None else "reply:unknown"
            detail = got.hex()
    except _Unbounded:
        out = "hang"
        detail = f"request still running after {_time_cap(case):.0f} virtual seconds (beyond the proved bound)"
        del st.log[400:]
    except _RcFailed as e:
        out = f"rcfail:{st.rc_fail[0]}:{e.args[0]}"
    except _WEscaped as e:
        out = f"escaped:w{st.j - 1}"
        detail = str(e)
    except G["MissingResponse"] as e:
        out = "missing:1" if isinstance(e.__cause__, ConnectionError) else "missing:0"
    except G["IllegalResponse"] as e:
        out = f"illegal:{st.k - 1}"
        detail = type(e).__name__
    except ConnectionError as e:
        out = f"escaped:{st.k - 1}"
        detail = type(e).__name__
    except RuntimeError as e:
        out = "stuck"
        detail = str(e)[:60]
    except Exception as e:  # anything else the loop lets through
        out = f"other:{type(e).__name__}"
        detail = repr(e)[:120]
    elapsed = ms(loop.time() - st.t0)
    # canonical trace: w@t, r<k>:<tmo>@t, c@t (close immediately followed by connect)
    tr_out = []
    log = st.log
    i = 0
    kinds = "".join({"w": "w", "r": "r", "n": "c"}.get(e[0], "") for e in log)
    while st.x and i < len(log):
        # widened form: L@t, w:<tmo>:<o|T|C>@t, r<k>:<tmo>@t, c:<o|C|T|O>@t, U@t
        e = log[i]
        if e[0] == "w":
            tok = "w" if e[2] == bytes(req.pdu) else "w!" + e[2].hex()
            tmo = "none" if e[3] is None else str(ms(e[3]))
            tr_out.append(f"{tok}:{tmo}:{e[5]}{'!closed' if e[4] else ''}@{ms(e[1])}")
        elif e[0] == "r":
            tmo = "none" if e[3] is None else str(ms(e[3]))
            tr_out.append(f"r{e[2]}:{tmo}{'!closed' if e[4] else ''}@{ms(e[1])}")
        elif e[0] == "x" and i + 1 < len(log) and log[i + 1][0] == "n":
            tr_out.append(f"c:{log[i + 1][2]}@{ms(e[1])}")
            i += 1
        else:
            tr_out.append(f"{e[0]}@{ms(e[1])}")
        i += 1
    while i < len(log):
        e = log[i]
        if e[0] == "w":
            tok = "w" if e[2] == bytes(req.pdu) else "w!" + e[2].hex()
            if e[4]:
                tok += "!closed"
            tr_out.append(f"{tok}@{ms(e[1])}")
        elif e[0] == "r":
            tmo = "none" if e[3] is None else str(ms(e[3]))
            tr_out.append(f"r{e[2]}:{tmo}{'!closed' if e[4] else ''}@{ms(e[1])}")
        elif e[0] == "x" and i + 1 < len(log) and log[i + 1][0] == "n":
            tr_out.append(f"c@{ms(e[1])}")
            i += 1
        else:
            tr_out.append(f"{e[0]}@{ms(e[1])}")
        i += 1
    n_w = sum(1 for e in log if e[0] == "w")
    n_r = sum(1 for e in log if e[0] == "r")
    return {"out": out, "writes": n_w, "reads": n_r, "elapsed": elapsed, "trace": tr_out, "detail": detail,
            "mutex_free": not client.mutex.locked(), "kinds": kinds}


class _RcFailed(Exception):
    pass


def _in_chain(e, target):
    seen = 0
    while e is not None and seen < 8:
        if e is target:
            return True
        e = e.__cause__ or e.__context__
        seen += 1
    return False


class _WEscaped(Exception):
    pass


class _TooManyReads(BaseException):
    """raised by the scripted transport: more reads than `reads_le` allows for the case's configuration (no `except Exception`
    of the code under test may swallow it)"""


def _read_cap(case):
    ts = [t for t in (case.get("ct"), case.get("rt")) if t]
    T = max(ts + [0]) / 1000
    mr = max(case.get("cm") or 0, case.get("rm") or 0)
    max_nt = int(-(-max(T, 20.0) // 0.5))
    return int(1.1 * (mr + 1) * (2 + 119 * (max_nt + 1) + max_nt + 1)) + 50


class _Unbounded(Exception):
    """the request did not end within the bound the theorems give (elapsed_le / elapsed_le_io), plus 10 % and a minute"""


def _time_cap(case):
    """virtual seconds after which a single request is declared unbounded: 1.1 x the bound of `elapsed_le` for the largest
    configuration of the case (client / per-request timeout, retry budget), plus slack"""
    ts = [t for t in (case.get("ct"), case.get("rt")) if t]
    T = max(ts + [0]) / 1000
    lat = case.get("lat", 0) / 1000
    mr = max(case.get("cm") or 0, case.get("rm") or 0)
    max_nt = int(-(-max(T, 20.0) // 0.5))
    attempt = max(T, lat) + (119 * (max_nt + 1) + max_nt + 2) * max(0.5, lat)
    return 1.1 * ((mr + 1) * attempt + 0.2 * (2 ** (mr + 1))) + 60


async def _bounded(coro, cap):
    cm = asyncio.timeout(cap)
    try:
        async with cm:
            return await coro
    except TimeoutError:
        if cm.expired():
            raise _Unbounded() from None
        raise


def run_impl_batch(cases, shared=False):
    """all cases in one virtual-time loop (falls back to one loop per case if something stalls); `shared`: one client
    object for all of them (a session), replaced only after its transport was left closed"""
    def go(cs):
        loop = VLoop()
        try:
            asyncio.set_event_loop(loop)

            async def main():
                reuse = {} if shared else None
                return [await impl_case(c, reuse) for c in cs]
            return loop.run_until_complete(main())
        finally:
            asyncio.set_event_loop(None)
            loop.close()
    try:
        return go(cases)
    except Stall:
        out = []
        for c in cases:
            try:
                out += go([c])
            except Stall:
                out.append({"out": "hang", "writes": -1, "reads": -1, "elapsed": -1, "trace": [], "detail": "virtual loop stalled",
                            "mutex_free": False, "kinds": ""})
        return out


# ---------------------------------------------------------------------------------------------------------
# sessions: several requests, one after the other, in ONE fresh process
# ---------------------------------------------------------------------------------------------------------
#
# A session case is {"session": [step, ...]}; every step is an ordinary (or widened) case with its own script and request
# kind.  The model has no state between requests (`Model/ClientSession.lean`: `runSession`; theorem `session_step`: the
# i-th result of a session is the result of that request alone, whatever preceded it), so every step is judged against
# its own `run` / `runx` line (sessions of plain steps are also sent through the driver's `session` command = `runSession`).  What the implementation may carry from one request to the next lives in the process
# (module / class level state of the parser, the client classes, ...), so a session must start from a process with no
# history: a helper process ("zygote") is forked before the check has parsed anything; it never runs a case itself and
# forks one child per session.

_Z = {}


def _session_child(sess):
    return run_impl_batch(sess["session"], shared=bool(sess.get("shared")))


def _zygote_main(conn, nproc):
    pool = multiprocessing.get_context("fork").Pool(nproc, maxtasksperchild=1)
    try:
        while True:
            try:
                msg = conn.recv()
            except EOFError:
                break
            if msg is None:
                break
            try:
                conn.send(("ok", pool.map_async(_session_child, msg, chunksize=1).get(timeout=600)))
            except BaseException as e:  # noqa: BLE001 - reported to the caller, which raises
                conn.send(("err", repr(e)))
    finally:
        pool.terminate()


def zygote():
    """start the helper (idempotent); must be called before the calling process parsed any PDU"""
    if "conn" in _Z:
        return _Z
    import atexit
    _gallia()
    ctxm = multiprocessing.get_context("fork")
    here, there = ctxm.Pipe()
    pr = ctxm.Process(target=_zygote_child, args=(here, there, min(8, max(2, multiprocessing.cpu_count() // 2))))
    pr.start()
    there.close()
    _Z.update(conn=here, proc=pr)
    atexit.register(zygote_stop)
    return _Z


def _zygote_child(here, there, nproc):
    here.close()
    _zygote_main(there, nproc)


def zygote_stop():
    if "conn" not in _Z:
        return
    try:
        _Z["conn"].send(None)
        _Z["conn"].close()
    except Exception:  # noqa: BLE001
        pass
    _Z["proc"].join(5)
    if _Z["proc"].is_alive():
        _Z["proc"].terminate()
    _Z.clear()


def run_sessions(driver, sessions):
    """[(obs per step, model per step)] for each session; every session in its own fresh process"""
    if not sessions:
        return []
    z = zygote()
    z["conn"].send(sessions)
    lines = [case_line(c) for s_ in sessions for c in s_["session"]]
    # sessions of plain steps also go through the model's own session loop (`runSession`, driver command `session`)
    plain = [s_ for s_ in sessions if not any(is_x(c) for c in s_["session"])]
    lines += ["session " + " ".join(case_line(c)[4:] for c in s_["session"]) for s_ in plain]
    raw = lean_batch(driver, lines)
    mods = [parse_model(l) for l in raw[:len(raw) - len(plain)]]
    sess_lines = dict(zip(map(id, plain), raw[len(raw) - len(plain):]))
    st, obs = z["conn"].recv()
    if st != "ok":
        raise RuntimeError("session runner: " + obs)
    out = []
    i = 0
    for s_, o in zip(sessions, obs):
        n = len(s_["session"])
        if id(s_) in sess_lines:
            want = "|".join(f"{m['out']}:{m['writes']}:{m['reads']}:{m['elapsed']}" for m in mods[i:i + n])
            if sess_lines[id(s_)] != want:
                # `session_step` proves this cannot happen; the driver or the harness would be broken
                raise RuntimeError(f"model: runSession gives {sess_lines[id(s_)]}, the requests alone give {want}")
        out.append((o, mods[i:i + n]))
        i += n
    return out


def judge_session(sess, obs, mods):
    """None, or (index of the first step that fails, verdict of `judge` for it)"""
    for i, (c, o, m) in enumerate(zip(sess["session"], obs, mods)):
        v = judge(c, o, m)
        if v is not None:
            return i, v
    return None


def req_tag(case):
    rq = _gallia()["reqs"]
    return rq[case["req"] % len(rq)]["tag"]


def shrink_session(driver, sess, obs, mods, fail):
    """fixed order: cut after the failing step, drop earlier steps (first to last), plain earlier steps, plain failing step"""
    i, v = fail
    sig = signature(sess["session"][i], obs[i], mods[i], v)
    extra = {k: v_ for k, v_ in sess.items() if k != "session"}
    best = ({**extra, "session": sess["session"][:i + 1]}, obs[:i + 1], mods[:i + 1], (i, v))

    def attempt(steps, **kw):
        nonlocal best
        cand = {**extra, **kw, "session": steps}
        cand = {k: v_ for k, v_ in cand.items() if k == "session" or v_}
        (o, m), = run_sessions(driver, [cand])
        f = judge_session(cand, o, m)
        # the failure must stay in the last step: a request that fails on its own history-free is another finding
        if f is None or f[0] != len(steps) - 1 or signature(steps[-1], o[-1], m[-1], f[1]) != sig:
            return False
        best = (cand, o, m, f)
        return True

    if extra.get("shared") and attempt(best[0]["session"], shared=0):
        extra = {}
    changed = True
    while changed:
        changed = False
        steps = best[0]["session"]
        for j in range(len(steps) - 1):
            if attempt(steps[:j] + steps[j + 1:]):
                changed = True
                break
    for j in range(len(best[0]["session"]) - 1):
        steps = best[0]["session"]
        plain = mk_case("P", req=steps[j]["req"])
        if steps[j] != plain:
            attempt(steps[:j] + [plain] + steps[j + 1:])
    last = best[0]["session"][-1]
    mr, tmo = effective(last)
    cands = [mk_case(last["script"], cm=mr, ct=tmo if tmo else 1000, lat=last["lat"], pad=last["pad"], req=last["req"], var=last["var"])]
    for patch in ({"var": 0}, {"ct": 1000}, {"lat": 10}, {"pad": "t"}):
        cands.append(patch)
    for cnd in cands:
        last = best[0]["session"][-1]
        c2 = cnd if "script" in cnd else ({**last, **cnd} if not is_x(last) else None)
        if c2 is not None and c2 != last:
            attempt(best[0]["session"][:-1] + [c2])
    # shortest script of the failing step, fewest retries
    for _ in range(12):
        last = best[0]["session"][-1]
        rl = parse_script(last["script"])
        letters = "".join(ch * n for ch, n in rl)
        used = max(best[1][-1]["reads"], 0)
        trial = [letters[:used]] if used < len(letters) else []
        trial += [letters[:q] + letters[q + 1:] for q in range(min(len(letters), 12))]
        if not any(t != letters and attempt(best[0]["session"][:-1] + [{**last, "script": script_text(compress(t))}]) for t in trial):
            break
    last = best[0]["session"][-1]
    if last["rm"] is None:
        for m_ in range(last["cm"]):
            if attempt(best[0]["session"][:-1] + [{**last, "cm": m_}]):
                break
    return best


def session_key(sess, obs, mods, fail):
    i, v = fail
    c, o, m = sess["session"][i], obs[i], mods[i]
    mr, _ = effective(c)
    hist = ">".join(req_tag(s_) for s_ in sess["session"][:i]) or "-"
    ctx_txt = context_of(c, o["reads"] if o["reads"] >= 0 else script_len(parse_script(c["script"])))
    return (f"client-session{'-one-client' if sess.get('shared') else ''}:{'spec' if v[0] else 'tie'}:history={hist}:request={req_tag(c)}:events={ctx_txt}:max_retry={mr}:"
            f"impl={out_class(o['out'])}:implied={out_class(m['out'])}")


FINAL_SHAPES = [
    # (script, max_retry): a genuine final reply - directly, after responsePending, after a timeout + retry, after busy + retry,
    # after a connection loss + retry - and the illegal replies
    ("P", 0), ("p,P", 0), ("t,P", 1), ("b,P", 1), ("c,p*2,P", 1), ("n", 0), ("p,n", 0), ("m", 0), ("f", 0), ("p,t,p,P", 2),
]


def session_cases(ctx):
    """pairs (both orders) of request kinds x shapes of the second request; seeded random sessions of 2..6 requests"""
    rq = _gallia()["reqs"]
    n = len(rq)
    rng = ctx.rng
    out = []
    q = 0
    for a in range(n):
        for b in range(n):
            if a == b:
                continue
            pa, pb = rq[a]["req"].pdu, rq[b]["req"].pdu
            share = len(pa) > 1 and len(pb) > 1 and pa[1] == pb[1] and pa[0] != pb[0]
            shapes = FINAL_SHAPES if (share or not ctx.quick) else [FINAL_SHAPES[0], FINAL_SHAPES[1 + q % (len(FINAL_SHAPES) - 1)]]
            q += 1
            for sc, cm in shapes:
                first = FINAL_SHAPES[(q + len(out)) % 5]
                out.append({"session": [mk_case(first[0], cm=first[1], req=a, var=(a + q) % 7),
                                        mk_case(sc, cm=cm, req=b, var=(b + len(out)) % 16)]} | ({"shared": 1} if len(out) % 2 else {}))
    by_sub = {}
    for i, r in enumerate(rq):
        if len(r["req"].pdu) > 1:
            by_sub.setdefault(r["req"].pdu[1], []).append(i)
    groups = [g for g in by_sub.values() if len({rq[i]["sid"] for i in g}) > 1]
    for _ in range(ctx.pick(700, 8000)):
        steps = []
        g = rng.choice(groups)
        for _j in range(rng.randint(2, 6)):
            r = rng.choice(g) if rng.random() < 0.6 else rng.randrange(n)
            u = rng.random()
            if u < 0.5:
                sc, cm = rng.choice(FINAL_SHAPES)
                c = mk_case(sc, cm=cm, req=r, var=rng.randrange(64))
            elif u < 0.85:
                c = random_case(rng, False)
                c["req"] = r
            else:
                c = random_xcase(rng)
                c["req"] = r
            steps.append(c)
        out.append({"session": steps} | ({"shared": 1} if rng.random() < 0.5 else {}))
    return out


# ---------------------------------------------------------------------------------------------------------
# the model side
# ---------------------------------------------------------------------------------------------------------


def lean_batch(driver, lines):
    if not lines:
        return []
    p = subprocess.run([str(driver)], input=("\n".join(lines) + "\n").encode(), stdout=subprocess.PIPE,
                       stderr=subprocess.PIPE, cwd=LEAN)
    if p.returncode != 0:
        raise RuntimeError(f"driver exited with {p.returncode}: {p.stderr.decode(errors='replace')[-500:]}")
    out = p.stdout.decode().split("\n")
    if out and out[-1] == "":
        out.pop()
    if len(out) != len(lines):
        raise RuntimeError(f"driver returned {len(out)} lines for {len(lines)} requests")
    return out


def parse_model_x(line):
    f = line.split(" ")
    if len(f) != 10:
        raise RuntimeError("unexpected driver reply: " + line[:200])
    out, w, wok, r, rc, el, rb, eb, mnt, tr = f
    t = 0
    trace = []
    sleeps = []
    kinds = ""
    for tok in tr.split(","):
        if tok in ("L", "U"):
            trace.append(f"{tok}@{t}")
        elif tok[0] == "w":
            _, tmo, res, dur = tok.split(":")
            trace.append(f"w:{tmo}:{res}@{t}")
            t += int(dur)
            kinds += "w"
        elif tok[0] == "c":
            trace.append(f"{tok}@{t}")
            kinds += "c"
        elif tok[0] == "r":
            k, tmo, dur = tok[1:].split(":")
            trace.append(f"r{k}:{tmo}@{t}")
            t += int(dur)
            kinds += "r"
        elif tok[0] == "s":
            sleeps.append(int(tok[1:]))
            t += int(tok[1:])
    return {"out": out, "writes": int(w), "writes_ok": int(wok), "reads": int(r), "reconnects": int(rc), "elapsed": int(el),
            "reads_bound": int(rb), "elapsed_bound": int(eb), "max_nt": int(mnt), "trace": trace, "sleeps": sleeps,
            "kinds": kinds}


def parse_model(line):
    f = line.split(" ")
    if len(f) == 10:
        return parse_model_x(line)
    if len(f) != 9:
        raise RuntimeError("unexpected driver reply: " + line[:200])
    out, w, r, rc, el, rb, eb, mnt, tr = f
    t = 0
    trace = []
    sleeps = []
    for tok in ([] if tr == "-" else tr.split(",")):
        if tok == "w":
            trace.append(f"w@{t}")
        elif tok == "c":
            trace.append(f"c@{t}")
        elif tok[0] == "r":
            k, tmo, dur = tok[1:].split(":")
            trace.append(f"r{k}:{tmo}@{t}")
            t += int(dur)
        elif tok[0] == "s":
            sleeps.append(int(tok[1:]))
            t += int(tok[1:])
    return {"out": out, "writes": int(w), "reads": int(r), "reconnects": int(rc), "elapsed": int(el),
            "reads_bound": int(rb), "elapsed_bound": int(eb), "max_nt": int(mnt), "trace": trace, "sleeps": sleeps}


# ---------------------------------------------------------------------------------------------------------
# comparison; the specification decides what kind of difference it is
# ---------------------------------------------------------------------------------------------------------


def out_class(o):
    if o.startswith("rcfail"):
        return "rcfail:" + o.split(":")[-1]
    return o.split(":")[0] if not o.startswith("missing") else o


def judge(case, obs, mod):
    """None when implementation and model agree; else (spec_violated, reasons)"""
    spec = []
    tie = []
    sc = Script(parse_script(case["script"]), case["pad"])
    if obs["out"] != mod["out"]:
        spec.append(f"outcome {obs['out']} but the event sequence implies {mod['out']}")
    if obs["writes"] != mod["writes"]:
        spec.append(f"request written {obs['writes']} times, the event sequence implies {mod['writes']}")
    if obs["reads"] > mod["reads_bound"]:
        spec.append(f"{obs['reads']} reads exceed the bound {mod['reads_bound']}")
    if obs["elapsed"] > mod["elapsed_bound"]:
        spec.append(f"{obs['elapsed']} ms exceed the bound {mod['elapsed_bound']} ms")
    if obs["reads"] >= 0:
        for k in range(max(obs["reads"] - 1, 0)):
            if sc.at(k) in "nP":
                spec.append(f"final reply of read {k} was dropped (the client read on)")
                break
        # no transmission directly after a responsePending
        prev = None
        for tok in obs["trace"]:
            if tok.startswith("w") and prev is not None and prev.startswith("r"):
                k = int(prev[1:].split(":")[0])
                if sc.at(k) == "p":
                    spec.append(f"request retransmitted right after the responsePending of read {k}")
                    break
            prev = tok
    if not spec:
        if obs["trace"] != mod["trace"]:
            i = next((i for i in range(min(len(obs["trace"]), len(mod["trace"]))) if obs["trace"][i] != mod["trace"][i]),
                     min(len(obs["trace"]), len(mod["trace"])))
            tie.append(f"call sequence differs at position {i}: impl {obs['trace'][i] if i < len(obs['trace']) else 'end'} "
                       f"model {mod['trace'][i] if i < len(mod['trace']) else 'end'}")
        if obs["elapsed"] != mod["elapsed"]:
            tie.append(f"virtual time {obs['elapsed']} ms, model {mod['elapsed']} ms")
        if not obs["mutex_free"]:
            tie.append("client mutex still held after the request")
    if spec:
        return True, spec
    if tie:
        return False, tie
    return None


def check_cases(driver, cases):
    obs = run_impl_batch(cases)
    mods = [parse_model(l) for l in lean_batch(driver, [case_line(c) for c in cases])]
    return obs, mods


def context_of(case, upto):
    """event classes of the reads consumed (run-length compressed), the canonical shape of a case"""
    sc = Script(parse_script(case["script"]), case["pad"])
    letters = [CLASS[sc.at(k)] for k in range(max(upto, 0))]
    return script_text(compress(letters))


def effective(case):
    mr = case["rm"] if case["rm"] is not None else case["cm"]
    tmo = case["rt"] if case["rt"] is not None else case["ct"]
    return mr, tmo


# ---------------------------------------------------------------------------------------------------------
# shrinking (fixed order) and keys
# ---------------------------------------------------------------------------------------------------------


def signature(case, obs, mod, verdict):
    """what a shrunk case must preserve: kind of verdict and the implementation's symptom"""
    return (verdict[0], out_class(obs["out"]).split(":")[0])


def still_fails(driver, case, sig):
    obs, mods = check_cases(driver, [case])
    v = judge(case, obs[0], mods[0])
    if v is None:
        return None
    if signature(case, obs[0], mods[0], v) != sig:
        return None
    return obs[0], mods[0], v


def shrink(driver, case, obs, mod, verdict):
    """fixed order: plain configuration, pad, fewest retries, shortest script, simplest events"""
    sig = signature(case, obs, mod, verdict)
    best = (dict(case), obs, mod, verdict)

    def attempt(c):
        nonlocal best
        r = still_fails(driver, c, sig)
        if r is not None:
            best = (c, *r)
            return True
        return False

    c = dict(best[0])
    mr, tmo = effective(c)
    # 0. spell out the events the client consumed from the pad
    n_script = script_len(parse_script(c["script"]))
    if 0 <= n_script < obs["reads"] <= 6000 and c["pad"] != "t":
        sc = Script(parse_script(c["script"]), c["pad"])
        attempt({**c, "script": script_text(compress([sc.at(k) for k in range(obs["reads"])])), "pad": "t"})
    # 1. no per-request overrides, default request kind / variant, standard timeout and latency
    for patch in ({"rt": None, "rm": None, "cm": mr, "ct": tmo}, {"req": 0}, {"var": 0}, {"ct": 1000}, {"lat": 10}, {"pad": "t"}):
        c2 = {**best[0], **patch}
        if c2 != best[0]:
            attempt(c2)
    for _outer in range(6):
        before = dict(best[0])
        # 2. fewest retries
        if best[0]["rm"] is None:
            for m in range(0, best[0]["cm"]):
                if attempt({**best[0], "cm": m}):
                    break
        # 3. shortest script: cut the unread tail, then drop / shorten runs
        rl = parse_script(best[0]["script"])
        used = max(best[1]["reads"], 0)
        letters = []
        for ch, n in rl:
            letters += [ch] * n
        if used < len(letters):
            attempt({**best[0], "script": script_text(compress(letters[:used]))})
        changed = True
        rounds = 0
        while changed and rounds < 50:
            changed = False
            rounds += 1
            rl = parse_script(best[0]["script"])
            for i in range(len(rl)):
                ch, n = rl[i]
                for n2 in ([0] if n == 1 else [0, 1, n // 2, n - 1]):
                    rl2 = rl[:i] + ([(ch, n2)] if n2 else []) + rl[i + 1:]
                    letters = []
                    for a, b in rl2:
                        letters += [a] * b
                    if attempt({**best[0], "script": script_text(compress(letters))}):
                        changed = True
                        break
                if changed:
                    break
        # 4. simplest representative of each event class
        for _ in range(20):
            rl = parse_script(best[0]["script"])
            done = True
            for i in range(len(rl)):
                ch, n = rl[i]
                simple = {"e": "c", "f": "m", "n": "P"}.get(ch)
                if simple is None:
                    continue
                letters = []
                for a, b in rl[:i] + [(simple, n)] + rl[i + 1:]:
                    letters += [a] * b
                if attempt({**best[0], "script": script_text(compress(letters))}):
                    done = False
                    break
            if done:
                break
        # 5. widened cases: fewest write / reconnect faults, simplest kinds
        if is_x(best[0]):
            for field, simpler in (("w", {"C": "oT", "T": "o"}), ("rc", {"O": "oC", "T": "oC", "C": "o"})):
                if best[0][field + "pad"] != "o":
                    attempt({**best[0], field + "pad": "o"})
                if best[0][field] != "-":
                    attempt({**best[0], field: "-"})
                for _ in range(30):
                    letters = "".join(ch * n for ch, n in parse_script(best[0][field]))
                    cands = []
                    for i, ch in enumerate(letters):
                        cands.append(letters[:i] + letters[i + 1:])
                        cands += [letters[:i] + r + letters[i + 1:] for r in simpler.get(ch, "")]
                    if not any(attempt({**best[0], field: script_text(compress(cnd))}) for cnd in cands):
                        break
            for patch in ({"ct": 1000}, {"rt": None}):
                c2 = {**best[0], **patch}
                if c2 != best[0]:
                    attempt(c2)
        if best[0] == before:
            break
    return best


def consumed(case, field, n):
    sc = Script(parse_script(case[field]), case[field + "pad"])
    return script_text(compress("".join(sc.at(i) for i in range(max(n, 0)))))


def key_of(case, obs, mod, verdict):
    mr, tmo = effective(case)
    ctx_txt = context_of(case, obs["reads"] if obs["reads"] >= 0 else script_len(parse_script(case["script"])))
    kind = "spec" if verdict[0] else "tie"
    if is_x(case):
        nw = max(obs["kinds"].count("w"), mod["kinds"].count("w"))
        nc = max(obs["kinds"].count("c"), mod["kinds"].count("c"))
        extra = "" if tmo else f":timeout={tmo}"
        return (f"client-io:{kind}:writes={consumed(case, 'w', nw)}:events={ctx_txt}:"
                f"reconnects={consumed(case, 'rc', nc)}:max_retry={mr}{extra}:"
                f"impl={out_class(obs['out'])}:implied={out_class(mod['out'])}")
    return f"client-loop:{kind}:events={ctx_txt}:max_retry={mr}:impl={out_class(obs['out'])}:implied={out_class(mod['out'])}"


# ---------------------------------------------------------------------------------------------------------
# workers
# ---------------------------------------------------------------------------------------------------------


def _tree_worker(args):
    """exhaustive tree below `prefix` for one configuration: extend a script only while the client consumed all of it"""
    driver, base, prefix, depth = args
    level = [prefix]
    n_cases = 0
    n_nontrivial = 0
    kinds = {}
    bad = []
    max_reads = 0
    while level:
        cases = [mk_case(script_text(compress(p)), **base) for p in level]
        obs, mods = check_cases(driver, cases)
        nxt = []
        for p, c, o, m in zip(level, cases, obs, mods):
            n_cases += 1
            n_nontrivial += 1 if o["reads"] >= 2 else 0
            kinds[out_class(m["out"])] = kinds.get(out_class(m["out"]), 0) + 1
            max_reads = max(max_reads, o["reads"])
            v = judge(c, o, m)
            if v is not None and len(bad) < 40:
                bad.append((c, o, m, v))
            if len(p) < depth and o["reads"] > len(p) and m["reads"] > len(p) and o["out"] != "hang":
                nxt += [p + ch for ch in ALPHA]
            elif len(p) < depth and (o["reads"] > len(p)) != (m["reads"] > len(p)) and v is None:
                bad.append((c, o, m, (False, ["reads consumed differ"])))
        level = nxt
    return n_cases, kinds, bad, max_reads, n_nontrivial


def _list_worker(args):
    driver, cases = args
    obs, mods = check_cases(driver, cases)
    bad = []
    kinds = {}
    for c, o, m in zip(cases, obs, mods):
        kinds[out_class(m["out"])] = kinds.get(out_class(m["out"]), 0) + 1
        v = judge(c, o, m)
        if v is not None and len(bad) < 40:
            bad.append((c, o, m, v))
    return len(cases), kinds, bad, max((o["reads"] for o in obs), default=0), sum(1 for o in obs if o["reads"] >= 2)


def first_pad_use(kinds, node):
    """kind ('w' / 'r' / 'c') of the first transport call that ran past its scripted stream, or None"""
    left = {"w": len(node[0]), "r": len(node[1]), "c": len(node[2])}
    for ch in kinds:
        if left[ch] == 0:
            return ch
        left[ch] -= 1
    return None


X_ALPHA = {"w": W_ALPHA, "r": ALPHA, "c": RC_ALPHA}


def xnode_case(node, base):
    w, r, c = node
    return mk_xcase(script_text(compress(r)), w=script_text(compress(w)), rc=script_text(compress(c)), **base)


def _xtree_worker(args):
    """exhaustive tree over the widened alphabet below `start` = (writes, reads, reconnects): a node is extended at
    the first transport call that found its stream exhausted, with every letter that call can be answered with;
    `depth` bounds the total number of scripted decisions; nodes of total length `stop_at` are returned unexpanded"""
    driver, base, start, depth, stop_at = args
    level = [start]
    n_cases = 0
    n_nontrivial = 0
    kinds = {}
    bad = []
    max_reads = 0
    frontier = []
    while level:
        cases = [xnode_case(nd, base) for nd in level]
        obs, mods = check_cases(driver, cases)
        nxt = []
        for nd, c, o, m in zip(level, cases, obs, mods):
            n_cases += 1
            n_nontrivial += 1 if len(o["kinds"]) >= 3 else 0
            kinds[out_class(m["out"])] = kinds.get(out_class(m["out"]), 0) + 1
            max_reads = max(max_reads, o["reads"])
            v = judge(c, o, m)
            if v is not None and len(bad) < 40:
                bad.append((c, o, m, v))
            total = len(nd[0]) + len(nd[1]) + len(nd[2])
            if total >= depth or o["out"] == "hang":
                continue
            ki, km = first_pad_use(o["kinds"], nd), first_pad_use(m["kinds"], nd)
            if ki != km:
                if v is None:
                    bad.append((c, o, m, (False, ["transport calls consumed differ"])))
                continue
            if ki is None:
                continue
            idx = "wrc".index(ki)
            children = [tuple(nd[q] + (ch if q == idx else "") for q in range(3)) for ch in X_ALPHA[ki]]
            if stop_at is not None and total + 1 >= stop_at:
                frontier += children
            else:
                nxt += children
        level = nxt
    return n_cases, kinds, bad, max_reads, n_nontrivial, frontier


def read_timeout_tie(driver):
    """`UDSClient._read(timeout=arg)` for every combination of self.timeout and arg: the timeout transport.read receives"""
    G = _gallia()
    vals = [None, 0, 300, 500, 2000]
    combos = [(a, b) for a in vals for b in vals]
    got = []

    async def one(st_ms, arg_ms):
        case = mk_xcase("P", lat=0)
        st = G["State"](case)
        G["FakeTransport"].state = st
        tr = G["FakeTransport"](G["TargetURI"]("fake://script"))
        client = G["UDSClient"](tr, timeout=None if st_ms is None else st_ms / 1000)
        try:
            await client._read(timeout=None if arg_ms is None else arg_ms / 1000)
        except TimeoutError:
            pass
        e = next(e for e in st.log if e[0] == "r")
        return "none" if e[3] is None else str(ms(e[3]))

    loop = VLoop()
    try:
        asyncio.set_event_loop(loop)

        async def main():
            return [await one(a, b) for a, b in combos]
        got = loop.run_until_complete(main())
    finally:
        asyncio.set_event_loop(None)
        loop.close()

    def o(x):
        return "none" if x is None else str(x)
    want = lean_batch(driver, [f"readtmo {o(a)} {o(b)}" for a, b in combos])
    return [(a, b, g, w) for (a, b), g, w in zip(combos, got, want)]


# ---------------------------------------------------------------------------------------------------------
# case generation
# ---------------------------------------------------------------------------------------------------------

CONFIGS_OVERRIDE = [
    # (cm, ct, rm, rt, lat)  client attribute vs per-request override
    (2, 1000, 0, None, 10),      # override max_retry down to 0 (`is not None`, not truthiness)
    (0, 1000, 2, None, 0),       # override max_retry up
    (3, 1000, 1, 500, 10),       # both overridden
    (1, 30000, None, None, 10),  # long timeout: silence limit 60 polls
    (1, 1000, None, 30000, 100),  # long timeout by override
    (1, 20300, None, None, 10),  # silence limit is a ceiling: 41 polls
    (2, 500, None, 50, 10),      # very short override
    (1, 1000, 1, 1000, 0),       # override equal to the attribute
]


def long_runs():
    """runs crossing the pending limit (120) and the silence limit (max(timeout, 20 s) / 0.5 s)"""
    out = []
    for cm in (0, 1, 2):
        for fin in "PnbmfcetpP":
            for n in (117, 118, 119, 120, 121):
                out.append(mk_case([("p", n), (fin, 1)], cm=cm, pad="P" if fin == "p" else "t"))
        out.append(mk_case([("p", 1)], cm=cm, pad="p"))                       # endless pendings
        out.append(mk_case([("p", 1)], cm=cm, pad="p", lat=0))
        out.append(mk_case([("p", 200)], cm=cm, pad="P"))
        for nt, ct, rt in ((40, 1000, None), (60, 30000, None), (41, 20300, None), (40, 20000, None), (60, 1000, 30000), (40, 50, None), (50, 25000, None)):
            for d in (-2, -1, 0, 1):
                for fin in "Pnpbc":
                    out.append(mk_case([("p", 1), ("t", nt + d), (fin, 1)], cm=cm, ct=ct, rt=rt, pad="P"))
                    out.append(mk_case([("p", 3), ("t", nt + d), (fin, 1), ("t", 5), ("P", 1)], cm=cm, ct=ct, rt=rt, pad="t"))
        # pendings interleaved with almost-silence: the longest run the loop allows
        for gap in (1, 20, 39):
            rl = []
            for _ in range(125):
                rl += [("p", 1), ("t", gap)]
            out.append(mk_case(rl, cm=cm, pad="P"))
            out.append(mk_case(rl[:2 * 118] + [("p", 1), ("t", gap), ("P", 1)], cm=cm, pad="t"))
            out.append(mk_case(rl[:2 * 117] + [("p", 1), ("t", gap), ("n", 1)], cm=cm, pad="t"))
        # silence in every attempt, faults between attempts
        out.append(mk_case([("p", 1), ("t", 40), ("p", 1), ("t", 40), ("p", 1), ("t", 40)], cm=cm, pad="t"))
        out.append(mk_case([("p", 1), ("t", 40), ("c", 1), ("p", 2), ("e", 1), ("P", 1)], cm=cm, pad="t"))
        out.append(mk_case([("p", 119), ("t", 39), ("p", 1)], cm=cm, pad="P"))
    return out


def random_case(rng, long_ok):
    cm = rng.choice([0, 1, 2, 3, 3, 5])
    ct = rng.choice([1000, 1000, 500, 2000, 30000, 20300, 250])
    rm = rng.choice([None, None, None, 0, 1, 2, 4])
    rt = rng.choice([None, None, None, 500, 30000, 1000, 120, 22700])
    tmo = rt if rt is not None else ct
    lat = rng.choice([0, 0, 10, 10, 50, 100])
    if lat >= min(tmo, 500):
        lat = 0
    n = rng.randint(0, 12)
    weights = rng.choice(["tcebpmfnP", "tttcebbppppp", "ppppttttnP", "tcebp", "ceceppb", "pppppptn"])
    rl = []
    for _ in range(n):
        ch = rng.choice(weights)
        cnt = 1
        r = rng.random()
        if ch in "tp" and r < 0.25:
            cnt = rng.randint(2, 45) if long_ok else rng.randint(2, 6)
        elif ch == "p" and r < 0.30 and long_ok:
            cnt = rng.randint(100, 125)
        rl.append((ch, cnt))
    return mk_case(script_text(compress("".join(ch * cnt for ch, cnt in rl))), cm=cm, ct=ct, rt=rt, rm=rm, lat=lat,
                   pad=rng.choice("tttPpnbc"), req=rng.randrange(4), var=rng.randrange(64))


XCONFIGS = [
    # widened trees for other configurations: client timeout None / 0, `is not None` overrides, other continuations
    dict(cm=1, ct=None, lat=10),                      # no deadline: write(None) / read(None), silence limit from the floor
    dict(cm=2, ct=0, lat=0),                          # timeout 0 is falsy for the silence limit, but is passed on as 0
    dict(cm=1, ct=30000, rt=0, lat=0),                # override 0 wins over the attribute (`is not None`)
    dict(cm=0, ct=1000, rm=2, lat=10, req=1, var=1),  # max_retry overridden up
    dict(cm=3, ct=500, rm=1, rt=2000, lat=50, req=2, var=2),
    dict(cm=1, ct=1000, lat=10, wpad="C", rcpad="C", req=3, var=3),   # everything fails after the script
    dict(cm=2, ct=1000, lat=10, wpad="T", pad="c", req=1, var=5),
    dict(cm=2, ct=1000, lat=10, pad="p", rcpad="O", req=2, var=7),
]


def long_runs_x():
    """widened scripts across the limits: faults of write() / reconnect around pending and silence episodes"""
    out = []
    for cm in (0, 1, 2, 3):
        # every write fails / every reconnect fails, in every combination of kinds
        for wk in ("T", "C", "TC", "CT", "CCT", "TTC", "CCCC", "TTTT", "oCoT", "CoTo"):
            for rk in ("-", "C", "oC", "ooT", "oooO", "T", "O"):
                out.append(mk_xcase("P", w=wk, rc=rk, cm=cm, pad="P"))
                out.append(mk_xcase("c,t,e,b", w=wk, rc=rk, cm=cm, pad="t"))
        # connection lost at the end of a long pending run, reconnect fails / works, next write fails
        for n in (1, 118, 119):
            for rk in "oCTO":
                for wk in ("o", "oT", "oC"):
                    out.append(mk_xcase([("p", n), ("c", 1), ("P", 1)], w=wk, rc=rk, cm=cm))
                    out.append(mk_xcase([("p", n), ("e", 1), ("p", 2), ("c", 1), ("n", 1)], w=wk, rc="o" + rk, cm=cm))
        # a silence episode, then the retransmission fails
        for wk in ("oT", "oC", "oTo", "oCo", "ooC"):
            for rk in "oCT":
                out.append(mk_xcase([("p", 1), ("t", 40), ("P", 1)], w=wk, rc=rk, cm=cm))
                out.append(mk_xcase([("p", 2), ("t", 40), ("p", 1), ("t", 40), ("P", 1)], w=wk, rc=rk, cm=cm))
        # the silence limit for falsy / overridden timeouts: None, 0, override 0 over 30 s, 30 s, 20.3 s
        for ct, rt, lat, nt in ((None, None, 10, 40), (0, None, 0, 40), (30000, 0, 0, 40), (None, 30000, 10, 60),
                                (0, 20300, 10, 41), (None, 0, 0, 40)):
            for d in (-1, 0, 1):
                for fin in "Pc":
                    for wk, rk in (("-", "-"), ("oT", "-"), ("oC", "C"), ("oC", "o")):
                        out.append(mk_xcase([("p", 1), ("t", nt + d), (fin, 1), ("P", 1)], w=wk, rc=rk, cm=cm, ct=ct,
                                            rt=rt, lat=lat, pad="P"))
    return out


def random_xcase(rng):
    c = random_case(rng, True)
    ct = rng.choice([c["ct"], c["ct"], c["ct"], None, 0])
    rt = rng.choice([c["rt"], c["rt"], c["rt"], 0])
    tmo = rt if rt is not None else ct
    lat = c["lat"]
    if tmo == 0:
        lat = 0
    elif tmo is not None and lat >= min(tmo, 500):
        lat = 0
    wl = "".join(rng.choice("ooooTC" if rng.random() < 0.7 else "oTC") for _ in range(rng.randint(0, 6)))
    rl = "".join(rng.choice("oooCTO" if rng.random() < 0.7 else "oCTO") for _ in range(rng.randint(0, 4)))
    x = mk_xcase(c["script"], w=script_text(compress(wl)), rc=script_text(compress(rl)), wpad=rng.choice("ooooTC"),
                 rcpad=rng.choice("oooCTO"), cm=c["cm"], ct=ct, rt=rt, rm=c["rm"], lat=lat, pad=c["pad"], req=c["req"],
                 var=c["var"])
    return x


# ---------------------------------------------------------------------------------------------------------
# the check
# ---------------------------------------------------------------------------------------------------------


def run(ctx):
    _gallia()
    driver = ctx.driver_path
    if driver is None:
        from common import DriverError
        raise DriverError("no model driver available")
    ctx.rule = ("one real UDSClient.request() per case on the scripted transport; distinct = distinct (configuration, "
                "event script as consumed; tree cases are distinct by construction, sampled ones by seed); non-trivial = the "
                "client performed at least two reads, i.e. at least one fault / busy / pending event preceded the end")
    zygote()  # before anything is parsed in this process: the sessions start from a process without history
    depth = ctx.pick(6, 8)
    depth_override = ctx.pick(5, 6)
    tasks = []
    # 1. exhaustive trees: every script up to `depth` events, then silence; max_retry 0..3
    for cm in (0, 1, 2, 3):
        base = dict(cm=cm, ct=1000, rt=None, rm=None, lat=10, pad="t", req=0, var=0)
        split = 2 if depth >= 7 else 1
        prefixes = list(ALPHA) if split == 1 else [a + b for a in ALPHA for b in ALPHA]
        if split == 2:
            tasks.append(("tree", (str(driver), base, "", 1)))
        for p in prefixes:
            tasks.append(("tree", (str(driver), base, p, depth)))
        tasks.append(("tree", (str(driver), base, "", 0)))
    ctx.exhaustive_parts.append(f"all event scripts over the 9-letter alphabet up to length {depth} (extended only while the "
                                f"client consumed the whole script), followed by silence, x max_retry in {{0,1,2,3}}")
    # 2. the same for configuration overrides, other request kinds, pad events
    for i, (cm, ct, rm, rt, lat) in enumerate(CONFIGS_OVERRIDE):
        base = dict(cm=cm, ct=ct, rt=rt, rm=rm, lat=lat, pad="t", req=i % 4, var=i)
        for p in ALPHA:
            tasks.append(("tree", (str(driver), base, p, depth_override)))
    for pad in "Ppbc":
        base = dict(cm=1, ct=1000, rt=None, rm=None, lat=10, pad=pad, req=1, var=3)
        for p in ALPHA:
            tasks.append(("tree", (str(driver), base, p, depth_override)))
    ctx.exhaustive_parts.append(f"all scripts up to length {depth_override} x {len(CONFIGS_OVERRIDE)} client / per-request "
                                f"configuration combinations (timeout None / 0.05 / 0.5 / 30 / 20.3 s, max_retry overrides "
                                f"incl. 0) and x 4 other continuations (endless pendings, busy, connection loss, late reply)")
    # 3. long runs across the limits
    lr = long_runs()
    for i in range(0, len(lr), 24):
        tasks.append(("list", (str(driver), lr[i:i + 24])))
    ctx.exhaustive_parts.append("pending runs of 117..121 replies ended by every event kind; silence runs of limit-2..limit+1 "
                                "polls for limits 40 / 41 / 50 / 60; pendings interleaved with 1 / 20 / 39 silent polls up to the read bound")
    # 4. seeded random configurations and scripts
    n_rand = ctx.pick(3000, 60000)
    rc = [random_case(ctx.rng, True) for _ in range(n_rand)]
    for i in range(0, len(rc), 100):
        tasks.append(("list", (str(driver), rc[i:i + 100])))

    # 5. widened alphabet: write() and reconnect can fail.  Lists here, trees below (two phases)
    lx = long_runs_x()
    for i in range(0, len(lx), 60):
        tasks.append(("list", (str(driver), lx[i:i + 60])))
    n_randx = ctx.pick(3000, 60000)
    rx = [random_xcase(ctx.rng) for _ in range(n_randx)]
    for i in range(0, len(rx), 100):
        tasks.append(("list", (str(driver), rx[i:i + 100])))
    xdepth = ctx.pick(10, 12)
    xdepth_cfg = ctx.pick(8, 9)
    xroots = [(dict(cm=cm, ct=1000, lat=10), xdepth) for cm in (0, 1, 2, 3)] + [(b, xdepth_cfg) for b in XCONFIGS]
    ctx.exhaustive_parts.append(
        f"widened alphabet (write: ok / TimeoutError / ConnectionError; read: the 9 events; reconnect: ok / ConnectionError / "
        f"TimeoutError / OSError): every script of up to {xdepth} scripted transport decisions (a script is extended at the "
        f"first call that found its stream exhausted, with every answer that call can get) x max_retry in {{0,1,2,3}}; up to "
        f"{xdepth_cfg} decisions x {len(XCONFIGS)} configurations (client timeout None / 0, override 0, max_retry overrides, "
        f"failing continuations)")
    ctx.exhaustive_parts.append("write / reconnect faults around pending runs of 118..120 and silence episodes; silence limit for "
                                "timeout None / 0 / override 0 / 30 s / 20.3 s; UDSClient._read timeout for 5 x 5 (self.timeout, arg)")

    with multiprocessing.get_context("fork").Pool(min(16, max(2, multiprocessing.cpu_count()))) as pool:
        xjobs_a = [pool.apply_async(_xtree_worker, ((str(driver), b, ("", "", ""), d, 3),)) for b, d in xroots]
        jobs = [pool.apply_async(_tree_worker if k == "tree" else _list_worker, (a,)) for k, a in tasks]
        xres_a = [j.get() for j in xjobs_a]
        xjobs_b = []
        for (b, d), ra in zip(xroots, xres_a):
            for nd in ra[5]:
                xjobs_b.append(pool.apply_async(_xtree_worker, ((str(driver), b, nd, d, None),)))
        sess = session_cases(ctx)
        sess_res = run_sessions(driver, sess)
        results = [j.get() for j in jobs]
        xres_b = [j.get() for j in xjobs_b]
    for ra in xres_a + xres_b:
        tasks.append(("xtree", None))
        results.append(ra[:5])

    bad_all = []
    max_reads = 0
    for ti, ((k, a), (n, kinds, bad, mr, nnt)) in enumerate(zip(tasks, results)):
        ctx.ev(n)
        for j in range(nnt):
            ctx.nontrivial((ti, j))
        ctx.traces_validated += n
        max_reads = max(max_reads, mr)
        label = k
        for kk, vv in kinds.items():
            ctx.dist[f"{label}:implied={kk}"] += vv
        bad_all += bad
    ctx.notes["max_reads_in_one_request"] = max_reads
    for a, b, got, want in read_timeout_tie(driver):
        ctx.ev(1)
        ctx.dist["_read:" + ("arg none" if b is None else "arg given")] += 1
        if got != want:
            ctx.disagree(f"client-read-timeout:self={a}:arg={b}:impl={got}:model={want}",
                         f"UDSClient._read(timeout={b}) with self.timeout={a} (ms): transport.read got {got}, model {want}",
                         {"self_timeout_ms": a, "arg_ms": b}, impl=got, model=want, spec_violated=False, site="UDSClient._read")
    ctx.notes["requests"] = [r["name"] for r in _gallia()["reqs"]]
    ctx.sample({"case": lr[0], "line": case_line(lr[0])})

    # sessions: every step against the history-free model
    ctx.exhaustive_parts.append(
        f"sessions in one fresh process: every ordered pair of the {len(_gallia()['reqs'])} request kinds (services sharing "
        f"sub-function ids: 31 01..03, 19 01/02/0A, 2C 01..03, 10 01..03, 11 01/03, 27 01/02, 28 01/03, 85 01/02, 3E 00, plus 22 and "
        f"an unknown service), the second request ended by a final reply directly / after responsePending / after timeout, busy or "
        f"connection loss + retry / by an illegal reply (all {len(FINAL_SHAPES)} shapes for pairs with equal sub-function byte)")
    seen_sess = {}
    n_steps = 0
    for s_, (o, m) in zip(sess, sess_res):
        ctx.ev(len(s_["session"]))
        n_steps += len(s_["session"])
        ctx.traces_validated += len(s_["session"])
        ctx.nontrivial(("session", len(seen_sess), n_steps))
        ctx.dist[f"session:len={len(s_['session'])}"] += 1
        f = judge_session(s_, o, m)
        if f is None:
            continue
        c = s_["session"][f[0]]
        sg = (signature(c, o[f[0]], m[f[0]], f[1]), req_tag(c), tuple(sorted({req_tag(x) for x in s_["session"][:f[0]]})) if len(seen_sess) < 4 else ())
        if sg in seen_sess or len(seen_sess) >= 8:
            continue
        seen_sess[sg] = (s_, o, m, f)
    ctx.notes["sessions"] = len(sess)
    ctx.notes["session_requests"] = n_steps
    # shrink and report
    single_syms = set()
    seen_sig = {}
    for c, o, m, v in bad_all:
        sig = (signature(c, o, m, v), context_of(c, min(o["reads"], 400)) if len(seen_sig) < 30 else "")
        if sig in seen_sig:
            continue
        seen_sig[sig] = True
        if len(seen_sig) > 60:
            break
        c2, o2, m2, v2 = shrink(driver, c, o, m, v)
        key = key_of(c2, o2, m2, v2)
        ctx.disagree(key, "UDSClient.request: " + "; ".join(v2[1]),
                     {"case": c2, "driver_line": case_line(c2), "events": [NAMES[ch] for ch, n in parse_script(c2["script"]) for _ in range(min(n, 3))][:12],
                      "request": _gallia()["reqs"][c2["req"] % len(_gallia()["reqs"])]["name"]}
                     | ({"writes": [W_NAMES[ch] for ch, n in parse_script(c2["w"]) for _ in range(min(n, 3))][:12],
                         "reconnects": [RC_NAMES[ch] for ch, n in parse_script(c2["rc"]) for _ in range(min(n, 3))][:12]}
                        if is_x(c2) else {}),
                     impl={k: o2[k] for k in ("out", "writes", "reads", "elapsed", "detail")} | {"trace": o2["trace"][:60]},
                     model={k: m2[k] for k in ("out", "writes", "reads", "elapsed")} | {"trace": m2["trace"][:60]},
                     spec_violated=v2[0], site="UDSClient.request_unsafe")
        single_syms.add(key.split(":events=")[1] if ":events=" in key and not is_x(c2) else key)

    # sessions: reported after the single-request findings
    reported = set()
    for s_, o, m, f in seen_sess.values():
        s2, o2, m2, f2 = shrink_session(driver, s_, o, m, f)
        key = session_key(s2, o2, m2, f2)
        if f2[0] == 0:
            # the request fails without any history: one report per symptom, none if the single-request part reported it
            sym = key.split(":events=")[1]
            if sym in single_syms or sym in reported:
                continue
            reported.add(sym)
        if key in reported:
            continue
        reported.add(key)
        i2 = f2[0]
        rqs = _gallia()["reqs"]
        ctx.disagree(key, f"UDSClient.request, request {i2 + 1} of a session in one process: " + "; ".join(f2[1][1]),
                     {"case": s2, "driver_lines": [case_line(c) for c in s2["session"]],
                      "requests": [f"{rqs[c['req'] % len(rqs)]['name']} ({bytes(rqs[c['req'] % len(rqs)]['req'].pdu).hex()}) events "
                                   f"{c['script']}" for c in s2["session"]]},
                     impl=[{k: x[k] for k in ("out", "writes", "reads", "elapsed", "detail")} for x in o2],
                     model=[{k: x[k] for k in ("out", "writes", "reads", "elapsed")} for x in m2],
                     spec_violated=f2[1][0], site="UDSClient.request_unsafe")
    zygote_stop()


def replay(ctx, case):
    _gallia()
    c = case.get("case", {}).get("case") or case.get("case")
    if "session" in c:
        (obs, mods), = run_sessions(ctx.driver_path, [c])
        f = judge_session(c, obs, mods)
        print("session in one fresh process,", "one client object for all requests" if c.get("shared") else "one client object per request")
        for i, (st, o, m) in enumerate(zip(c["session"], obs, mods)):
            print(f"request {i + 1}: {req_tag(st)}  {case_line(st)}")
            print("  impl :", {k: o[k] for k in ("out", "writes", "reads", "elapsed", "detail")})
            print("  model:", {k: m[k] for k in ("out", "writes", "reads", "elapsed")})
        print("verdict:", "agree" if f is None else f"request {f[0] + 1}: " + ("property violated: " if f[1][0] else "tie broken: ")
              + "; ".join(f[1][1]))
        zygote_stop()
        return f is not None
    obs, mods = check_cases(ctx.driver_path, [c])
    v = judge(c, obs[0], mods[0])
    print("case   :", case_line(c))
    print("impl   :", {k: obs[0][k] for k in ("out", "writes", "reads", "elapsed", "detail")})
    print("         ", ",".join(obs[0]["trace"][:80]))
    print("model  :", {k: mods[0][k] for k in ("out", "writes", "reads", "elapsed")})
    print("         ", ",".join(mods[0]["trace"][:80]))
    print("verdict:", "agree" if v is None else ("property violated: " if v[0] else "tie broken: ") + "; ".join(v[1]))
    return v is not None


MANIFEST = {
    "level_text": ("Lean 4 theorems over an executable model of UDSClient.request_unsafe driven by an infinite event stream "
                   "(termination and boundedness proved, not assumed): explicit bounds on reads and virtual time, "
                   "writes <= max_retry+1 and = 1 + retry-worthy events consumed, responsePending never followed by a "
                   "transmission, soundness and uniqueness of the outcome w.r.t. the separately written relation "
                   "Spec/ClientSpec.Implied, no final reply is ever read past, backoff sleeps are retry_wait*2^i. Literal limits "
                   "(120 pendings, 0.5 s poll, 20 s floor, 0.2 s backoff) regenerated from client.py with an agreement theorem. "
                   "Widened model Model/ClientIO (UDSClient.request() = mutex around request_unsafe; transport.request_unsafe = "
                   "write then read; write() may raise TimeoutError / ConnectionError, reconnect_unsafe() may raise; effective "
                   "max_retry / timeout incl. None and 0; _read) over scripts of three infinite streams, with the same theorems "
                   "(`*_io`) against Spec/ClientIOSpec.ImpliedX (22 rules), the shape of the call sequence (a failed write is "
                   "never followed by a read of that attempt, a failed reconnect is the last action), the deadlines every call "
                   "gets, and conservativity (without write / reconnect faults the widened run is the old run). "
                   "Tied to the code by running the real UDSClient.request() on a scripted transport under virtual time: every "
                   "read-event script up to length 6 (quick) / 8 (thorough) x max_retry 0..3, configuration overrides, long runs "
                   "across the pending and silence limits; every widened script (write / read / reconnect decisions) up to 10 "
                   "(quick) / 12 (thorough) decisions x max_retry 0..3 and up to 8 / 9 x 8 configurations (timeout None / 0, "
                   "overrides); call sequence incl. mutex acquire / release, deadlines, timestamps, outcome and __cause__ compared. "
                   "Sessions (Model/ClientSession.runSession; session_step / session_history_irrelevant: a request's result "
                   "does not depend on the requests before it; session_writes_le / session_elapsed_le: the bounds add up): "
                   "every ordered pair of 24 request kinds (31 01..03, 19 01/02/0A, 2C 01..03, 10 01..03, 11 01/03, 27 01/02, "
                   "28 01/03, 85 01/02, 3E 00, 22, unknown service) and seeded random sessions of 2..6 requests run on the real "
                   "client in one fresh process each, every request compared with the history-free model."),
    "level_note": ("Trusted: Lean kernel (propext, Quot.sound, Classical.choice), asyncio timeouts/sleep/Lock under the "
                   "virtual-time loop, the fake transport, the harness. A failing reconnect_unsafe() is outside the property's "
                   "alphabet: its exception ends the request and the specification names that outcome (reconnectFailed) without "
                   "calling it a violation. transport.reconnect() internals (C08), replies arriving during a backoff sleep, "
                   "negative max_retry, a transport that blocks forever when given no deadline, and wall-clock effects are "
                   "outside the model. busyRepeatRequest after responsePending is read as a final reply."),
    "technique": "Lean 4 proof (well-founded recursion, functional induction, inductive specification) + differential correspondence under virtual time",
    "design_ref": "DESIGN.md section 7, C04",
}
