"""C09 - session scan: the real `SessionsScanner.main()` (real config object, real `ECU`/`UDSClient` on an in-process
graph ECU transport, virtual time, no `setup()`) against Model/SessionScan.lean `scan`, and against the executable
specification `reachSet` / `ValidPath` evaluated on what the real scanner reported."""
import asyncio
import itertools
import multiprocessing as mp
import random
import shutil
import tempfile
from datetime import UTC, datetime
from pathlib import Path

from common import setup_repo_import
from vloop import Stall, patch_aiosqlite, vrun

ID = "C09"
GENS = ["c09_calls"]
PROOF = "Gallia.Proofs.C09"
DRIVER = "c09"
ORACLE = False
ASSUMPTIONS = [
    "exactness (scan_exact*, scan_complete*) is claimed for ECUs that have a session graph: GraphLike stateful ECUs (reply to `10 u` "
    "and the session afterwards depend on the current session only, whatever the inner state, the history and the timing; "
    "proved to be simulated by the graph model: scan_simulates_graph) and, with an OEM ECU class whose session hooks send "
    "requests, the graph ECU with a second graph `gh` for the hooked attempt (the stateful version of this one is tied to the "
    "graph model by the twin check of the harness, not by a theorem)",
    "for ECUs that are not graph-like only what is stated is claimed: wire alphabet, skip list and request bound for ANY ECU "
    "(requests_only_dsc_reset_ping_hooks, skip_not_requested_any, requests_bounded); security-locked transitions: exactly the "
    "sessions reachable without unlocking (scan_exact_locked_subgraph); ResponsePending in front of real answers: transparent "
    "(scan_pending_transparent); S3 session timeout: completeness and the reported stack can fail (witness theorems), the general "
    "soundness statement `every reported session is reachable in the graph` is checked by the tie only; sporadic "
    "busyRepeatRequest / lost requests within max_retry per request: `same report as without faults` is checked by the tie only",
    "after an accepted ECUReset the ECU leaves a number of pings unanswered (boot phase) that fits into wait_for_ecu's "
    "timeout (pingBudget = pings sent at 0.5 s, 1.5 s, ... before the timeout); afterwards it answers every ping",
    "fewer than 119 ResponsePending frames per request (MAX_N_PENDING, C04's subject); client timing as in UDSClient: timeout "
    "2 s, retry_wait 0.2 s * 2^i, pending loop gives up after 40 * 0.5 s, pings every 0.5 s with 0.5 s timeout; the scanner's "
    "--sleep is 0; no cyclic tester-present worker runs during the scan (the client mutex between the worker and the requests "
    "of the scan is C05's subject)",
    "scans with a database (the real DBHandler on a sqlite file under /var/tmp, removed afterwards): the session_transition rows "
    "of the scan run are read back from the file after the scan has disconnected; one scan into a fresh database and two or "
    "three consecutive scans of the same target (other depth / skip / thorough / hooks / reset, sometimes an ECU whose graph has "
    "changed in between) into the same file; the table model (Model/SessionDb.lean) has the session_transition rows and fresh "
    "run ids only - address / run_meta / scan_result tables and the exchange log belong to C11; what "
    "DBHandler.get_session_transition returns to a later ECU.set_session(use_db=True) when several runs stored different "
    "sequences for one session (the first row of any run) is not judged",
    "slow session changes: a positive reply announced with ResponsePending arrives less than 20 s (PENDING_GIVEUP_MS, the 40 reads of "
    "0.5 s of the client's pending loop) after the last pending frame: transparent (scan_slow_pending_transparent; generated gaps "
    "0.3 / 3.9 / 5.3 / 12.2 / 19.1 s of virtual time on graph and security-locked ECUs, session changes only); from 20 s on the "
    "transmission counts as unanswered (slow_pending_lost_at_giveup; the late reply that then meets the next request is not "
    "modelled and not generated); gaps on S3-timer ECUs are not generated (the model's idle time does not count them)",
    "the content of a positive DiagnosticSessionControl reply beyond `50 <sub-function>` (the sessionParameterRecord, generated with "
    "0 / 2 / 4 / 5 / 6 bytes per ECU or per session) is not part of the model: Ans.pos has no content, the scanner must not "
    "depend on it",
    "completeness is claimed for runs that do not exit with status 1; every ECU whose sessions can all re-enter the "
    "default session (ISO 14229-1: `10 01` is mandatory) is proved to be such a run",
    "OEM hooks are represented by the list of 2-byte requests they send (send_raw through request_unsafe, reply ignored, an "
    "unanswered one raises MissingResponse); with the base ECU class --with-hooks repeats the request once on conditionsNotCorrect",
    "replies the client refuses (Ans.illegal switched: helpers.parse_pdu raises IllegalResponse - NRC outside UDSErrorCodes, truncated "
    "positive reply, reply of another service, positive reply echoing another sub-function; the ECU may have switched session or not) "
    "are modelled as answers to probes, to stack-recovery requests, to the hooked attempt and to the ECUReset of --reset; in the "
    "stateful model also to hook requests. Not modelled: which of the four kinds it is (the scanner does not distinguish them), what "
    "ECU.update_state makes of the CONTENT of a refused reply (`62 f1 86 03` / `50 07 ..` change the client-side session: not compared "
    "on cases with refused replies), refused replies to the pings of wait_for_ecu (the loop goes on like after a missing reply, "
    "but 0.5 s earlier: the ping budget is exact for missing replies only; the harness never garbles pings)",
    "scan_never_gives_up / scan_exact and their corollaries assume ResetLegal: with --reset the ECUReset is not answered with a "
    "refused reply (otherwise the IllegalResponse leaves main: modelled as crashed, witnessed, tied); completeness holds with "
    "refused probe replies as long as the scan does not give up (a refused reply inside a stack recovery is exit 1)",
]

NRCS = [0x10, 0x11, 0x13, 0x22, 0x22, 0x24, 0x31, 0x33, 0x33, 0x7E, 0x7E, 0x7F, 0x21]
REQ_CAP = 400_000  # a scan that puts more requests than this on the wire is reported as not terminating


class TooManyRequests(BaseException):
    pass


REFUSED_KINDS = "uvtore"


def refused_reply(kind, req):
    """a reply to `req` that `helpers.parse_pdu` refuses (IllegalResponse): u/v = negative response with a code outside
    UDSErrorCodes (`7f 10 80`, `7f 10 23`: MalformedResponse), t = truncated positive reply (`50`), o/r = reply of another
    service (`7f 22 31`, `62 f1 86 03`: RequestResponseMismatch), e = positive reply echoing another sub-function (`50 07 ..`
    to `10 03`; a raw hook request is only matched by service id, so there it becomes u)"""
    sid, sub = req[0], req[1]
    if kind == "e" and sid not in (0x10, 0x11):
        kind = "u"
    return {"u": bytes([0x7F, sid, 0x80]), "v": bytes([0x7F, sid, 0x23]), "t": bytes([sid + 0x40]),
            "o": bytes([0x7F, 0x22, 0x31]), "r": bytes.fromhex("62f18603"),
            "e": bytes([sid + 0x40, (sub ^ 0x04) & 0x7F]) + (bytes.fromhex("003201f4") if sid == 0x10 else b"")}[kind]


RECORD = bytes.fromhex("003201f4aa55")   # P2Server_max, P2*Server_max, manufacturer specific trailing bytes
REC_LENS = [0, 2, 4, 5, 6]               # none / P2 only (ISO 14229-1:2006) / P2 + P2* / with trailing bytes
GAPS_MS = [300, 3900, 5300, 12200, 19100]  # silence between the last ResponsePending and the positive reply (< 20 s)


def dsc_pos(sub, rec=None):
    """the positive reply `50 sub <sessionParameterRecord>`; `rec`: list of record lengths, the session `u` gets the one
    at index u % len(rec) (default: the 4-byte record)"""
    n = 4 if not rec else rec[(sub & 0x7F) % len(rec)]
    return bytes([0x50, sub]) + RECORD[:n]


def gap_ms(dl, cur, code):
    """ms of silence between the last ResponsePending frame and a positive reply to `10 code` received in session `cur`"""
    return dl[(cur * 3 + code) % len(dl)] if dl else 0


# ------------------------------------------------------------------------------------------------------------
# the implementation side
# ------------------------------------------------------------------------------------------------------------
_impl = {}


def _load_impl():
    if _impl:
        return _impl
    setup_repo_import()
    import gallia.command  # noqa: F401  (before gallia.plugins.plugin: circular import otherwise)
    from gallia.commands.scan.uds.sessions import SessionsScanner, SessionsScannerConfig
    from gallia.services.uds.ecu import ECU
    from gallia.transports.base import BaseTransport, TargetURI

    class GraphTransport(BaseTransport, scheme="graph"):
        """the ECU: session graph + current session; answers DSC, ECUReset and TesterPresent"""

        def __init__(self, target, edges, rst, edges_h=None, pre=(), post=(), boot=0, rec=None):
            super().__init__(target)
            self.rec = rec          # lengths of the sessionParameterRecord of the positive DSC replies
            self.edges = edges
            self.rst = rst
            # an ECU on which the session hooks of the (OEM) ECU class have an effect: a `10 u` that comes right after the
            # requests of set_session_pre is answered from `edges_h`
            self.edges_h = edges_h if edges_h is not None else edges
            self.pre = {bytes([x >> 8, x & 0xFF]) for x in pre}
            self.post = {bytes([x >> 8, x & 0xFF]) for x in post}
            self.hooked = False
            self.hooked_for = None  # target of the hooked attempt (its retransmissions are hooked as well)
            self.boot = boot        # pings left unanswered after an accepted reset
            self.booting = 0
            self.cur = 1
            self.log = []  # (pdu hex, ECU session on arrival, inside _recover_stack?)
            self.pending = None
            self.in_recover = False

        @classmethod
        async def connect(cls, target, timeout=None):
            raise ConnectionError("graph transport cannot be re-created")

        async def reconnect(self, timeout=None):
            return self

        async def close(self):
            self.is_closed = True

        def _answer(self, sid, a):
            if a == "p":
                return "pos"
            if a == "s":
                return None
            return bytes([0x7F, sid, int(a[1:])])

        async def write(self, data, timeout=None, tags=None):
            if len(self.log) >= REQ_CAP:
                raise TooManyRequests()
            self.log.append((data.hex(), self.cur, self.in_recover))
            sid = data[0]
            if bytes(data) in self.pre or bytes(data) in self.post:
                if bytes(data) in self.pre:
                    self.hooked, self.hooked_for = True, None
                r = bytes([0x7F, sid, 0x11])
            elif sid == 0x10 and len(data) == 2:
                if self.hooked and self.hooked_for not in (None, data[1] & 0x7F):
                    self.hooked = False
                if self.hooked:
                    self.hooked_for = data[1] & 0x7F
                edges = self.edges_h if (self.hooked and self.pre) else self.edges
                a = edges.get((self.cur, data[1] & 0x7F), "n18")
                if a[0] == "i":     # a reply the client refuses; `i1.`: the ECU has switched session nevertheless
                    r = refused_reply(a[2], bytes(data))
                    if a[1] == "1":
                        self.cur = data[1] & 0x7F
                else:
                    r = self._answer(sid, a)
                if r is not None and not (isinstance(r, bytes) and len(r) == 3 and r[0] == 0x7F and r[2] == 0x21):
                    self.hooked = False   # an unanswered / busy hooked attempt is retransmitted under the same conditions
                if r == "pos":
                    self.cur = data[1] & 0x7F
                    r = dsc_pos(data[1], self.rec)
                if data[1] & 0x80 and r is not None and r[0] == 0x50:
                    r = None
            elif sid == 0x11 and len(data) == 2:
                self.hooked = False
                if self.rst[0] == "i":
                    r = refused_reply(self.rst[2], bytes(data))
                    if self.rst[1] == "1":
                        self.cur = 1
                else:
                    r = self._answer(sid, self.rst)
                if r == "pos":
                    self.cur = 1
                    self.booting = self.boot
                    r = bytes([0x51, data[1]])
            elif sid == 0x3E:
                if self.booting > 0:
                    self.booting -= 1
                    r = None
                else:
                    r = bytes([0x7E, 0x00])
            else:
                r = bytes([0x7F, sid, 0x11])
            self.pending = r
            return len(data)

        async def read(self, timeout=None, tags=None):
            if self.pending is None:
                await asyncio.sleep(timeout if timeout is not None else 3600.0)
                raise asyncio.TimeoutError()
            r, self.pending = self.pending, None
            return r

    class StatefulTransport(GraphTransport, scheme="stateful"):
        """stateful ECU families of Model/SessionScanS.lean: S3 timer (virtual time / request count), security-locked edges,
        wrapped into ResponsePending frames and a script of sporadic faults (nothing / busyRepeatRequest)"""

        def __init__(self, target, case):
            super().__init__(target, parse_edges(case), case["rst"], rec=case.get("rec"))
            self.fam = case["fam"]
            self.dl = list(case.get("dl", ()))
            self.s3ms = case.get("s3ms", 0)
            self.s3n = case.get("s3n", 0)
            self.lk = {tuple(e) for e in case.get("lk", ())}
            self.pn = case.get("pn", 0)
            self.faults = list(case.get("fl", ()))
            self.count = 0
            self.unlocked = False
            self.last = None       # virtual time at which the previous request was handled
            self.queue = []

        def _app(self, data, idle_ms):
            """the application layer -> 'pos' / None / NRC number"""
            sid = data[0]
            is_ping = sid == 0x3E
            if self.fam == "s3":
                expired = self.cur != 1 and ((self.s3ms != 0 and idle_ms > self.s3ms) or
                                             (self.s3n != 0 and not is_ping and self.count >= self.s3n))
                if expired:
                    self.cur, self.count = 1, 0
            if sid == 0x10 and len(data) == 2:
                u = data[1] & 0x7F
                if self.fam == "locked" and (self.cur, u) in self.lk and not self.unlocked:
                    return 0x33
                a = self.edges.get((self.cur, u), "n18")
                if a == "p":
                    self.cur, self.count = u, 0
                    return "pos"
                if a[0] == "i":
                    if a[1] == "1":
                        self.cur, self.count = u, 0
                    else:
                        self.count += 1
                    return refused_reply(a[2], bytes(data))
                self.count += 1
                return None if a == "s" else int(a[1:])
            if sid == 0x11 and len(data) == 2:
                if self.rst == "p":
                    self.cur, self.count, self.unlocked = 1, 0, False
                    return "pos"
                if self.rst[0] == "i":
                    if self.rst[1] == "1":
                        self.cur, self.count, self.unlocked = 1, 0, False
                    else:
                        self.count += 1
                    return refused_reply(self.rst[2], bytes(data))
                self.count += 1
                return None if self.rst == "s" else int(self.rst[1:])
            if is_ping:
                self.count = 0
                return "pos"
            self.count += 1
            return 0x11

        async def write(self, data, timeout=None, tags=None):
            if len(self.log) >= REQ_CAP:
                raise TooManyRequests()
            now = asyncio.get_event_loop().time()
            self.log.append((data.hex(), self.cur, self.in_recover))
            sid = data[0]
            self.queue = []
            idle_ms = 0 if self.last is None else int(round((now - self.last) * 1000))
            self.last = now
            if self.faults:
                f = self.faults.pop(0)
                if f == "s":
                    return len(data)
                if f == "b":
                    self.queue = [bytes([0x7F, sid, 0x21])]
                    return len(data)
                if f in ("i", "g") and sid != 0x3E:
                    # i: a refused reply instead of handling the request; g: the request is handled, the reply is garbled
                    if f == "g":
                        self._app(data, idle_ms)
                    self.queue = [refused_reply(REFUSED_KINDS[len(self.log) % len(REFUSED_KINDS)], bytes(data))]
                    return len(data)
            code = data[1] & 0x7F if sid == 0x10 else data[1] if sid == 0x11 else 0 if sid == 0x3E else (data[0] << 8 | data[1])
            npend = (self.cur + code) % (self.pn + 1)
            gap = gap_ms(self.dl, self.cur, code) if (npend and sid == 0x10 and len(data) == 2) else 0
            r = self._app(data, idle_ms)
            self.queue = [bytes([0x7F, sid, 0x78])] * npend
            if r == "pos":
                fin = (dsc_pos(data[1], self.rec) if sid == 0x10 else
                       bytes([0x51, data[1]]) if sid == 0x11 else bytes([0x7E, 0x00]))
                # a session change that takes its time: the switch is announced with ResponsePending, the positive reply
                # follows `gap` ms after the last pending frame
                self.queue.append((now + gap / 1000.0, fin) if gap else fin)
            elif isinstance(r, bytes):
                self.queue.append(r)
            elif r is not None:
                self.queue.append(bytes([0x7F, sid, r]))
            return len(data)

        async def read(self, timeout=None, tags=None):
            if not self.queue:
                await asyncio.sleep(timeout if timeout is not None else 3600.0)
                raise asyncio.TimeoutError()
            if isinstance(self.queue[0], tuple):
                wait = self.queue[0][0] - asyncio.get_event_loop().time()
                if timeout is not None and wait > timeout:
                    await asyncio.sleep(timeout)
                    raise asyncio.TimeoutError()
                if wait > 0:
                    await asyncio.sleep(wait)
                return self.queue.pop(0)[1]
            return self.queue.pop(0)

    class VecuTransport(GraphTransport, scheme="vecu"):
        """gallia's own virtual ECU (RandomUDSServer behind UDSServerTransport.handle_request) as the ECU"""

        def __init__(self, target, server):
            super().__init__(target, {}, "p")
            from gallia.services.uds.server import UDSServerTransport

            self.server = server
            self.st = UDSServerTransport(server, target)

        async def write(self, data, timeout=None, tags=None):
            if len(self.log) >= REQ_CAP:
                raise TooManyRequests()
            self.log.append((data.hex(), int(self.server.state.session), self.in_recover))
            r, _ = await self.st.handle_request(data)
            self.pending = r
            self.cur = int(self.server.state.session)
            return len(data)

    class HookedECU(ECU):
        """an OEM ECU class whose session hooks send requests (reply ignored)"""
        pre_pdus = ()
        post_pdus = ()

        async def set_session_pre(self, level, config=None):
            for p in self.pre_pdus:
                await self.send_raw(p)
            return True

        async def set_session_post(self, level, config=None):
            for p in self.post_pdus:
                await self.send_raw(p)
            return True

    class DBStub:
        def __init__(self):
            self.rows = []

        async def insert_session_transition(self, destination, steps):
            self.rows.append((int(destination), [int(x) for x in steps]))

    from gallia.db.handler import DBHandler

    class RecDB(DBHandler):
        """the real DBHandler on a real sqlite file, remembering the session_transition rows this run writes"""

        def __init__(self, path):
            super().__init__(path)
            self.rows = []
            self.lookups = 0

        async def insert_session_transition(self, destination, steps):
            self.rows.append((int(destination), [int(x) for x in steps]))
            await super().insert_session_transition(destination, steps)

        async def get_session_transition(self, destination):
            self.lookups += 1
            return await super().get_session_transition(destination)

    _impl.update(SessionsScanner=SessionsScanner, SessionsScannerConfig=SessionsScannerConfig, ECU=ECU, HookedECU=HookedECU,
                 GraphTransport=GraphTransport, VecuTransport=VecuTransport, StatefulTransport=StatefulTransport, TargetURI=TargetURI, DBStub=DBStub, RecDB=RecDB)
    return _impl


def make_vecu(seed, p_session):
    from gallia.services.uds.server import RandomUDSServer

    srv = RandomUDSServer(seed, RandomUDSServer.RandomnessParameters(p_session=p_session))
    srv.randomize()
    return srv


def vecu_graph(seed, p_session):
    """the vECU's session graph, read off by asking the server `10 u` in every session it has"""
    _load_impl()
    from gallia.services.uds.core import service

    srv = make_vecu(seed, p_session)

    async def probe():
        g = {}
        for p in sorted(srv.services):
            for u in range(1, 0x80):
                srv.state.reset()
                srv.state.session = p
                r = await srv.respond(service.DiagnosticSessionControlRequest(u))
                if r is None:
                    g[(p, u)] = "s"
                elif isinstance(r, service.NegativeResponse):
                    if int(r.response_code) != 0x12:
                        g[(p, u)] = f"n{int(r.response_code)}"
                else:
                    g[(p, u)] = "p"
        return g

    g, _ = vrun(probe())
    return g


def parse_edges(case):
    return {(int(k.split(">")[0]), int(k.split(">")[1])): v for k, v in case["g"].items()}


class _MetaCfg:
    def model_dump_json(self):
        return "{}"


DB_TARGET = "graph://ecu"


def run_impl(case, dbfile=None):
    """run the real scanner on one case -> canonical observation.
    `case["db_history"]` (a list of cases): the scan runs with a real database (sqlite file) into which the scans of the
    history have been run before, against the same target - as a user does who scans the same ECU a second time."""
    m = _load_impl()
    if case.get("db_history") is not None and dbfile is None:
        patch_aiosqlite()
        td = tempfile.mkdtemp(prefix="verif-c09-", dir="/var/tmp")
        try:
            path = td + "/scan.sqlite"
            before = []
            for h in case["db_history"]:
                o = run_impl({k: v for k, v in h.items() if k != "db_history"}, dbfile=path)
                before += [(o.get("run_id"), d, st) for d, st in (o.get("stored") or [])]
            out = run_impl(case, dbfile=path)
            out["stored_before"] = before
            return out
        finally:
            shutil.rmtree(td, ignore_errors=True)
    cfg = m["SessionsScannerConfig"].model_construct(
        depth=case["depth"], sleep=0, skip=list(case["skip"]), with_hooks=bool(case["hooks"]),
        reset=case["reset"], thorough=bool(case["thorough"]), timeout=2.0 + case.get("boot", 0), db=None)
    sc = m["SessionsScanner"].__new__(m["SessionsScanner"])
    sc.config = cfg
    sc.result = []
    sc.db_handler = m["DBStub"]() if dbfile is None else m["RecDB"](Path(dbfile))
    if "fam" in case:
        tr = m["StatefulTransport"](m["TargetURI"]("stateful://ecu"), case)
    elif "vecu" in case:
        tr = m["VecuTransport"](m["TargetURI"]("vecu://ecu"), make_vecu(*case["vecu"]))
    else:
        gh = None if case.get("gh") is None else {(int(k.split(">")[0]), int(k.split(">")[1])): v for k, v in case["gh"].items()}
        tr = m["GraphTransport"](m["TargetURI"](DB_TARGET), parse_edges(case), case["rst"], gh,
                                 case.get("pre", ()), case.get("post", ()), case.get("boot", 0), case.get("rec"))
    if case.get("start") and "vecu" not in case:
        tr.cur = case["start"]   # the ECU was left in another session (by an earlier scan, another tester); the client assumes 0x01
    if case.get("pre") or case.get("post"):
        sc.ecu = m["HookedECU"](tr, timeout=2.0, max_retry=case["max_retry"])
        sc.ecu.pre_pdus = [bytes([x >> 8, x & 0xFF]) for x in case.get("pre", ())]
        sc.ecu.post_pdus = [bytes([x >> 8, x & 0xFF]) for x in case.get("post", ())]
    else:
        sc.ecu = m["ECU"](tr, timeout=2.0, max_retry=case["max_retry"])
    orig_recover = sc._recover_stack

    async def recover(stack, use_hooks):
        tr.in_recover = True
        try:
            return await orig_recover(stack, use_hooks)
        finally:
            tr.in_recover = False

    sc._recover_stack = recover

    async def runner():
        db = sc.db_handler
        if dbfile is not None:
            # what UDSScanner.setup does with --db: connect, one run_meta / scan_run row for this target, the ECU object
            # shares the handler (the exchange log itself is C11's subject and switched off here)
            await db.connect()
            await db.insert_run_meta("verif-c09", _MetaCfg(), datetime.now(UTC).astimezone(), None)
            await db.insert_scan_run(DB_TARGET)
            nonlocal run_id
            run_id = db.scan_run
            sc.ecu.db_handler = db
            sc.ecu.implicit_logging = False
        try:
            try:
                await sc.main()
                return "0"
            except SystemExit as e:
                return str(e.code)
        finally:
            if dbfile is not None:
                await db.disconnect()

    status = "0"
    run_id = None
    try:
        status, _ = vrun(runner())
    except Stall as e:
        status = "stall"
    except TooManyRequests:
        status = "cap"
    except Exception as e:  # anything the scanner lets escape
        from gallia.services.uds.core.exception import IllegalResponse
        status = "exc:" + ("IllegalResponse" if isinstance(e, IllegalResponse) else type(e).__name__)
    pos_rows = [r for r in sc.db_handler.rows]
    return {
        "exit": status,
        "result": [int(x) for x in sc.result],
        "rows": pos_rows,
        # a scan that begins with a reset / the stack recovery `10 01` puts the ECU into the default session wherever it was left: the
        # session on arrival of those first requests (reset, pings, `10 01` of the recovery) is the only place where the ECU's start
        # session may show; a probe that arrives while the ECU is still there is shown as it is
        "reqs": _reqs_view(tr.log, case.get("start")),
        "recover_flags": [bool(r) for _, _, r in tr.log],
        "client_session": int(sc.ecu.state.session),
        "ecu_session": tr.cur,
        "db_lookups": getattr(sc.db_handler, "lookups", 0),
        **({} if dbfile is None else stored_view(dbfile, run_id)),
    }


def stored_view(dbfile, run_id):
    """what the database file holds once the scan has disconnected: the `session_transition` rows of THIS scan run in the
    order they were inserted, and the number of rows of the other runs (an earlier run's rows must not change)"""
    import json
    import sqlite3

    if run_id is None:
        return {"stored": None, "stored_others": None}
    con = sqlite3.connect(dbfile)
    try:
        mine = [(int(d), [int(x) for x in json.loads(st)]) for d, st in
                con.execute("SELECT destination, steps FROM session_transition WHERE run = ? ORDER BY rowid", (run_id,))]
        others = [(int(r), int(d), [int(x) for x in json.loads(st)]) for r, d, st in
                  con.execute("SELECT run, destination, steps FROM session_transition WHERE run != ? ORDER BY rowid", (run_id,))]
    finally:
        con.close()
    return {"stored": mine, "stored_others": others, "run_id": int(run_id)}


def _reqs_view(log, start):
    out = []
    settling = bool(start)
    for p, c, r in log:
        if settling and c == start and (p[:2] == "11" or p == "3e00" or (p == "1001" and r)):
            out.append(f"{p}@1")
            continue
        settling = False
        out.append(f"{p}@{c}")
    return out


def _worker(cases):
    return [run_impl(c) for c in cases]


def run_impl_many(cases, procs):
    if procs <= 1 or len(cases) < 64:
        return [run_impl(c) for c in cases]
    chunks = [cases[i::procs] for i in range(procs)]
    with mp.get_context("fork").Pool(procs) as pool:
        parts = pool.map(_worker, chunks)
    out = [None] * len(cases)
    for i, part in enumerate(parts):
        out[i::procs] = part
    return out


# ------------------------------------------------------------------------------------------------------------
# the model side
# ------------------------------------------------------------------------------------------------------------
def _csv(xs):
    return ",".join(str(x) for x in xs) if xs else "-"


def _edges_str(case, field="g"):
    return ",".join(f"{k}:{v}" for k, v in sorted(case[field].items(), key=lambda kv: tuple(map(int, kv[0].split(">"))))) or "-"


def _hook_fields(case):
    """the part of a driver line that describes the ECU class' hooks, the hooked graph and the boot phase"""
    out = ""
    if case.get("gh") is not None:
        out += f" gh={_edges_str(case, 'gh')}"
    if case.get("pre"):
        out += f" hp={_csv(case['pre'])}"
    if case.get("post"):
        out += f" hq={_csv(case['post'])}"
    if case.get("boot"):
        out += f" boot={case['boot']}"
    if case.get("rec"):
        out += f" rec={_csv(case['rec'])}"   # length of the sessionParameterRecord: not part of the model (Ans.pos has no content)
    return out


def scan_line(case):
    return (f"scan d={case['depth']} skip={_csv(case['skip'])} th={int(case['thorough'])} "
            f"rs={case['reset'] if case['reset'] is not None else '-'} hk={int(case['hooks'])} mr={case['max_retry']} "
            f"rst={case['rst']} g={_edges_str(case)}" + _hook_fields(case))


def scans_line(case):
    """the same case for the stateful model `scanS` (Model/SessionScanS.lean)"""
    out = "scans" + scan_line(case)[4:] + f" fam={case.get('fam', 'graph')} pb={case.get('boot', 0) + 2}"
    if case.get("s3ms"):
        out += f" s3ms={case['s3ms']}"
    if case.get("s3n"):
        out += f" s3n={case['s3n']}"
    if case.get("lk"):
        out += " lk=" + ",".join(f"{a}>{b}" for a, b in case["lk"])
    if case.get("pn"):
        out += f" pn={case['pn']}"
    if case.get("fl"):
        out += " fl=" + ",".join(case["fl"])
    if case.get("dl"):
        out += f" dl={_csv(case['dl'])}"
    return out


def eff_case(case):
    """the graph a tester that never unlocks the ECU sees (locked edges answer securityAccessDenied)"""
    if not case.get("lk"):
        return case
    g = dict(case["g"])
    for a, b in case["lk"]:
        g[f"{a}>{b}"] = "n51"
    return {**case, "g": g}


def spec_line(case, impl):
    # the positive rows are the first len(result) rows the scanner wrote
    rep = ";".join(f"{s}@{'.'.join(map(str, st))}" for s, st in impl["rows"][: len(impl["result"])]) or "-"
    return f"spec d={case['depth']} skip={_csv(case['skip'])} hk={int(case['hooks'])} g={_edges_str(case)}{_hook_fields(case)} rep={rep}"


def stored_as_report(impl):
    first = {}
    for d, st in impl["stored"]:
        first.setdefault(d, st)
    rows = [(s, first[s]) for s in impl["result"] if s in first]
    return {"rows": rows, "result": [s for s, _ in rows]}


def parse_model(line):
    kv = dict(w.split("=", 1) for w in line.split(" ") if "=" in w)

    def rows(s, n):
        if s == "-":
            return []
        out = []
        for e in s.split(";"):
            f = e.split("@")
            out.append((int(f[0]), [int(x) for x in f[1].split(".")] if f[1] != "-" else []))
        return out

    return {
        "exit": "exc:IllegalResponse" if kv.get("end") == "2" else kv["exit"],
        "result": [int(x) for x in kv["result"].split(",")] if kv["result"] != "-" else [],
        "rows": rows(kv["trans"], 2) + rows(kv["neg"], 3),
        "reqs": kv["reqs"].split(",") if kv["reqs"] else [],
        "cur": int(kv["cur"]),
        "client": int(kv.get("client", kv["cur"])),
        "track": kv["track"],
    }


def parse_spec(line):
    kv = dict(w.split("=", 1) for w in line.split(" ") if "=" in w)
    return {"reach": [int(x) for x in kv["reach"].split(",")] if kv["reach"] != "-" else [],
            "ident": [int(x) for x in kv["ident"].split(",")] if kv["ident"] != "-" else [],
            "bad": [] if kv["bad"] == "-" else kv["bad"].split(";")}


def has_refused(case):
    """the case contains a reply the client refuses.  ECU.update_state is applied to the content of a refused reply as well
    (`62 f1 86 03` makes the client believe session 3, `50 07 ..` session 7): the client-side session after such a reply is
    not modelled and not compared"""
    return (any(v[0] == "i" for v in case["g"].values()) or any(v[0] == "i" for v in (case.get("gh") or {}).values())
            or case["rst"][0] == "i" or any(f in ("i", "g") for f in case.get("fl", ())))


def in_class(case):
    """every session the graph mentions (and the default session) can re-enter the default session"""
    e = case["g"]
    nodes = {1}
    for k in list(e) + list(case.get("gh") or {}):
        a, b = k.split(">")
        nodes.add(int(a))
        nodes.add(int(b))
    return all(e.get(f"{n}>1") == "p" for n in nodes)


def judge_stored(case, impl, spec):
    """scans with a database: the `session_transition` rows of THIS scan run, read back from the sqlite file after the scan
    has disconnected, must give for every session the run reported a sequence of session changes that really leads there
    (the property, observed at the stored rows); they must be the rows the scanner handed to the handler, and the rows
    of earlier runs must be left alone (the tie: Model/SessionDb.lean `insertTransition` appends)"""
    out = []
    if impl.get("stored") is None:
        if "stored" in impl:
            out.append(("tie:stored-rows:no-run", "the scan run was not created in the database", False))
        return out
    n_hist = len(case.get("db_history") or ())
    hist = "fresh database" if not n_hist else f"database filled by {n_hist} earlier scan(s) of the same target"
    if impl["exit"] == "0":
        missing = [s for s in impl["result"] if not any(d == s for d, _ in impl["stored"])]
        if missing:
            out.append(("stored-rows:missing",
                        f"the scan ({hist}) reported {impl['result']} but the session_transition rows of its run "
                        f"{impl['stored']} have no sequence for {missing}", True))
        if spec.get("stored_bad"):
            out.append(("stored-rows:invalid", f"stored sequences of the run ({hist}) that do not lead to their session: "
                                               f"{spec['stored_bad']}", True))
    elif impl["stored"] and impl["exit"] == "1":
        out.append(("stored-rows:after-exit-1", f"exit 1 but the run stored {impl['stored']}", True))
    if impl["stored"] != impl["rows"]:
        out.append(("tie:stored-rows", f"rows of the run in the database {impl['stored']}, rows handed to the handler "
                                       f"{impl['rows']} ({hist})", False))
    if "stored_before" in impl and impl["stored_others"] != impl["stored_before"]:
        out.append(("tie:stored-rows:earlier-runs-changed", f"rows of earlier runs before the scan {impl['stored_before']}, "
                                                            f"afterwards {impl['stored_others']}", False))
    if model_rows := spec.get("model_stored"):
        # (the run ids themselves are not compared: the model's `nextRun` looks at the session_transition rows only, sqlite's
        # scan_run key also counts runs that stored nothing; both are fresh, which is all the theorem needs)
        if model_rows["mine"] != impl["stored"] or model_rows["others"] != len(impl["stored_others"]):
            out.append(("tie:stored-rows:model", f"database model: run {model_rows['run']}, rows of the run {model_rows['mine']}, {model_rows['others']} rows "
                                                 f"of other runs; sqlite file: run {impl['run_id']}, {impl['stored']}, {len(impl['stored_others'])}", False))
    return out


def judge(case, impl, model, spec):
    """-> list of (cls, what, spec_violated)"""
    if "fam" in case:
        return judge_s(case, impl, model, spec)
    out = judge_stored(case, impl, spec)
    skip = set(case["skip"])
    if model.get("twin"):
        out.append(("tie:scanS-vs-scan", f"the stateful model over the graph oracle differs from the graph model: {model['twin']}", False))
    # --- the property's own statement on the implementation's behaviour ---------------------------------
    if impl["exit"] in ("stall", "cap"):
        out.append(("no-termination", f"the scan does not terminate ({impl['exit']})", True))
        return out
    for (pdu, flag) in zip(impl["reqs"], impl["recover_flags"]):
        p = pdu.split("@")[0]
        if p.startswith("10") and (int(p[2:4], 16) & 0x7F) in skip:
            s = int(p[2:4], 16) & 0x7F
            where = "stack-recovery" if flag else "probe"
            which = "default-session" if s == 1 else "non-default-session"
            out.append((f"skipped-session-requested:{which}:{where}",
                        f"session {s:#04x} is in --skip but `{p}` was sent during {where}", True))
            break
    if impl["exit"] == "0":
        if impl["result"] != spec["reach"]:
            missing = sorted(set(spec["reach"]) - set(impl["result"]))
            extra = sorted(set(impl["result"]) - set(spec["reach"]))
            cls = "reported-set:" + ("missing" if missing else "") + ("extra" if extra else "") + \
                  ("" if missing or extra else "order")
            out.append((cls, f"reported {impl['result']} but reachable within depth {case['depth']} is "
                             f"{spec['reach']} (missing {missing}, extra {extra})", True))
        if spec["bad"]:
            out.append(("reported-stack-invalid", f"reported stacks that do not lead there: {spec['bad']}", True))
        ident = [s for s, _ in impl["rows"][len(impl["result"]):]]
        if ident != spec["ident"]:
            out.append(("identified-set", f"sessions reported as identified-but-not-entered {ident}, by the NRC rule "
                                          f"(NRC other than 0x12 / 0x7e from a session entered within depth-1) {spec['ident']}", True))
    elif impl["exit"] == "1":
        if in_class(case):
            out.append(("exit-1-in-class", "scan gave up (exit 1) although every session can re-enter the default session", True))
        if impl["result"]:
            out.append(("exit-1-with-report", f"exit 1 but reported {impl['result']}", True))
    elif impl["exit"] == "exc:IllegalResponse" and case["reset"] and case["rst"][0] == "i":
        # the ECU answers the ECUReset of --reset with a reply the client refuses: outside the property's ECU class; the
        # exception leaves main (modelled: `crashed`), nothing may be reported
        if impl["result"] or impl["rows"]:
            out.append(("refused-reset-with-report", f"the scan ended with {impl['exit']} but reported {impl['result']} / wrote {impl['rows']}", True))
    else:
        out.append(("escaped:" + impl["exit"], f"the scan ended with {impl['exit']}", in_class(case)))
    # --- the tie: model vs implementation ------------------------------------------------------------------
    if model["track"] != "1":
        out.append(("model-state-tracking", "model probes outside the stack top", False))
    if impl.get("db_lookups"):
        out.append(("tie:db-consulted", f"the scan looked up stored session transitions {impl['db_lookups']} times; the model's "
                                        "set_session calls carry use_db=False", False))
    for f, mf in (("exit", "exit"), ("result", "result"), ("rows", "rows"), ("reqs", "reqs"), ("ecu_session", "cur"), ("client_session", "client")):
        if f == "client_session" and has_refused(case):
            continue
        if impl[f] != model[mf]:
            if f == "reqs":
                i = next((k for k, (a, b) in enumerate(zip(impl[f], model[mf])) if a != b), min(len(impl[f]), len(model[mf])))
                what = (f"request sequence differs at #{i}: impl={impl[f][i] if i < len(impl[f]) else 'end'} "
                        f"model={model[mf][i] if i < len(model[mf]) else 'end'} (impl {len(impl[f])} requests, model {len(model[mf])})")
            else:
                what = f"{f}: impl={impl[f]} model={model[mf]}"
            out.append(("tie:" + f, what, False))
            break
    return out


def fault_runs_bounded(case):
    """no request meets more than max_retry faults in a row (then its last transmission is handled)"""
    if any(f in ("i", "g") for f in case.get("fl", ())) or any(v[0] == "i" for v in case["g"].values()) or case["rst"][0] == "i":
        return False    # refused replies: a stack recovery that meets one ends the scan; only soundness is claimed
    run = 0
    for f in case.get("fl", ()):
        run = run + 1 if f in ("s", "b") else 0
        if run > case["max_retry"]:
            return False
    return True


def closure(case):
    e = parse_edges(case)
    seen, todo = {1}, [1]
    while todo:
        a = todo.pop()
        for (x, b), v in e.items():
            if x == a and v == "p" and b not in seen:
                seen.add(b)
                todo.append(b)
    return seen


def request_bound(case):
    """`scanBound c depth 1 1` of requests_bounded (Proofs/C09.lean): sum over levels j of 127^(j-1) stacks * 127 probes *
    perProbe c j"""
    n_hook = len(case.get("pre", ())) + len(case.get("post", ()))
    mr = case["max_retry"] + 1
    pb = case.get("boot", 0) + 2
    return sum(127 ** (j - 1) * 127 * ((mr + pb) + (j + 1) * (mr * (2 + n_hook))) for j in range(1, case["depth"] + 1))


def judge_s(case, impl, model, spec):
    """stateful ECU families -> list of (cls, what, spec_violated)"""
    out = judge_stored(case, impl, spec)
    skip = set(case["skip"])
    fam = case["fam"]
    if impl["exit"] in ("stall", "cap"):
        return [("no-termination", f"the scan does not terminate ({impl['exit']})", True)]
    hookp = {f"{x:04x}" for x in list(case.get("pre", ())) + list(case.get("post", ()))}
    for (pdu, flag) in zip(impl["reqs"], impl["recover_flags"]):
        p = pdu.split("@")[0]
        if p.startswith("10") and len(p) == 4:
            t = int(p[2:4], 16)
            if t in skip and not (t == 1 and flag):
                out.append(("skipped-session-requested:non-default-session:" + ("stack-recovery" if flag else "probe"),
                            f"session {t:#04x} is in --skip but `{p}` was sent", True))
                break
            if not 1 <= t <= 0x7F:
                out.append(("foreign-request", f"`{p}` is not a session change to 1..0x7f", False))
                break
        elif not ((p[:2] == "11" and case["reset"] and int(p[2:4], 16) == case["reset"]) or (p == "3e00" and case["reset"])
                  or (p in hookp and case["hooks"])):
            out.append(("foreign-request", f"`{p}` on the wire: not a session change, and no reset / ping / hook request "
                                           "that the options ask for", False))
            break
    if len(impl["reqs"]) > request_bound(case):
        out.append(("request-bound", f"{len(impl['reqs'])} requests, proved bound {request_bound(case)}", False))
    if impl["exit"] == "0":
        if fam in ("graph", "locked") and fault_runs_bounded(case):
            # exactly the sessions reachable (without unlocking), whatever the pending frames and the sporadic faults
            if impl["result"] != spec["reach"]:
                missing = sorted(set(spec["reach"]) - set(impl["result"]))
                extra = sorted(set(impl["result"]) - set(spec["reach"]))
                out.append((f"reported-set:{fam}:" + ("missing" if missing else "") + ("extra" if extra else "") +
                            ("" if missing or extra else "order"),
                            f"reported {impl['result']} but reachable within depth {case['depth']} "
                            f"{'without unlocking ' if fam == 'locked' else ''}is {spec['reach']} although no request met more "
                            f"than max_retry={case['max_retry']} faults", True))
            if spec["bad"]:
                out.append(("reported-stack-invalid", f"reported stacks that do not lead there: {spec['bad']}", True))
        else:
            extra = sorted(set(impl["result"]) - closure(case))
            if extra:
                out.append(("reported-set:unreachable", f"reported {extra}: no sequence of session changes leads there", True))
    elif impl["exit"] == "1":
        if fam in ("graph", "locked") and fault_runs_bounded(case) and in_class(eff_case(case)):
            out.append(("exit-1-in-class", "scan gave up (exit 1) although every session can re-enter the default session "
                                           "and no request met more than max_retry faults", True))
        if impl["result"]:
            out.append(("exit-1-with-report", f"exit 1 but reported {impl['result']}", True))
    elif impl["exit"] == "exc:IllegalResponse" and case["reset"] and has_refused(case):
        # a refused reply to the ECUReset of --reset leaves main (modelled: `crashed`; the exit is compared below)
        if impl["result"] or impl["rows"]:
            out.append(("refused-reset-with-report", f"the scan ended with {impl['exit']} but reported {impl['result']}", True))
    else:
        out.append(("escaped:" + impl["exit"], f"the scan ended with {impl['exit']}", False))
    if model["track"] != "1" and fam != "s3":
        out.append(("model-state-tracking", "model probes outside the stack top", False))
    for f, mf in (("exit", "exit"), ("result", "result"), ("rows", "rows"), ("reqs", "reqs"), ("ecu_session", "cur"),
                  ("client_session", "client")):
        if f == "client_session" and has_refused(case):
            continue
        if impl[f] != model[mf]:
            if f == "reqs":
                i = next((k for k, (a, b) in enumerate(zip(impl[f], model[mf])) if a != b), min(len(impl[f]), len(model[mf])))
                what = (f"request sequence differs at #{i}: impl={impl[f][i] if i < len(impl[f]) else 'end'} "
                        f"model={model[mf][i] if i < len(model[mf]) else 'end'} (impl {len(impl[f])} requests, model {len(model[mf])})")
            else:
                what = f"{f}: impl={impl[f]} model={model[mf]}"
            out.append((f"tie:{fam}:" + f, what, False))
            break
    return out


# ------------------------------------------------------------------------------------------------------------
# generation
# ------------------------------------------------------------------------------------------------------------
def rand_case_s(rng):
    """a stateful ECU family on top of a random session graph -> (case, label)"""
    shape = rng.choice(["density", "chain", "chain", "cycle", "deep-only", "deep-only"])
    g, ids = rand_graph(rng, shape)
    g = decorate(rng, g, ids, rng.random() < 0.9)
    kind = rng.choice(["s3-count", "s3-time", "s3-both", "locked", "locked", "pending", "faults", "faults", "pending+faults",
                       "locked+faults", "s3+faults", "refused-faults", "refused-faults", "refused-edges+faults"])
    reset = rng.choice([None, None, None, None, 1, 3])
    pre, post = (), ()
    hooks = rng.random() < 0.3
    if hooks and rng.random() < 0.7:
        reqs = rng.sample(HOOK_REQS, rng.randint(1, 2))
        cut = rng.randint(0, len(reqs))
        pre, post = reqs[:cut], reqs[cut:]
        for _ in range(rng.randint(1, 3)):   # something for the hooked attempt to be tried on
            g[(rng.choice(ids), rng.choice(ids[1:]))] = "n34"
    sk = rng.random()
    skip = [] if sk < 0.6 else rng.sample(ids[1:], min(len(ids) - 1, rng.randint(1, 2))) + rng.sample(range(2, 0x80), rng.randint(0, 2))
    case = mk_case(g, rng.choice([1, 2, 3, 3, 4]), skip, thorough=rng.random() < 0.25, reset=reset, hooks=hooks,
                   max_retry=rng.choice([0, 1, 2]), rst=rng.choice(["p", "p", "p", "n34", "s"]), pre=pre, post=post)
    case["fam"] = "s3" if kind.startswith("s3") else "locked" if kind.startswith("locked") else "graph"
    if kind in ("s3-count", "s3-both", "s3+faults"):
        case["s3n"] = rng.choice([1, 2, 3, 5, 8, 13, 40, 130, 300])
    if kind in ("s3-time", "s3-both"):
        case["s3ms"] = rng.choice([300, 700, 2100, 2300, 4500, 19000])
        for _ in range(rng.randint(1, 4)):   # time only passes on unanswered requests, back-off and pings
            a, b = rng.choice(ids), rng.choice(ids + [rng.randint(2, 0x7F)])
            if case["g"].get(f"{a}>{b}") != "p":
                case["g"][f"{a}>{b}"] = rng.choice(["s", "s", "n33"])
    if case["fam"] == "locked":
        pos = [tuple(map(int, k.split(">"))) for k, v in case["g"].items() if v == "p" and not k.endswith(">1")]
        case["lk"] = sorted(rng.sample(pos, min(len(pos), rng.randint(1, 3))))
    if "pending" in kind or rng.random() < 0.15:
        case["pn"] = rng.choice([1, 2, 3, 5])
    if kind == "refused-edges+faults":
        for _ in range(rng.randint(1, 3)):
            a, b = rng.choice(ids), rng.choice(ids[1:] + [rng.randint(2, 0x7F)])
            if case["g"].get(f"{a}>{b}") != "p" or rng.random() < 0.3:
                case["g"][f"{a}>{b}"] = refused_val(rng)
        if reset and rng.random() < 0.2:
            case["rst"] = refused_val(rng)
    if "faults" in kind:
        n = rng.choice([3, 10, 40, 150, 400])
        p = rng.choice([0.05, 0.15, 0.3])
        alphabet = ["s", "b", "i", "g", "i", "g"] if kind.startswith("refused") else ["s", "b"]
        fl = []
        for _ in range(n):
            f = rng.choice(alphabet) if rng.random() < p else "-"
            if f in ("s", "b") and rng.random() < 0.8:   # mostly within the retry bound
                run = 0
                for x in reversed(fl):
                    if x == "-":
                        break
                    run += 1
                if run >= case["max_retry"]:
                    f = "-"
            fl.append(f)
        while fl and fl[-1] == "-":
            fl.pop()
        case["fl"] = fl
    if case["thorough"] and n_walks(case, 25) > 25:
        case["thorough"] = False
    return case, "stateful:" + kind



def n_walks(case, limit):
    """number of positive walks of length <= depth from 1 avoiding skipped targets (cost of --thorough)"""
    e = parse_edges(case)
    succ = {}
    for (a, b), v in e.items():
        if v == "p" and b not in case["skip"]:
            succ.setdefault(a, []).append(b)
    level = {1: 1}
    total = 1
    for _ in range(case["depth"]):
        nxt = {}
        for n, c in level.items():
            for b in succ.get(n, []):
                nxt[b] = nxt.get(b, 0) + c
        level = nxt
        total += sum(level.values())
        if total > limit:
            return total
    return total


def mk_case(g, depth, skip=(), thorough=False, reset=None, hooks=False, max_retry=0, rst="p", gh=None, pre=(), post=(), boot=0):
    c = {"g": {f"{a}>{b}": v for (a, b), v in g.items()}, "depth": depth, "skip": sorted(set(skip)),
         "thorough": bool(thorough), "reset": reset, "hooks": bool(hooks), "max_retry": max_retry, "rst": rst}
    if gh is not None:
        c["gh"] = {f"{a}>{b}": v for (a, b), v in gh.items()}
    if pre:
        c["pre"] = list(pre)
    if post:
        c["post"] = list(post)
    if boot:
        c["boot"] = boot
    return c


HOOK_REQS = [0x8502, 0x8501, 0x2803, 0x2800, 0x3101]


def hook_class(rng, g, ids):
    """an ECU class with session hooks and an ECU on which they matter: some edges are refused with
    conditionsNotCorrect unless the request comes right after the pre hook -> (g, gh, pre, post)"""
    reqs = rng.sample(HOOK_REQS, rng.randint(1, 3))
    cut = rng.randint(0, len(reqs)) if rng.random() < 0.7 else len(reqs)
    pre, post = reqs[:cut], reqs[cut:]
    g = dict(g)
    gh = dict(g)
    cand = [k for k, v in g.items() if v == "p" and k[1] != 1] + [(rng.choice(ids), rng.choice(ids)) for _ in range(2)]
    for k in rng.sample(cand, min(len(cand), rng.randint(1, 4))):
        if k[1] == 1:
            continue
        g[k] = "n34"                                            # conditionsNotCorrect without the hook
        gh[k] = rng.choice(["p", "p", "p", "n34", "n51", "s"])  # what the hooked attempt gets
    for k in rng.sample(list(gh), min(len(gh), rng.randint(0, 2))):
        if g[k] != "n34":
            gh[k] = rng.choice(["n34", "n18", "p"])             # differences that no hooked attempt ever sees
    return g, gh, pre, post


def rand_ids(rng, k):
    pool = [2, 3, 4, 5, 0x40, 0x41, 0x60, 0x7E, 0x7F] + [rng.randint(2, 0x7F) for _ in range(6)]
    ids = [1]
    while len(ids) < k:
        x = rng.choice(pool)
        if x not in ids:
            ids.append(x)
    return ids


def rand_graph(rng, shape):
    """-> (edges, ids, label)"""
    g = {}
    if shape == "density":
        k = rng.randint(2, 12)
        ids = rand_ids(rng, k)
        dens = rng.choice([0.02, 0.05, 0.1, 0.2, 0.3, 0.5])
        for a in ids:
            for b in ids:
                if rng.random() < dens:
                    g[(a, b)] = "p"
    elif shape == "chain":
        k = rng.randint(3, 9)
        ids = rand_ids(rng, k)
        for a, b in zip(ids, ids[1:]):
            g[(a, b)] = "p"
        if rng.random() < 0.5:  # shortcut making a deep session shallow
            g[(ids[rng.randrange(0, k - 2)], ids[-1])] = "p"
    elif shape == "cycle":
        k = rng.randint(2, 7)
        ids = rand_ids(rng, k)
        for a, b in zip(ids, ids[1:] + ids[:1]):
            g[(a, b)] = "p"
        for _ in range(rng.randint(0, 4)):
            g[(rng.choice(ids), rng.choice(ids))] = "p"
    elif shape == "islands":
        k = rng.randint(4, 10)
        ids = rand_ids(rng, k)
        cut = rng.randint(2, k - 1)
        for part in (ids[:cut], ids[cut:]):
            for a in part:
                for b in part:
                    if rng.random() < 0.35:
                        g[(a, b)] = "p"
        if rng.random() < 0.5:  # edge from the island into the mainland only
            g[(rng.choice(ids[cut:]), rng.choice(ids[:cut]))] = "p"
    else:  # "deep-only": sessions entered only from a non-default session
        k = rng.randint(3, 8)
        ids = rand_ids(rng, k)
        g[(1, ids[1])] = "p"
        for b in ids[2:]:
            g[(rng.choice([x for x in ids[1:] if x != b]), b)] = "p"
    return g, ids


def decorate(rng, g, ids, reentry):
    """default-session re-entry, NRC and silent edges"""
    if reentry:
        for a in ids:
            g[(a, 1)] = "p"
    else:
        for a in ids:
            if rng.random() < 0.6:
                g.setdefault((a, 1), "p")
    extra = ids + [rng.randint(1, 0x7F)]
    for _ in range(rng.choice([0, 0, 1, 2, 4, 8])):
        a, b = rng.choice(ids), rng.choice(extra)
        if (a, b) not in g and not (reentry and b == 1):
            g[(a, b)] = rng.choice(["s"] + [f"n{c}" for c in NRCS])
    return g


def refused_val(rng):
    return f"i{rng.choice('01')}{rng.choice(REFUSED_KINDS)}"


def add_refused(rng, case, ids):
    """some edges (probes of reachable sessions, default re-entry, hooked attempts), and sometimes the ECUReset, are
    answered with a reply the client refuses - having switched session or not"""
    g = case["g"]
    extra = ids + [rng.randint(2, 0x7F)]
    for _ in range(rng.randint(1, 4)):
        a, b = rng.choice(ids), rng.choice(extra)
        k = f"{a}>{b}"
        r = rng.random()
        if b == 1 and r < 0.8:
            continue            # mostly keep the default re-entry (otherwise the scan just exits 1)
        if g.get(k) == "p" and r < 0.5:
            continue
        g[k] = refused_val(rng)
    if case.get("gh") is not None:
        for k in [k for k, v in case["g"].items() if v == "n34"]:
            if rng.random() < 0.5:
                case["gh"][k] = refused_val(rng)
    if case["reset"] and rng.random() < 0.25:
        case["rst"] = refused_val(rng)
    return case


def rand_case_refused(rng):
    shape = rng.choice(["density", "chain", "cycle", "deep-only", "deep-only"])
    g, ids = rand_graph(rng, shape)
    g = decorate(rng, g, ids, rng.random() < 0.9)
    gh, pre, post = None, (), ()
    with_class = rng.random() < 0.35
    if with_class:
        g, gh, pre, post = hook_class(rng, g, ids)
    reset = rng.choice([None, None, 1, 3])
    skip = [] if rng.random() < 0.7 else rng.sample(ids[1:], 1)
    case = mk_case(g, rng.choice([1, 2, 3, 4]), skip, thorough=rng.random() < 0.3, reset=reset,
                   hooks=rng.random() < (0.8 if with_class else 0.25), max_retry=rng.choice([0, 0, 1, 2]),
                   rst=rng.choice(["p", "p", "p", "n34", "s"]), gh=gh, pre=pre, post=post,
                   boot=rng.choice([0, 0, 1, 2]) if reset else 0)
    add_refused(rng, case, ids)
    if case["thorough"] and n_walks(case, 30) > 30:
        case["thorough"] = False
    return case, shape + ("+hook-class" if with_class else "")


def rand_case(rng, widened=False):
    shape = rng.choice(["density", "density", "chain", "cycle", "islands", "deep-only"])
    g, ids = rand_graph(rng, shape)
    reentry = rng.random() < 0.85
    g = decorate(rng, g, ids, reentry)
    depth = rng.choice([1, 2, 3, 4, 5])
    sk = rng.random()
    if sk < 0.5:
        skip = []
    elif sk < 0.9:
        skip = rng.sample(ids[1:], min(len(ids) - 1, rng.randint(1, 3))) + rng.sample(range(2, 0x80), rng.randint(0, 3))
    else:
        skip = [1] + rng.sample(ids[1:], rng.randint(0, 1))
    gh, pre, post = None, (), ()
    with_class = rng.random() < 0.3
    if with_class:
        g, gh, pre, post = hook_class(rng, g, ids)
        shape += "+hook-class"
    reset = rng.choice([None, None, None, 1, 2, 3])
    case = mk_case(g, depth, skip, thorough=rng.random() < 0.35, reset=reset,
                   hooks=rng.random() < (0.7 if with_class else 0.25), max_retry=rng.choice([0, 0, 1, 2]),
                   rst=rng.choice(["p", "p", "p", "p", "n17", "n34", "s"]), gh=gh, pre=pre, post=post,
                   boot=rng.choice([0, 0, 1, 2, 3]) if reset else 0)
    if case["thorough"] and n_walks(case, 40) > 40:
        case["thorough"] = False
    if reentry and not with_class and len(ids) > 1 and rng.random() < 0.15 and in_class(case):
        case["start"] = rng.choice(ids[1:])   # ECU not in the default session when the scan starts
        shape += "+ecu-left-in-another-session"
        if rng.random() < 0.5 and 1 not in case["skip"]:
            case["skip"] = sorted(set(case["skip"]) | {1})
    return case, shape + ("" if reentry else "+no-reentry")


def rand_case_rec(rng):
    """positive session-change replies carry a sessionParameterRecord of varying legitimate length - one length for the
    whole ECU or one per session (graph ECU, and the stateful graph ECU behind ResponsePending frames)"""
    if rng.random() < 0.3:
        case, label = rand_case_s(rng)
        if case["fam"] == "s3":
            case["fam"] = "graph"
            case.pop("s3ms", None)
            case.pop("s3n", None)
    else:
        case, label = rand_case(rng)
    case["rec"] = [rng.choice(REC_LENS)] if rng.random() < 0.3 else [rng.choice(REC_LENS) for _ in range(rng.randint(2, 5))]
    return case, "record:" + label


def rand_case_slow(rng):
    """ECUs on which session changes take their time: `7f 10 78` at once, the positive reply `gap` ms later (0.3 .. 19.1 s,
    below the 20 s the client's pending loop tolerates), the scanner's default timeout (2 s) and max_retry"""
    shape = rng.choice(["density", "chain", "chain", "cycle", "deep-only", "deep-only", "islands"])
    g, ids = rand_graph(rng, shape)
    g = decorate(rng, g, ids, rng.random() < 0.9)
    sk = rng.random()
    skip = [] if sk < 0.7 else rng.sample(ids[1:], min(len(ids) - 1, rng.randint(1, 2)))
    case = mk_case(g, rng.choice([1, 2, 2, 3, 3, 4]), skip, thorough=rng.random() < 0.2, reset=rng.choice([None, None, None, 1]),
                   hooks=rng.random() < 0.15, max_retry=rng.choice([0, 0, 1, 3]), rst="p")
    case["fam"] = rng.choice(["graph", "graph", "locked"])
    if case["fam"] == "locked":
        pos = [tuple(map(int, k.split(">"))) for k, v in case["g"].items() if v == "p" and not k.endswith(">1")]
        case["lk"] = sorted(rng.sample(pos, min(len(pos), rng.randint(0, 2))))
    case["pn"] = rng.choice([1, 1, 2, 3])
    case["dl"] = [rng.choice(GAPS_MS + [0]) for _ in range(rng.randint(1, 4))]
    if not any(case["dl"]):
        case["dl"][0] = rng.choice(GAPS_MS)
    if rng.random() < 0.3:
        case["rec"] = [rng.choice(REC_LENS) for _ in range(rng.randint(1, 3))]
    if rng.random() < 0.2:   # sporadic lost requests / busyRepeatRequest within the retry bound on top
        fl = []
        for _ in range(rng.choice([5, 20, 60])):
            f = rng.choice(["s", "b"]) if rng.random() < 0.1 else "-"
            run = 0
            for x in reversed(fl):
                if x == "-":
                    break
                run += 1
            fl.append(f if run < case["max_retry"] else "-")
        while fl and fl[-1] == "-":
            fl.pop()
        if fl:
            case["fl"] = fl
    if case["thorough"] and n_walks(case, 25) > 25:
        case["thorough"] = False
    return case, "slow-session-change:" + shape + ":" + case["fam"]


def exhaustive_cases(ids, depth, **kw):
    pairs = [(a, b) for a in ids for b in ids]
    for bits in itertools.product([0, 1], repeat=len(pairs)):
        g = {p: "p" for p, b in zip(pairs, bits) if b}
        yield mk_case(g, depth, **kw)


# ------------------------------------------------------------------------------------------------------------
# shrinking
# ------------------------------------------------------------------------------------------------------------
def evaluate(ctx, cases, procs=1):
    impls = run_impl_many(cases, procs)
    models = [parse_model(l) for l in ctx.lean([scans_line(c) if "fam" in c else scan_line(c) for c in cases])]
    specs = [parse_spec(l) for l in ctx.lean([spec_line(eff_case(c), i) for c, i in zip(cases, impls)])]
    # scans with a database: the specification evaluated on the rows read back from the sqlite file (first row of the run per
    # reported session)
    dbk = [k for k, i in enumerate(impls) if i.get("stored") is not None]
    for k, l in zip(dbk, ctx.lean([spec_line(eff_case(cases[k]), stored_as_report(impls[k])) for k in dbk])):
        specs[k]["stored_bad"] = parse_spec(l)["bad"]
    # ... and the database model (Model/SessionDb.lean): the scans of the history and this scan run into one table, the rows
    # of the last run read back
    dbg = [k for k in dbk if "fam" not in cases[k] and "vecu" not in cases[k]]
    lines, last = [], []
    for k in dbg:
        lines.append("dbreset")
        for h in list(cases[k].get("db_history") or ()) + [cases[k]]:
            lines.append("db" + scan_line(h))
        last.append(len(lines) - 1)
    outs = ctx.lean(lines) if lines else []
    for k, n in zip(dbg, last):
        kv = dict(w.split("=", 1) for w in outs[n].split(" ") if "=" in w)
        mine = [] if kv["mine"] == "-" else [(int(e.split("@")[0]), [int(x) for x in e.split("@")[1].split(".")] if e.split("@")[1] != "-" else [])
                                             for e in kv["mine"].split(";")]
        specs[k]["model_stored"] = {"mine": mine, "others": int(kv["others"]), "run": int(kv["run"])}
    # the graph ECU as a stateful oracle: `scanS` over `graphOracle` must be `scan` (scan_simulates_graph), line by line
    twin = [k for k, c in enumerate(cases) if "fam" not in c and not c.get("start")]
    for k, l in zip(twin, ctx.lean([scans_line(cases[k]) for k in twin])):
        m2 = parse_model(l)
        if any(m2[f] != models[k][f] for f in ("exit", "result", "rows", "reqs", "cur")):
            models[k]["twin"] = {f: m2[f] for f in ("exit", "result", "rows", "cur")} | {"reqs": m2["reqs"][:40]}
        models[k]["client"] = m2["client"]   # the graph model has no client-side session; the stateful twin has
    return impls, models, specs


def shrink(ctx, case, cls):
    """fixed order: flags off, depth down, skip entries out, edges out (sorted), until nothing applies"""

    def still(c):
        (i,), (m,), (s,) = evaluate(ctx, [c])
        return any(j[0] == cls for j in judge(c, i, m, s))

    cur = dict(case)
    budget = 200
    changed = True
    while changed and budget > 0:
        changed = False
        cands = []
        for f, v in (("thorough", False), ("hooks", False), ("reset", None), ("max_retry", 0), ("rst", "p")):
            if cur[f] != v:
                cands.append({**cur, f: v})
        for f in ("boot", "post", "pre", "gh", "pn", "s3ms", "s3n", "fl", "rec", "dl"):
            if cur.get(f):
                cands.append({k: v for k, v in cur.items() if k != f})
        for f in ("rec", "dl"):
            if len(cur.get(f) or ()) > 1:
                for v in sorted(set(cur[f])):
                    cands.append({**cur, f: [v]})
        if cur.get("pn", 0) > 1:
            cands.append({**cur, "pn": 1})
        if cur.get("fl"):
            for n in range(len(cur["fl"])):
                cands.append({**cur, "fl": cur["fl"][:n] + cur["fl"][n + 1:]})
                if cur["fl"][n] != "-":
                    cands.append({**cur, "fl": cur["fl"][:n] + ["-"] + cur["fl"][n + 1:]})
        for e in cur.get("lk", ()):
            cands.append({**cur, "lk": [x for x in cur["lk"] if x != e]})
        for k in sorted(cur.get("gh") or {}, key=lambda k: tuple(map(int, k.split(">")))):
            cands.append({**cur, "gh": {a: b for a, b in cur["gh"].items() if a != k}})
        for d in range(1, cur["depth"]):
            cands.append({**cur, "depth": d})
        for x in cur["skip"]:
            cands.append({**cur, "skip": [y for y in cur["skip"] if y != x]})
        if cur.get("db_history"):
            cands.append({**cur, "db_history": cur["db_history"][:-1]})
            cands.append({**cur, "db_history": cur["db_history"][1:]})
        for k in sorted(cur["g"], key=lambda k: tuple(map(int, k.split(">")))):
            if "vecu" in cur or cur.get("db_history"):
                break  # the graph belongs to the vECU seed / is shared with the scans of the history
            cands.append({**cur, "g": {a: b for a, b in cur["g"].items() if a != k}})
        for c in cands:
            budget -= 1
            if budget <= 0:
                break
            if still(c):
                cur = c
                changed = True
                break
    return cur


def case_key(case):
    if "vecu" in case:
        return (f"vecu={case['vecu'][0]}/{case['vecu'][1]};d={case['depth']};skip={_csv(case['skip'])};"
                f"th={int(case['thorough'])};hk={int(case['hooks'])};mr={case['max_retry']}")
    hist = ""
    if case.get("db_history") is not None:
        hist = ";db=" + ("fresh" if not case["db_history"] else "|".join(
            f"d{h['depth']},skip={_csv(h['skip'])},th={int(h['thorough'])},hk={int(h['hooks'])}"
            + ("" if h["g"] == case["g"] else ",g=" + _edges_str(h)) for h in case["db_history"]))
    return (f"d={case['depth']};skip={_csv(case['skip'])};th={int(case['thorough'])};rs={case['reset']};"
            f"hk={int(case['hooks'])};mr={case['max_retry']};rst={case['rst']};g={_edges_str(case)}"
            + _hook_fields(case).replace(" ", ";") + hist
            + (";" + scans_line(case).split(" fam=")[1].replace(" ", ";") if "fam" in case else ""))


def db_sequence(rng):
    """the same target scanned two or three times into one database with different depth / skip / thorough - deep first,
    shallow first (a session only identified by the first run is entered by a later one) or any order - and sometimes an
    ECU whose behaviour has changed between the runs (software update, another variant behind the same address): every scan
    is a case of its own whose `db_history` lists the scans that filled the database before it"""
    shape = rng.choice(["chain", "chain", "deep-only", "deep-only", "density", "islands"])
    g, ids = rand_graph(rng, shape)
    g = decorate(rng, g, ids, True)
    if rng.random() < 0.5:   # guarded entries: refused from one session (conditionsNotCorrect, securityAccessDenied ..), open from another
        for b in rng.sample(ids[1:], min(len(ids) - 1, rng.randint(1, 2))):
            a = rng.choice([x for x in ids if x != b])
            if g.get((a, b)) != "p" or rng.random() < 0.5:
                g[(a, b)] = rng.choice(["n34", "n34", "n51", "n49"])
    gh, pre, post = None, (), ()
    if rng.random() < 0.25:
        g, gh, pre, post = hook_class(rng, g, ids)
    common = dict(max_retry=rng.choice([0, 0, 1]), rst="p", pre=pre, post=post)
    order = rng.choice(["deep-first", "shallow-first", "shallow-first", "any"])
    n = rng.randint(2, 3)
    depths = sorted(rng.sample([1, 2, 3, 4, 5], n)) if order != "any" else [rng.choice([1, 2, 3, 4]) for _ in range(n)]
    if order == "deep-first":
        depths.reverse()
    scans = []
    for i, depth in enumerate(depths):
        if i and rng.random() < 0.3:   # the ECU behaves differently from now on
            g = dict(g)
            for _ in range(rng.randint(1, 2)):
                a, b = rng.choice(ids), rng.choice(ids[1:])
                g[(a, b)] = rng.choice(["p", "n34", "n18", "n126"]) if g.get((a, b)) != "p" else rng.choice(["n34", "n18"])
            if gh is not None:
                gh = {**g, **{k: v for k, v in gh.items() if g.get(k) == "n34"}}
        skip = []
        if i and rng.random() < 0.35 and len(ids) > 2:
            skip = rng.sample(ids[1:], rng.randint(1, min(2, len(ids) - 1)))
        scans.append(mk_case(g, depth, skip, thorough=rng.random() < 0.2, hooks=bool(pre) and i == 0 or rng.random() < 0.25,
                             reset=rng.choice([None, None, None, 1]) if i else None, gh=gh, **common))
    out = []
    for i, c in enumerate(scans):
        if c["thorough"] and n_walks(c, 40) > 40:
            c["thorough"] = False
        out.append({**c, "db_history": [dict(h) for h in scans[:i]]})
    return out, f"db:{order}:{shape}"


GENERIC = ("skipped-session-requested:default-session:stack-recovery",)


# ------------------------------------------------------------------------------------------------------------
def run(ctx):
    _load_impl()
    rng = ctx.rng
    procs = 1 if (ctx.quick and not ctx.widened) else 16
    ctx.rule = ("one case = (session graph with positive / NRC / silent edges, depth, skip list, thorough, reset level, "
                "with-hooks, max_retry, reset answer); distinct = distinct case; non-trivial = the graph has a positive "
                "edge leaving the default session other than 1->1")
    cases, labels = [], []

    def add(case, label):
        cases.append(case)
        labels.append(label)

    # 0. fixed corner cases (run first)
    add(mk_case({}, 1), "corner:empty-graph")
    add(mk_case({}, 1, skip=[1]), "corner:empty-graph-skip-1")
    add(mk_case({(1, 1): "p"}, 0), "corner:depth-0")
    add(mk_case({(1, 1): "p", (1, 2): "p", (2, 1): "p", (2, 3): "p", (3, 1): "p"}, 2, skip=[1]), "corner:skip-1")
    add(mk_case({(1, 1): "p", (1, 2): "p", (2, 3): "p", (3, 1): "p"}, 3), "corner:no-reentry-from-2")
    add(mk_case({(1, 1): "p", (1, 2): "p", (2, 1): "p", (2, 2): "p", (2, 0x7F): "p", (0x7F, 1): "p", (0x7F, 2): "p",
                 (1, 3): "n34", (2, 3): "n126", (1, 4): "s", (1, 5): "n51", (2, 5): "p", (5, 1): "p"}, 4,
                hooks=True, max_retry=1), "corner:mixed-answers")
    # 0a. replies the client refuses (parse_pdu raises IllegalResponse), the ECU having switched session or not: as a probe
    #     answer, inside the stack recovery, as the hooked attempt, as the answer to the ECUReset of --reset
    base = {(1, 1): "p", (1, 2): "p", (2, 1): "p", (3, 1): "p", (3, 4): "p", (4, 1): "p"}
    for kd in REFUSED_KINDS:
        for sw in "01":
            add(mk_case({**base, (1, 3): f"i{sw}{kd}"}, 3), f"refused:corner:probe:{kd}")
    add(mk_case({**base, (1, 3): "i1u", (3, 1): "i0t"}, 2), "refused:corner:recovery-after-switch")
    add(mk_case({**base, (2, 1): "i0o", (2, 5): "p"}, 3), "refused:corner:recovery")
    add(mk_case({**base, (2, 3): "i1e"}, 3, reset=1), "refused:corner:probe+reset")
    add(mk_case(base, 2, reset=1, rst="i0u"), "refused:corner:reset")
    add(mk_case(base, 2, reset=3, rst="i1t"), "refused:corner:reset-switched")
    add(mk_case({**base, (1, 3): "n34", (2, 3): "n34"}, 3, hooks=True, gh={**base, (1, 3): "i1e", (2, 3): "i0r"}, pre=[0x8502],
                post=[0x8501]), "refused:corner:hooked-attempt")
    add(mk_case({**base, (1, 3): "n34"}, 3, hooks=True), "refused:corner:hooks-base-class")
    for _ in range(ctx.pick(150, 2500)):
        c, label = rand_case_refused(rng)
        add(c, "refused:" + label)
    # 1. exhaustive small graphs
    if ctx.quick and not ctx.widened:
        for c in exhaustive_cases([1, 2, 0x7F], 3):
            add(c, "exhaustive:3-sessions:depth-3")
        ctx.exhaustive_parts.append("all 512 positive-edge subsets over sessions {1,2,0x7f}, depth 3")
    else:
        for d in (1, 2, 3, 4):
            for c in exhaustive_cases([1, 2, 0x7F], d):
                add(c, f"exhaustive:3-sessions:depth-{d}")
            for c in exhaustive_cases([1, 2, 0x7F], d, thorough=True):
                add(c, f"exhaustive:3-sessions:thorough:depth-{d}")
        for c in exhaustive_cases([1, 2, 3], 2, skip=[3], reset=1):
            add(c, "exhaustive:3-sessions:skip+reset")
        for c in exhaustive_cases([1, 2, 3, 0x7F], 4):
            add(c, "exhaustive:4-sessions:depth-4")
        ctx.exhaustive_parts.append("all 512 positive-edge subsets over {1,2,0x7f} x depth 1..4 x thorough on/off; the same "
                                    "over {1,2,3} with skip=[3], reset=1, depth 2; all 65536 positive-edge subsets over "
                                    "{1,2,3,0x7f}, depth 4")
    # 2. seeded
    for _ in range(ctx.pick(450, 6000)):
        c, label = rand_case(rng, ctx.widened)
        add(c, "random:" + label)

    # 3. gallia's own virtual ECU (RandomUDSServer) as the ECU; the model gets the graph read off the server
    for _ in range(ctx.pick(25, 400)):
        vseed, p_s = rng.randrange(10 ** 6), rng.choice([0.05, 0.1, 0.2, 0.3])
        g = vecu_graph(vseed, p_s)
        ids = sorted({a for a, _ in g})
        skip = [] if rng.random() < 0.6 else rng.sample(ids[1:] or [2], 1) + rng.sample(range(2, 0x80), rng.randint(0, 2))
        c = mk_case(g, rng.choice([1, 2, 3, 4, 5]), skip, thorough=rng.random() < 0.3, hooks=rng.random() < 0.2,
                    max_retry=rng.choice([0, 1]))
        c["vecu"] = [vseed, p_s]
        if c["thorough"] and n_walks(c, 40) > 40:
            c["thorough"] = False
        add(c, "vecu:RandomUDSServer")

    # 4. the same target scanned repeatedly into one real database (sqlite file): the scanner must not let earlier results
    #    steer a later scan (the model does not consult the database)
    for _ in range(ctx.pick(28, 220)):
        seq, label = db_sequence(rng)
        for n, c in enumerate(seq):
            add(c, f"{label}:scan-{n + 1}")

    # 5. stateful ECUs (Model/SessionScanS.lean): S3 timer by request count / virtual time, security-locked transitions,
    #    ResponsePending before the reply, sporadic busyRepeatRequest / lost requests with max_retry 0..2
    add({**mk_case({(1, 1): "p", (1, 2): "p", (2, 1): "p", (2, 3): "p", (3, 1): "p", (1, 4): "n18"}, 3), "fam": "s3", "s3n": 2},
        "stateful:corner:s3-count-loses-3")
    add({**mk_case({(1, 1): "p", (1, 2): "p", (2, 1): "p", (2, 3): "p", (3, 1): "p"}, 3), "fam": "locked", "lk": [(2, 3)]},
        "stateful:corner:locked-2-3")
    add({**mk_case({(1, 1): "p", (1, 2): "p", (2, 1): "p", (2, 3): "p", (3, 1): "p"}, 3, max_retry=1), "fam": "graph", "pn": 2,
         "fl": ["-", "s", "-", "b", "-", "-", "s"]}, "stateful:corner:pending+faults")
    for _ in range(ctx.pick(260, 4000)):
        c, label = rand_case_s(rng)
        add(c, label)

    # 6. the content of the positive reply: sessionParameterRecord of 0 / 2 / 4 / 5 / 6 bytes, per ECU or per session
    chain = {(1, 1): "p", (1, 3): "p", (3, 1): "p", (3, 3): "p", (3, 0x40): "p", (3, 0x60): "p", (0x40, 1): "p", (0x40, 0x41): "p",
             (0x41, 1): "p", (0x60, 1): "p", (0x60, 0x61): "p", (0x61, 1): "p", (0x70, 1): "p", (0x70, 0x71): "p", (0x71, 1): "p"}
    for n in REC_LENS:
        add({**mk_case(chain, 3), "rec": [n]}, f"record:corner:all-{n}-bytes")
    add({**mk_case(chain, 4), "rec": REC_LENS}, "record:corner:per-session")
    add({**mk_case(chain, 3, max_retry=1), "fam": "graph", "pn": 2, "rec": [4, 2, 6, 0, 5]}, "record:corner:per-session+pending")
    for _ in range(ctx.pick(90, 1500)):
        c, label = rand_case_rec(rng)
        add(c, label)
    # 7. session changes that complete 0.3 .. 19.1 s after their ResponsePending (virtual time; client timeout 2 s)
    slow = {(1, 1): "p", (1, 2): "p", (1, 3): "p", (2, 1): "p", (2, 0x45): "p", (3, 1): "p", (3, 3): "p", (0x45, 1): "p"}
    for d in GAPS_MS:
        for mr in (0, 2):
            add({**mk_case(slow, 2, max_retry=mr), "fam": "graph", "pn": 1, "dl": [d]}, f"slow-session-change:corner:{d}ms")
    for _ in range(ctx.pick(70, 1200)):
        c, label = rand_case_slow(rng)
        add(c, label)

    impls, models, specs = evaluate(ctx, cases, procs)
    seen_cls = {}
    for case, label, impl, model, spec in zip(cases, labels, impls, models, specs):
        ctx.ev()
        ctx.kind(label, f"depth:{case['depth']}", "thorough" if case["thorough"] else "first-visit",
                 "reset" if case["reset"] else "no-reset", f"exit:{impl['exit']}",
                 "skip:" + ("none" if not case["skip"] else "has-1" if 1 in case["skip"] else "some"),
                 f"reached:{min(len(spec['reach']), 6)}{'+' if len(spec['reach']) > 6 else ''}")
        if any(v == "p" and k.startswith("1>") and k != "1>1" for k, v in case["g"].items()):
            ctx.nontrivial(case_key(case))
        ctx.traces_validated += 1
        ctx.notes["requests_compared"] = ctx.notes.get("requests_compared", 0) + len(impl["reqs"])
        for cls, what, sv in judge(case, impl, model, spec):
            seen_cls.setdefault(cls, []).append((case, what, sv))
    for cls, hits in seen_cls.items():
        hits.sort(key=lambda h: (len(h[0]["g"]), h[0]["depth"]))
        case, what, sv = hits[0]
        small = shrink(ctx, case, cls)
        (i,), (m,), (s,) = evaluate(ctx, [small])
        w = next((j[1] for j in judge(small, i, m, s) if j[0] == cls), what)
        key = f"c09:{cls}" if cls in GENERIC else f"c09:{cls}:{case_key(small)}"
        ctx.disagree(key, w, small, impl={k: (v if k not in ("reqs", "recover_flags") else v[:40]) for k, v in i.items()},
                     model={"exit": m["exit"], "result": m["result"], "rows": m["rows"], "reqs": m["reqs"][:40],
                            "spec_reach": s["reach"]},
                     spec_violated=sv, site="SessionsScanner.main / _recover_stack")
    k = next((n for n, l in enumerate(labels) if l.startswith("random")), 0)
    for n in (5, k, k + 1):
        if n < len(cases):
            ctx.sample({"case": cases[n], "impl_result": impls[n]["result"], "impl_exit": impls[n]["exit"],
                        "n_requests": len(impls[n]["reqs"]), "spec_reach": specs[n]["reach"]})


def replay(ctx, case):
    c = case["case"]
    (i,), (m,), (s,) = evaluate(ctx, [c])
    print("case :", c)
    print("impl : exit", i["exit"], "result", i["result"], "rows", i["rows"], "requests", len(i["reqs"]), i["reqs"][:30])
    print("model: exit", m["exit"], "result", m["result"], "rows", m["rows"], "requests", len(m["reqs"]), m["reqs"][:30])
    print("spec : reach", s["reach"], "bad", s["bad"])
    js = judge(c, i, m, s)
    for j in js:
        print("  ->", j)
    return any(j[2] for j in js)


MANIFEST = {
    "level_text": ("Lean 4 theorems over an executable model of SessionsScanner.main (level loop, stack recovery, "
                   "searched-sessions pruning, on-stack cycle test, NRC classification, retransmissions, --reset with "
                   "ECUReset + wait_for_ecu and the ECU's boot phase, --with-hooks with the hooked second attempt through "
                   "ECU.set_session (set_session_pre requests, 10 s, set_session_post requests) on ECUs that answer a hooked "
                   "attempt differently, exit 1 on failed recovery) against the reachability specification ReachWithin over "
                   "the effective graph `edge` (an edge refused with conditionsNotCorrect counts when --with-hooks is given "
                   "and the hooked attempt succeeds): soundness "
                   "of every reported (session, stack) for every ECU graph, completeness for every run that does not give "
                   "up (proved never to happen when every session can re-enter the default session), structural "
                   "termination, state tracking before every probe, skipped sessions never requested (except the default "
                   "session during stack recovery: witness theorem + known finding), thorough mode and --reset report the same set, "
                   "--with-hooks only adds sessions. "
                   "Generalised to arbitrary STATEFUL ECUs (Model/SessionScanS.lean: `step : state -> idle ms -> request -> state x "
                   "reply`, every transmission of request_unsafe a step, ResponsePending frames, hook requests through "
                   "request_unsafe, the pings of wait_for_ecu up to its budget, the client's own session state): the stateful scan "
                   "of every GraphLike ECU is the graph scan (scan_simulates_graph, with soundness / completeness / exactness as "
                   "corollaries; the graph ECU run step by step and the security-locked ECU are instances: "
                   "scan_exact_locked_subgraph); ResponsePending is transparent (scan_pending_transparent); for ANY ECU the wire "
                   "carries only probes to non-skipped sessions, recovery DSCs, reset + pings under --reset and the hook requests "
                   "under --with-hooks (requests_only_dsc_reset_ping_hooks, skip_not_requested_any) and at most "
                   "sum_j 127^j * perProbe(j) requests (requests_bounded); the written rows are characterised (rows_match_report); "
                   "under an S3 session timeout completeness and the reported stack fail (witness theorems). "
                   "Replies the client refuses (Ans.illegal switched; parse_pdu raises IllegalResponse) are part of the answer alphabet "
                   "of both models on every path of the scanner (probe: `except Exception`, nothing recorded, recover_stack set; "
                   "_recover_stack: exit 1; hooked attempt: the exception leaves set_session before the post hook; ECUReset: the "
                   "exception leaves main): illegal_never_reported (a session answered only with refused replies is neither reported "
                   "nor listed as identified, no row), illegal_recovers_stack (after a refused probe reply the next probe is prepared by "
                   "a full stack recovery, so a silently switched session cannot leak: scan_state_tracking holds unchanged for every "
                   "ECU), scan_sound / scan_complete unchanged, scan_complete_no_refused. "
                   "Tied to the code by running the real SessionsScanner.main() with a real ECU/UDSClient on an in-process "
                   "graph ECU under virtual time and comparing result, written session_transition rows, exit status, final "
                   "session and the exact request sequence seen by the ECU; the specification is evaluated on what the real "
                   "scanner reported. Stateful families (S3 timer by request count and by virtual time, security-locked "
                   "transitions, ResponsePending frames, scripted busyRepeatRequest / lost requests, max_retry 0..2, hooks, "
                   "reset) drive the real scanner against the stateful model on result, rows, exit, ECU and client session and "
                   "the exact wire trace; every graph case is also run through the stateful model (twin check). Graph ECUs answer "
                   "edges, hooked attempts and the ECUReset with refused replies of four kinds (`7f 10 80` / `7f 10 23`, `50`, "
                   "`7f 22 31` / `62 f1 86 03`, `50 07 ..`), switched or not; stateful ECUs garble replies by script (instead of "
                   "handling / after handling the request, hook requests included). Positive session-change replies carry a "
                   "sessionParameterRecord of 0 / 2 / 4 / 5 / 6 bytes (per ECU / per session; the model has no reply content, so any "
                   "dependence of the scan on it is a disagreement); session changes announced with ResponsePending complete 0.3 .. 19.1 s "
                   "(virtual time) later with the default client timeout and max_retry 0..3 (Model: withSlowPending; "
                   "scan_slow_pending_transparent: below the 20 s of the pending loop the scan is the scan of the ECU that answers at "
                   "once; slow_pending_lost_at_giveup: at 20 s the transmission is lost). "
                   "Scans with a database: the session_transition table is modelled (Model/SessionDb.lean: rows (run, destination, "
                   "steps), insert appends, fresh run ids); stored_transitions_are_reported_stacks: whatever earlier runs left in the "
                   "table, the rows of a run under a fresh id are exactly its reported stacks, other runs' rows are untouched and every "
                   "reported session has a row of this run whose sequence is a valid path of at most `depth` changes; next_run_is_fresh. "
                   "Tied by running the real scanner with the real DBHandler on a sqlite file - one scan, and two or three consecutive "
                   "scans of the same target (deep first / shallow first / any order, other skip / thorough / hooks / reset, sometimes a "
                   "changed ECU graph) into the same file - and reading the rows of each run back from the file: every reported session "
                   "must have a stored sequence of that run that leads there (specification evaluated on the stored rows), the stored "
                   "rows must be the rows handed to the handler and the rows of the database model, earlier runs' rows must not change."),
    "level_note": ("Trusted: Lean kernel (axioms propext, Quot.sound, Classical.choice), the harness and its graph ECU, the "
                   "virtual-time loop. The ECU class is a deterministic session graph (answers depend on the current "
                   "session and on whether the session hook preceded the request); responsePending handling belongs to C04; OEM "
                   "hooks are request lists."),
    "technique": "Lean 4 proof (invariants over nested folds, BFS completeness, layer-by-layer simulation of the graph model by the stateful model) + differential correspondence against the real scanner",
    "design_ref": "DESIGN.md section 7, C09",
}
